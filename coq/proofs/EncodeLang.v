(* EncodeLang.v -- C01: on the class [trees_exact] the program the encoder emits has exactly the documented
   language: sem (encode t) w <-> Lang t w, for every token tree and every text. *)
From Coq Require Import Arith Lia.
From WaxModel Require Import Base Token Regex Spec Encode.
From WaxProofs Require Import EncodeFacts SpecFacts.

Section EncodeLang.
Variable orbit : char -> list char.
Notation sem := (Regex.sem orbit).
Notation FlatMatch := (Spec.FlatMatch orbit).
Notation leaf_piece := (Spec.leaf_piece orbit).

(* ---- strings ------------------------------------------------------------------------------------ *)
Lemma starts_sep_iff : forall w, starts_sep w = true <-> exists u, w = SEP :: u.
Proof.
  intros [|c w]; cbn [starts_sep]; split.
  - discriminate.
  - intros [u H]; discriminate.
  - intros H. apply N.eqb_eq in H. subst. eexists. reflexivity.
  - intros [u H]. inversion H. apply N.eqb_refl.
Qed.

Lemma ends_sep_iff : forall w, ends_sep w = true <-> exists u, w = u ++ [SEP].
Proof.
  intros w. unfold ends_sep. rewrite starts_sep_iff. split.
  - intros [u H]. exists (rev u). rewrite <- (rev_involutive w), H. cbn [rev]. reflexivity.
  - intros [u ->]. exists (rev u). rewrite rev_app_distr. reflexivity.
Qed.

Lemma ends_sep_nil : ends_sep [] = false. Proof. reflexivity. Qed.
Lemma ends_sep_single : ends_sep [SEP] = true. Proof. reflexivity. Qed.
Lemma ends_sep_snoc : forall u, ends_sep (u ++ [SEP]) = true.
Proof. intros u. apply ends_sep_iff. exists u. reflexivity. Qed.
Lemma ends_sep_cons : forall c u, u <> [] -> ends_sep (c :: u) = ends_sep u.
Proof.
  intros c u Hu. unfold ends_sep. cbn [rev]. destruct (rev u) eqn:E.
  - exfalso. apply Hu. rewrite <- (rev_involutive u), E. reflexivity.
  - reflexivity.
Qed.

(* ---- the four encodings of a tree wildcard are its documented language by position ---------------------- *)
Lemma sem_opt_sep : forall w, sem (ROpt RSep) w <-> w = [] \/ w = [SEP].
Proof. intros w. cbn [Regex.sem]. tauto. Qed.

Lemma enc_tree_piece :
  forall cap s e root w, (root && s && negb e) = false ->
    (sem (enc_tree cap s e root) w <-> tree_piece s e root w = true).
Proof.
  intros cap s e root w Hn. unfold tree_piece.
  destruct s, e, root; try discriminate; cbn [enc_tree enc_tree_mid grp Regex.sem andb orb negb]; clear Hn.
  - (* only, rooted: [/] everything *)
    rewrite orb_false_r, andb_true_r. rewrite starts_sep_iff. split.
    + intros [u [v [-> [-> _]]]]. eexists. reflexivity.
    + intros [u ->]. exists [SEP], u. auto.
  - (* only, unrooted *) split; intros _; [reflexivity|exact I].
  - (* first, not last, unrooted: "" or ...[/] *)
    split.
    + intros [[->| ->]|[u [v [-> [_ ->]]]]]; [reflexivity|reflexivity|]. rewrite ends_sep_snoc. reflexivity.
    + intros H. destruct w as [|c w']; [left; left; reflexivity|].
      cbn [is_nil] in H. rewrite orb_false_r in H.
      apply ends_sep_iff in H. destruct H as [u Hu]. right. exists u, [SEP]. rewrite Hu. auto.
  - (* last, not first: "" or [/]... *)
    rewrite andb_true_r. split.
    + intros [[->| ->]|[u [v [-> [-> _]]]]]; reflexivity.
    + intros H. destruct w as [|c w']; [left; left; reflexivity|].
      cbn [starts_sep is_nil] in H. rewrite orb_false_r in H. apply N.eqb_eq in H. subst c.
      right. exists [SEP], w'. auto.
  - rewrite andb_true_r. split.
    + intros [[->| ->]|[u [v [-> [-> _]]]]]; reflexivity.
    + intros H. destruct w as [|c w']; [left; left; reflexivity|].
      cbn [starts_sep is_nil] in H. rewrite orb_false_r in H. apply N.eqb_eq in H. subst c.
      right. exists [SEP], w'. auto.
  - (* neither: [/] or [/]...[/] *)
    rewrite !orb_false_r. split.
    + intros [->|[u [v [-> [-> [u' [v' [-> [_ ->]]]]]]]]]; [reflexivity|].
      cbn [app starts_sep]. rewrite N.eqb_refl. cbn [andb].
      change (SEP :: u' ++ [SEP]) with ((SEP :: u') ++ [SEP]). apply ends_sep_snoc.
    + intros H. apply andb_prop in H. destruct H as [Hs He].
      apply starts_sep_iff in Hs. destruct Hs as [u ->].
      destruct u as [|c u']; [left; reflexivity|].
      rewrite ends_sep_cons in He by discriminate. apply ends_sep_iff in He. destruct He as [u'' Hu].
      right. exists [SEP], (c :: u'). split; [reflexivity|]. split; [reflexivity|].
      exists u'', [SEP]. rewrite Hu. auto.
  - rewrite !orb_false_r. split.
    + intros [->|[u [v [-> [-> [u' [v' [-> [_ ->]]]]]]]]]; [reflexivity|].
      cbn [app starts_sep]. rewrite N.eqb_refl. cbn [andb].
      change (SEP :: u' ++ [SEP]) with ((SEP :: u') ++ [SEP]). apply ends_sep_snoc.
    + intros H. apply andb_prop in H. destruct H as [Hs He].
      apply starts_sep_iff in Hs. destruct Hs as [u ->].
      destruct u as [|c u']; [left; reflexivity|].
      rewrite ends_sep_cons in He by discriminate. apply ends_sep_iff in He. destruct He as [u'' Hu].
      right. exists [SEP], (c :: u'). split; [reflexivity|]. split; [reflexivity|].
      exists u'', [SEP]. rewrite Hu. auto.
Qed.

(* ---- flat matching distributes over concatenation of flat sequences ----------------------------------------- *)
Lemma is_nil_app : forall {A} (x y : list A), is_nil (x ++ y) = is_nil x && is_nil y.
Proof. intros A [|a x] y; reflexivity. Qed.

Lemma flatmatch_nil : forall f l w, FlatMatch f l [] w <-> w = [].
Proof. intros f l w. split; [intros H; inversion H; reflexivity|intros ->; constructor]. Qed.

Lemma flatmatch_app : forall x y f l w,
  FlatMatch f l (x ++ y) w <->
  exists u v, w = u ++ v /\ FlatMatch f (l && is_nil y) x u /\ FlatMatch (f && is_nil x) l y v.
Proof.
  induction x as [|a x IH]; intros y f l w.
  - cbn [app is_nil]. rewrite andb_true_r. split.
    + intros H. exists [], w. split; [reflexivity|]. split; [constructor|exact H].
    + intros [u [v [-> [Hu Hv]]]]. apply flatmatch_nil in Hu. subst u. exact Hv.
  - cbn [app is_nil]. rewrite andb_false_r. split.
    + intros H. inversion H as [|f0 l0 a0 x0 u v Hp Hrest]; subst.
      apply IH in Hrest. destruct Hrest as [u1 [v1 [-> [H1 H2]]]]. cbn [andb] in H2.
      exists (u ++ u1), v1. split; [apply app_assoc|]. split; [|exact H2].
      constructor; [|exact H1]. rewrite is_nil_app in Hp. rewrite andb_assoc in Hp.
      replace (l && is_nil y && is_nil x) with (l && is_nil x && is_nil y) by (destruct l, (is_nil x), (is_nil y); reflexivity). exact Hp.
    + intros [u [v [-> [Hu Hv]]]]. inversion Hu as [|f0 l0 a0 x0 u0 v0 Hp Hrest]; subst.
      rewrite <- app_assoc. constructor.
      * rewrite is_nil_app.
        replace (l && (is_nil x && is_nil y)) with (l && is_nil y && is_nil x) by (destruct l, (is_nil x), (is_nil y); reflexivity). exact Hp.
      * apply IH. exists v0, v. split; [reflexivity|]. split; [exact Hrest|]. cbn [andb]. exact Hv.
Qed.

(* the pieces of a concatenation of expansions: each gets its true position *)
Fixpoint FlatMatchs (f l : bool) (xs : list (list leaf)) (w : str) : Prop :=
  match xs with
  | [] => w = []
  | x :: xs' => exists u v, w = u ++ v /\ FlatMatch f (l && forallb is_nil xs') x u /\ FlatMatchs (f && is_nil x) l xs' v
  end.

Lemma is_nil_concat : forall {A} (xs : list (list A)), is_nil (concat xs) = forallb is_nil xs.
Proof. induction xs as [|x xs IH]; [reflexivity|]. cbn [concat forallb]. rewrite is_nil_app, IH. reflexivity. Qed.

Lemma flatmatch_concat : forall xs f l w, FlatMatch f l (concat xs) w <-> FlatMatchs f l xs w.
Proof.
  induction xs as [|x xs IH]; intros f l w.
  - cbn [concat FlatMatchs]. apply flatmatch_nil.
  - cbn [concat FlatMatchs]. rewrite flatmatch_app. rewrite is_nil_concat. split.
    + intros [u [v [-> [Hu Hv]]]]. exists u, v. split; [reflexivity|]. split; [exact Hu|]. apply IH. exact Hv.
    + intros [u [v [-> [Hu Hv]]]]. exists u, v. split; [reflexivity|]. split; [exact Hu|]. apply IH. exact Hv.
Qed.


(* ---- a flag only matters to a tree wildcard at that end of the sequence ------------------------------------------- *)
Definition head_tree (x : list leaf) : bool := match x with LTree _ :: _ => true | _ => false end.
Fixpoint last_tree (x : list leaf) : bool :=
  match x with
  | [] => false
  | [LTree _] => true
  | [_] => false
  | _ :: x' => last_tree x'
  end.

Lemma leaf_piece_first_irrelevant : forall a f f' l u,
  (match a with LTree _ => false | _ => true end) = true -> leaf_piece f l a u -> leaf_piece f' l a u.
Proof. intros a f f' l u Ha H. destruct a; try discriminate; exact H. Qed.

Lemma leaf_piece_last_irrelevant : forall a f l l' u,
  (match a with LTree _ => false | _ => true end) = true -> leaf_piece f l a u -> leaf_piece f l' a u.
Proof. intros a f l l' u Ha H. destruct a; try discriminate; exact H. Qed.

Lemma flatmatch_first_irrelevant : forall x f f' l w, head_tree x = false -> FlatMatch f l x w -> FlatMatch f' l x w.
Proof.
  intros x f f' l w Hh H. inversion H as [|f0 l0 a x0 u v Hp Hrest]; subst; [constructor|].
  constructor; [|exact Hrest]. eapply leaf_piece_first_irrelevant; [|exact Hp].
  destruct a; try reflexivity. discriminate.
Qed.

Lemma last_tree_cons : forall a x, x <> [] -> last_tree (a :: x) = last_tree x.
Proof. intros a [|b x] H; [congruence|]. destruct a; reflexivity. Qed.

Lemma flatmatch_last_irrelevant : forall x f l l' w, last_tree x = false -> FlatMatch f l x w -> FlatMatch f l' x w.
Proof.
  induction x as [|a x IH]; intros f l l' w Hl H.
  - inversion H; subst. constructor.
  - inversion H as [|f0 l0 a0 x0 u v Hp Hrest]; subst. destruct x as [|b x'].
    + cbn [is_nil andb] in *. rewrite andb_true_r in Hp. inversion Hrest; subst.
      constructor; [|constructor]. cbn [is_nil]. rewrite andb_true_r.
      eapply leaf_piece_last_irrelevant; [|exact Hp]. destruct a; try reflexivity. discriminate.
    + rewrite last_tree_cons in Hl by discriminate. cbn [is_nil] in *. rewrite andb_false_r in *.
      constructor; [cbn [is_nil]; rewrite andb_false_r; exact Hp|]. eapply IH; [exact Hl|exact Hrest].
Qed.

Lemma head_tree_app : forall x y, head_tree (x ++ y) = if is_nil x then head_tree y else head_tree x.
Proof. intros [|a x] y; reflexivity. Qed.

Lemma last_tree_app : forall x y, last_tree (x ++ y) = if is_nil y then last_tree x else last_tree y.
Proof.
  induction x as [|a x IH]; intros y.
  - cbn [app]. destruct y; reflexivity.
  - destruct y as [|b y].
    + rewrite app_nil_r. reflexivity.
    + cbn [app is_nil]. rewrite last_tree_cons by (destruct x; discriminate). rewrite IH. reflexivity.
Qed.

Lemma expands_nil_fnull : forall t, Expands t [] -> fnull t = true.
Proof.
  induction t as [sp l|sp bs IH|sp ts IH|sp b lo hi IH] using tok_ind'; intros H.
  - inversion H.
  - inversion H as [|sp0 bs0 b x Hin Hb| |]; subst. cbn [fnull]. apply existsb_exists. exists b. split; [exact Hin|].
    rewrite Forall_forall in IH. apply IH; assumption.
  - inversion H; subst. cbn [fnull]. apply forallb_forall. intros t Hin.
    rewrite Forall_forall in IH. apply IH; [exact Hin|].
    match goal with HF : Forall2 Expands ts ?xs, Hc : concat ?xs = [] |- _ =>
      revert Hc Hin; clear IH H; induction HF as [|t0 x0 ts' xs' Hx _ IHF]; intros Hc Hin; [contradiction|];
      cbn [concat] in Hc; apply app_eq_nil in Hc; destruct Hc as [-> Hc]; destruct Hin as [<-|Hin]; [exact Hx|];
      apply IHF; assumption
    end.
  - inversion H; subst. cbn [fnull].
    match goal with Hb : in_bounds (length ?xs) lo hi, HF : Forall (Expands b) ?xs, Hc : concat ?xs = [] |- _ =>
      destruct xs as [|x xs'];
      [ destruct Hb as [Hlo _]; cbn in Hlo; assert (lo = 0%N) by lia; subst; reflexivity
      | cbn [concat] in Hc; apply app_eq_nil in Hc; destruct Hc as [-> _]; inversion HF; subst;
        rewrite IH by assumption; apply orb_true_r ]
    end.
Qed.

(* ---- the stability predicate on concatenations, as a function of its own --------------------------------------------- *)
Fixpoint stable_cat (stab : tok -> bool -> poss -> bool -> poss -> bool) (s : bool) (ps : poss) (e : bool) (pe : poss)
    (ts : list tok) (first pre : bool) : bool :=
  match ts with
  | [] => true
  | t0 :: ts' =>
      let last := is_nil ts' in
      let post := forallb fnull ts' in
      let ps0 := if first then ps else mkPoss (can_t ps && pre) true in
      let pe0 := if last then pe else mkPoss (can_t pe && post) true in
      stab t0 (s && first) ps0 (e && last) pe0 && stable_cat stab s ps e pe ts' false (pre && fnull t0)
  end.

Lemma stable_gen_cat : forall strict sp ts s ps e pe,
  stable_gen strict (TCat sp ts) s ps e pe = stable_cat (stable_gen strict) s ps e pe ts true true.
Proof.
  intros strict sp ts s ps e pe. cbn [stable_gen].
  match goal with |- ?F ts true true = _ =>
    assert (G : forall l first pre, F l first pre = stable_cat (stable_gen strict) s ps e pe l first pre)
  end.
  { induction l as [|t0 l IH]; intros first pre; [reflexivity|]. cbn [stable_cat]. rewrite <- IH. reflexivity. }
  apply G.
Qed.

Definition both (p : poss) : bool := can_t p && can_f p.

Lemma forall2_concat_nil : forall ts xs, Forall2 Expands ts xs -> concat xs = [] -> forallb fnull ts = true.
Proof.
  intros ts xs H. induction H as [|t x ts xs Hx _ IH]; intros Hc; [reflexivity|].
  cbn [concat] in Hc. apply app_eq_nil in Hc. destruct Hc as [-> Hc]. cbn [forallb].
  rewrite (expands_nil_fnull t Hx), (IH Hc). reflexivity.
Qed.

(* where both "first" and "not first" are possible, no expansion begins with a tree wildcard *)
Lemma stable_both_head : forall strict t s ps e pe x,
  stable_gen strict t s ps e pe = true -> both ps = true -> Expands t x -> head_tree x = false.
Proof.
  intros strict. induction t as [sp l|sp bs IH|sp ts IH|sp b lo hi IH] using tok_ind'; intros s ps e pe x Hs Hb Hx.
  - inversion Hx; subst. destruct l; try reflexivity. cbn [stable_gen] in Hs.
    unfold both in Hb. apply andb_prop in Hb. destruct Hb as [Ht Hf].
    unfold poss_ok in Hs. rewrite Ht, Hf in Hs. destruct s; discriminate.
  - inversion Hx; subst. cbn [stable_gen] in Hs. rewrite forallb_forall in Hs. rewrite Forall_forall in IH.
    eapply IH; eauto.
  - inversion Hx; subst. rewrite stable_gen_cat in Hs.
    match goal with HF : Forall2 Expands ts ?xs |- _ => rename HF into HF0; rename xs into xs0 end.
    assert (G : forall first pre, stable_cat (stable_gen strict) s ps e pe ts first pre = true ->
                can_t ps = true -> pre = true -> (first = true -> can_f ps = true) -> head_tree (concat xs0) = false).
    { clear Hs Hx. induction HF0 as [|t0 x0 ts' xs' Hx0 HF' IHF]; intros first pre Hs Ht Hpre Hfirst; [reflexivity|].
      cbn [stable_cat] in Hs. apply andb_prop in Hs. destruct Hs as [Hs0 Hs'].
      inversion IH as [|? ? IH0 IH']; subst. cbn [concat]. rewrite head_tree_app.
      assert (Hh0 : head_tree x0 = false).
      { eapply IH0; [exact Hs0| |exact Hx0]. destruct first; [unfold both; rewrite Ht, Hfirst by reflexivity; reflexivity|].
        unfold both. cbn [can_t can_f]. rewrite Ht. reflexivity. }
      destruct (is_nil x0) eqn:En; [|exact Hh0].
      destruct x0; [|discriminate]. apply (IHF IH' false (true && fnull t0)); try assumption.
      - rewrite (expands_nil_fnull t0 Hx0). reflexivity.
      - discriminate. }
    unfold both in Hb. apply andb_prop in Hb. destruct Hb as [Ht Hf]. apply (G true true Hs Ht eq_refl). intros _. exact Hf.
  - inversion Hx; subst. cbn [stable_gen] in Hs.
    match goal with HF : Forall (Expands b) ?xs |- _ => rename HF into HF0; rename xs into xs0 end.
    assert (Hb' : both (if can_repeat hi then poss_add_f ps else ps) = true).
    { unfold both in *. destruct (can_repeat hi); [cbn [poss_add_f can_t can_f]|exact Hb].
      apply andb_prop in Hb. destruct Hb as [-> _]. reflexivity. }
    clear Hx. match goal with H : in_bounds _ _ _ |- _ => clear H end.
    induction HF0 as [|x0 xs' Hx0 _ IHF]; [reflexivity|].
    cbn [concat]. rewrite head_tree_app. destruct (is_nil x0); [exact IHF|].
    eapply IH; [exact Hs|exact Hb'|exact Hx0].
Qed.

Lemma stable_both_last : forall strict t s ps e pe x,
  stable_gen strict t s ps e pe = true -> both pe = true -> Expands t x -> last_tree x = false.
Proof.
  intros strict. induction t as [sp l|sp bs IH|sp ts IH|sp b lo hi IH] using tok_ind'; intros s ps e pe x Hs Hb Hx.
  - inversion Hx; subst. destruct l; try reflexivity. cbn [stable_gen] in Hs.
    unfold both in Hb. apply andb_prop in Hb. destruct Hb as [Ht Hf].
    unfold poss_ok in Hs. rewrite Ht, Hf in Hs. destruct s, e; cbn in Hs; try discriminate;
      repeat rewrite andb_false_r in Hs; try discriminate; destruct (can_f ps), (can_t ps); discriminate.
  - inversion Hx; subst. cbn [stable_gen] in Hs. rewrite forallb_forall in Hs. rewrite Forall_forall in IH.
    eapply IH; eauto.
  - inversion Hx; subst. rewrite stable_gen_cat in Hs.
    match goal with HF : Forall2 Expands ts ?xs |- _ => rename HF into HF0; rename xs into xs0 end.
    unfold both in Hb. apply andb_prop in Hb. destruct Hb as [Ht Hf].
    assert (G : forall first pre, stable_cat (stable_gen strict) s ps e pe ts first pre = true -> last_tree (concat xs0) = false).
    { clear Hs Hx. induction HF0 as [|t0 x0 ts' xs' Hx0 HF' IHF]; intros first pre Hs; [reflexivity|].
      cbn [stable_cat] in Hs. apply andb_prop in Hs. destruct Hs as [Hs0 Hs'].
      inversion IH as [|? ? IH0 IH']; subst. cbn [concat]. rewrite last_tree_app.
      destruct (is_nil (concat xs')) eqn:En; [|eapply IHF; eassumption].
      eapply IH0; [exact Hs0| |exact Hx0].
      destruct (is_nil ts'); [unfold both; rewrite Ht, Hf; reflexivity|].
      unfold both. cbn [can_t can_f]. rewrite Ht.
      assert (Hc : concat xs' = []) by (destruct (concat xs'); [reflexivity|discriminate]).
      rewrite (forall2_concat_nil ts' xs' HF' Hc). reflexivity. }
    eapply G. exact Hs.
  - inversion Hx; subst. cbn [stable_gen] in Hs.
    match goal with HF : Forall (Expands b) ?xs |- _ => rename HF into HF0; rename xs into xs0 end.
    assert (Hb' : both (if can_repeat hi then poss_add_f pe else pe) = true).
    { unfold both in *. destruct (can_repeat hi); [cbn [poss_add_f can_t can_f]|exact Hb].
      apply andb_prop in Hb. destruct Hb as [-> _]. reflexivity. }
    clear Hx. match goal with H : in_bounds _ _ _ |- _ => clear H end.
    induction HF0 as [|x0 xs' Hx0 _ IHF]; [reflexivity|].
    cbn [concat]. rewrite last_tree_app. destruct (is_nil (concat xs')); [|exact IHF].
    eapply IH; [exact Hs|exact Hb'|exact Hx0].
Qed.

(* ---- standalone versions for concatenations ------------------------------------------------------------------------- *)
Lemma stable_cat_head : forall strict s ps e pe ts xs first pre,
  stable_cat (stable_gen strict) s ps e pe ts first pre = true ->
  can_t ps = true -> pre = true -> (first = true -> can_f ps = true) ->
  Forall2 Expands ts xs -> head_tree (concat xs) = false.
Proof.
  intros strict s ps e pe ts xs first pre Hs Ht Hpre Hfirst HF. revert first pre Hs Hpre Hfirst.
  induction HF as [|t0 x0 ts' xs' Hx0 HF' IHF]; intros first pre Hs Hpre Hfirst; [reflexivity|].
  cbn [stable_cat] in Hs. apply andb_prop in Hs. destruct Hs as [Hs0 Hs']. cbn [concat]. rewrite head_tree_app.
  assert (Hh0 : head_tree x0 = false).
  { eapply stable_both_head; [exact Hs0| |exact Hx0]. destruct first.
    - unfold both. rewrite Ht, Hfirst by reflexivity. reflexivity.
    - unfold both. cbn [can_t can_f]. rewrite Ht, Hpre. reflexivity. }
  destruct (is_nil x0) eqn:En; [|exact Hh0].
  destruct x0; [|discriminate]. apply (IHF false (pre && fnull t0)); [exact Hs'| |discriminate].
  rewrite Hpre, (expands_nil_fnull t0 Hx0). reflexivity.
Qed.

Lemma stable_cat_last : forall strict s ps e pe ts xs first pre,
  stable_cat (stable_gen strict) s ps e pe ts first pre = true ->
  both pe = true -> Forall2 Expands ts xs -> last_tree (concat xs) = false.
Proof.
  intros strict s ps e pe ts xs first pre Hs Hb HF. revert first pre Hs.
  unfold both in Hb. apply andb_prop in Hb. destruct Hb as [Ht Hf].
  induction HF as [|t0 x0 ts' xs' Hx0 HF' IHF]; intros first pre Hs; [reflexivity|].
  cbn [stable_cat] in Hs. apply andb_prop in Hs. destruct Hs as [Hs0 Hs']. cbn [concat]. rewrite last_tree_app.
  destruct (is_nil (concat xs')) eqn:En; [|eapply IHF; eassumption].
  eapply stable_both_last; [exact Hs0| |exact Hx0].
  destruct (is_nil ts'); [unfold both; rewrite Ht, Hf; reflexivity|].
  unfold both. cbn [can_t can_f]. rewrite Ht.
  assert (Hc : concat xs' = []) by (destruct (concat xs'); [reflexivity|discriminate]).
  rewrite (forall2_concat_nil ts' xs' HF' Hc). reflexivity.
Qed.

(* ---- admissible flags ---------------------------------------------------------------------------------------------- *)
Definition has (p : poss) (b : bool) : bool := if b then can_t p else can_f p.

Lemma has_both : forall p b1 b2, has p b1 = true -> has p b2 = true -> b1 <> b2 -> both p = true.
Proof. intros p [] [] H1 H2 Hn; try congruence; unfold both, has in *; rewrite H1, H2; reflexivity. Qed.

(* within the admissible flags, the flags do not matter: a different admissible flag is only possible where no
   tree wildcard sits at that end *)
Lemma convert_first : forall x f1 f2 l w, (f1 <> f2 -> head_tree x = false) -> FlatMatch f1 l x w -> FlatMatch f2 l x w.
Proof.
  intros x f1 f2 l w Hh H. destruct (Bool.bool_dec f1 f2) as [->|Hn]; [exact H|].
  eapply flatmatch_first_irrelevant; [apply Hh; exact Hn|exact H].
Qed.

Lemma convert_last : forall x f l1 l2 w, (l1 <> l2 -> last_tree x = false) -> FlatMatch f l1 x w -> FlatMatch f l2 x w.
Proof.
  intros x f l1 l2 w Hh H. destruct (Bool.bool_dec l1 l2) as [->|Hn]; [exact H|].
  eapply flatmatch_last_irrelevant; [apply Hh; exact Hn|exact H].
Qed.

Lemma convert_tok : forall t s ps e pe x f1 f2 l1 l2 w,
  stable_gen true t s ps e pe = true -> Expands t x ->
  has ps f1 = true -> has ps f2 = true -> has pe l1 = true -> has pe l2 = true ->
  FlatMatch f1 l1 x w -> FlatMatch f2 l2 x w.
Proof.
  intros t s ps e pe x f1 f2 l1 l2 w Hs Hx Hf1 Hf2 Hl1 Hl2 H.
  eapply convert_first; [|eapply convert_last; [|exact H]].
  - intros Hn. eapply stable_both_head; [exact Hs| |exact Hx]. exact (has_both ps f1 f2 Hf1 Hf2 Hn).
  - intros Hn. eapply stable_both_last; [exact Hs| |exact Hx]. exact (has_both pe l1 l2 Hl1 Hl2 Hn).
Qed.

(* ---- well-formed token trees: valid class ranges, ordered bounds, non-empty alternations ------------------------------- *)
Fixpoint wf_tok (t : tok) : bool :=
  match t with
  | TLeaf _ (LClass _ a) => forallb arch_valid a
  | TLeaf _ _ => true
  | TAlt _ bs => negb (is_nil bs) && forallb wf_tok bs
  | TCat _ ts => forallb wf_tok ts
  | TRep _ b lo hi => wf_tok b && match hi with Some h => lo <=? h | None => true end
  end.

Definition agrees (t : tok) : Prop :=
  forall cap s ps e pe f l w,
    stable_gen true t s ps e pe = true -> has ps f = true -> has pe l = true ->
    (sem (enc_tok cap t s e) w <-> exists x, Expands t x /\ FlatMatch f l x w).

Lemma has_ok : forall a p b, poss_ok a p = true -> has p b = true -> b = a.
Proof. intros [] p [] Ho Hh; try reflexivity; unfold poss_ok, has in *; rewrite Hh in Ho; discriminate. Qed.

Lemma flatmatch_single : forall f l a w, FlatMatch f l [a] w <-> leaf_piece f l a w.
Proof.
  intros f l a w. split.
  - intros H. inversion H as [|f0 l0 a0 x0 u v Hp Hrest]; subst. inversion Hrest; subst.
    rewrite app_nil_r. cbn [is_nil] in Hp. rewrite andb_true_r in Hp. exact Hp.
  - intros H. rewrite <- (app_nil_r w). constructor; [|constructor]. cbn [is_nil]. rewrite andb_true_r. exact H.
Qed.

Lemma agrees_leaf : forall sp l0, wf_tok (TLeaf sp l0) = true -> agrees (TLeaf sp l0).
Proof.
  intros sp l0 Hwf cap s ps e pe f l w Hs Hf Hl. split.
  - intros H. exists [l0]. split; [constructor|]. apply flatmatch_single.
    destruct l0; cbn [enc_tok enc_leaf leaf_piece] in *.
    + exact H.
    + exact H.
    + apply (class_sem orbit cap s e neg a w Hwf). exact H.
    + apply (one_sem orbit cap s e w). exact H.
    + apply (zom_sem orbit cap s e lazy w). exact H.
    + cbn [stable_gen] in Hs. apply andb_prop in Hs. destruct Hs as [Hs Hr]. apply andb_prop in Hs. destruct Hs as [Hps Hpe].
      rewrite (has_ok s ps f Hps Hf), (has_ok e pe l Hpe Hl).
      apply negb_true_iff in Hr. cbn [andb] in Hr. apply (proj1 (enc_tree_piece cap s e root w Hr)). exact H.
  - intros [x [Hx H]]. inversion Hx; subst. apply flatmatch_single in H.
    destruct l0; cbn [enc_tok enc_leaf leaf_piece] in *.
    + exact H.
    + exact H.
    + apply (class_sem orbit cap s e neg a w Hwf). exact H.
    + apply (one_sem orbit cap s e w). exact H.
    + apply (zom_sem orbit cap s e lazy w). exact H.
    + cbn [stable_gen] in Hs. apply andb_prop in Hs. destruct Hs as [Hs Hr]. apply andb_prop in Hs. destruct Hs as [Hps Hpe].
      rewrite (has_ok s ps f Hps Hf), (has_ok e pe l Hpe Hl) in H.
      apply negb_true_iff in Hr. cbn [andb] in Hr. apply (proj2 (enc_tree_piece cap s e root w Hr)). exact H.
Qed.

Lemma agrees_alt : forall sp bs, wf_tok (TAlt sp bs) = true -> Forall agrees bs -> agrees (TAlt sp bs).
Proof.
  intros sp bs Hwf IH cap s ps e pe f l w Hs Hf Hl.
  cbn [wf_tok] in Hwf. apply andb_prop in Hwf. destruct Hwf as [Hne _].
  cbn [enc_tok stable_gen] in *. unfold grp. cbn [Regex.sem].
  rewrite sem_ralt_list by (destruct bs; [discriminate|discriminate]).
  rewrite forallb_forall in Hs. rewrite Forall_forall in IH. split.
  - intros [r [Hin Hr]]. apply in_map_iff in Hin. destruct Hin as [b [<- Hin]]. cbn [Regex.sem] in Hr.
    apply (IH b Hin false s ps e pe f l w (Hs b Hin) Hf Hl) in Hr. destruct Hr as [x [Hx Hm]].
    exists x. split; [econstructor; eassumption|exact Hm].
  - intros [x [Hx Hm]]. inversion Hx; subst.
    match goal with Hin : In ?b bs, Hb : Expands ?b x |- _ =>
      exists (RGroup false (enc_tok false b s e)); split; [apply in_map_iff; exists b; split; [reflexivity|exact Hin]|];
      cbn [Regex.sem]; apply (IH b Hin false s ps e pe f l w (Hs b Hin) Hf Hl); exists x; split; assumption
    end.
Qed.

Lemma norm_bounds_ordered : forall lo hi,
  (match hi with Some h => lo <=? h | None => true end) = true -> norm_bounds lo hi = (lo, hi).
Proof.
  intros lo [h|] H; [|reflexivity]. unfold norm_bounds. apply N.leb_le in H.
  destruct (N.ltb_spec h lo); [lia|reflexivity].
Qed.

Lemma has_add_f_false : forall p, has (poss_add_f p) false = true.
Proof. reflexivity. Qed.
Lemma has_add_f : forall p b, has p b = true -> has (poss_add_f p) b = true.
Proof. intros p [] H; [exact H|reflexivity]. Qed.

Lemma agrees_rep : forall sp b lo hi, wf_tok (TRep sp b lo hi) = true -> agrees b -> agrees (TRep sp b lo hi).
Proof.
  intros sp b lo hi Hwf IHb cap s ps e pe f l w Hs Hf Hl.
  cbn [wf_tok] in Hwf. apply andb_prop in Hwf. destruct Hwf as [Hwb Hord].
  cbn [enc_tok]. rewrite (norm_bounds_ordered lo hi Hord). unfold grp. cbn [Regex.sem].
  cbn [stable_gen] in Hs.
  remember (if can_repeat hi then poss_add_f ps else ps) as ps' eqn:Eps.
  remember (if can_repeat hi then poss_add_f pe else pe) as pe' eqn:Epe.
  set (r := enc_tok false b s e).
  assert (Hbody : forall f' l' w', has ps' f' = true -> has pe' l' = true ->
                    (sem r w' <-> exists x, Expands b x /\ FlatMatch f' l' x w')).
  { intros f' l' w' H1 H2. apply (IHb false s ps' e pe' f' l' w' Hs H1 H2). }
  assert (Hf' : has ps' f = true) by (subst ps'; destruct (can_repeat hi); [apply has_add_f|]; exact Hf).
  assert (Hl' : has pe' l = true) by (subst pe'; destruct (can_repeat hi); [apply has_add_f|]; exact Hl).
  assert (Hconv : forall x f1 f2 l1 l2 w', Expands b x -> has ps' f1 = true -> has ps' f2 = true ->
                    has pe' l1 = true -> has pe' l2 = true -> FlatMatch f1 l1 x w' -> FlatMatch f2 l2 x w').
  { intros x f1 f2 l1 l2 w' Hx. apply (convert_tok b s ps' e pe' x f1 f2 l1 l2 w' Hs Hx). }
  (* from pieces to iterations *)
  assert (Back : forall xs f0 l0 w0, (can_repeat hi = true \/ (length xs <= 1)%nat) ->
                   has ps' f0 = true -> has pe' l0 = true -> Forall (Expands b) xs ->
                   FlatMatch f0 l0 (concat xs) w0 -> iter_sem (sem (RGroup false r)) (length xs) w0).
  { induction xs as [|x xs' IHxs]; intros f0 l0 w0 Hc H1 H2 HF Hm.
    - cbn [concat] in Hm. apply flatmatch_nil in Hm. subst. constructor.
    - cbn [concat] in Hm. apply flatmatch_app in Hm. destruct Hm as [u [v [-> [Hu Hv]]]].
      inversion HF as [|? ? Hx HF']; subst. cbn [length]. constructor.
      + cbn [Regex.sem]. apply (Hbody f0 (l0 && is_nil (concat xs')) u H1).
        * destruct Hc as [Hc|Hc].
          -- destruct (l0 && is_nil (concat xs')) eqn:E; [apply andb_prop in E; destruct E as [-> _]; exact H2|].
             rewrite Hc. reflexivity.
          -- destruct xs'; [cbn; rewrite andb_true_r; exact H2|cbn [length] in Hc; lia].
        * exists x. split; assumption.
      + destruct xs' as [|x' xs''].
        * cbn [concat] in Hv. apply flatmatch_nil in Hv. subst. constructor.
        * destruct Hc as [Hc|Hc]; [|cbn [length] in Hc; lia].
          apply (IHxs (f0 && is_nil x) l0 v (or_introl Hc)); try assumption.
          destruct (f0 && is_nil x) eqn:E; [apply andb_prop in E; destruct E as [-> _]; exact H1|].
          rewrite Hc. reflexivity. }
  split.
  - intros [k [Hk Hit]].
    destruct (can_repeat hi) eqn:Ea.
    + assert (G : forall k0 w0, iter_sem (sem (RGroup false r)) k0 w0 ->
                    exists xs, length xs = k0 /\ Forall (Expands b) xs /\
                      forall f0 l0, has ps' f0 = true -> has pe' l0 = true -> FlatMatch f0 l0 (concat xs) w0).
      { intros k0 w0 H. induction H as [|n u v Hu _ IHit].
        - exists []. split; [reflexivity|]. split; [constructor|]. intros. constructor.
        - destruct IHit as [xs' [Hlen [HF Hall]]]. cbn [Regex.sem] in Hu.
          assert (Hff : has ps' false = true) by (subst ps'; reflexivity).
          assert (Hlf : has pe' false = true) by (subst pe'; reflexivity).
          apply (Hbody false false u Hff Hlf) in Hu. destruct Hu as [x1 [Hx1 Hm1]].
          exists (x1 :: xs'). split; [cbn [length]; rewrite Hlen; reflexivity|]. split; [constructor; assumption|].
          intros f0 l0 H1 H2. cbn [concat]. apply flatmatch_app. exists u, v. split; [reflexivity|]. split.
          + apply (Hconv x1 false f0 false (l0 && is_nil (concat xs')) u Hx1 Hff H1 Hlf); [|exact Hm1].
            destruct (l0 && is_nil (concat xs')) eqn:E; [apply andb_prop in E; destruct E as [-> _]; exact H2|exact Hlf].
          + apply Hall; [|exact H2].
            destruct (f0 && is_nil x1) eqn:E; [apply andb_prop in E; destruct E as [-> _]; exact H1|exact Hff]. }
      destruct (G k w Hit) as [xs [Hlen [HF Hall]]].
      exists (concat xs). split; [|apply Hall; assumption].
      constructor; [rewrite Hlen; exact Hk|exact HF].
    + (* at most one iteration *)
      assert (Hk1 : (k <= 1)%nat).
      { destruct hi as [h|]; [|discriminate]. cbn [can_repeat] in Ea. apply N.leb_gt in Ea.
        destruct Hk as [_ Hk]. lia. }
      destruct k as [|[|k']]; [| |lia].
      * inversion Hit; subst. exists (concat []). split; [constructor; [exact Hk|constructor]|constructor].
      * inversion Hit as [|n u v Hu Hrest]; subst. inversion Hrest; subst. cbn [Regex.sem] in Hu.
        apply (Hbody f l u Hf' Hl') in Hu. destruct Hu as [x1 [Hx1 Hm1]].
        exists (concat [x1]). split; [constructor; [exact Hk|constructor; [exact Hx1|constructor]]|].
        cbn [concat]. rewrite !app_nil_r. exact Hm1.
  - intros [x [Hx Hm]]. inversion Hx; subst.
    match goal with Hb : in_bounds (length ?xs) lo hi, HF : Forall (Expands b) ?xs |- _ =>
      exists (length xs); split; [exact Hb|];
      apply (Back xs f l w); try assumption;
      destruct (can_repeat hi) eqn:Ea; [left; reflexivity|right];
      destruct hi as [h|]; [|discriminate]; cbn [can_repeat] in Ea; apply N.leb_gt in Ea; destruct Hb as [_ Hb]; lia
    end.
Qed.

(* ---- concatenations ----------------------------------------------------------------------------------------------------- *)
Definition ps_at (ps : poss) (first pre : bool) : poss := if first then ps else mkPoss (can_t ps && pre) true.

Lemma agrees_cat_aux : forall cap s ps e pe ts,
  Forall agrees ts ->
  forall first pre f l w,
    stable_cat (stable_gen true) s ps e pe ts first pre = true ->
    (first = true -> pre = true) ->
    has (ps_at ps first pre) f = true -> has pe l = true ->
    (sem (seq_edges_aux first (map (enc_tok cap) ts) s e) w <->
     exists xs, Forall2 Expands ts xs /\ FlatMatch f l (concat xs) w).
Proof.
  intros cap s ps e pe ts IH. induction IH as [|t0 ts' IH0 _ IHts]; intros first pre f l w Hs Hinv Hf Hl.
  - cbn [map seq_edges_aux Regex.sem]. split.
    + intros ->. exists []. split; constructor.
    + intros [xs [HF Hm]]. inversion HF; subst. cbn [concat] in Hm. apply flatmatch_nil in Hm. exact Hm.
  - cbn [stable_cat] in Hs. apply andb_prop in Hs. destruct Hs as [Hs0 Hs'].
    fold (ps_at ps first pre) in Hs0.
    (* a true "first" flag makes the prefix condition of what follows hold *)
    assert (Hpre : f = true -> can_t ps = true /\ pre = true).
    { intros ->. unfold ps_at, has in Hf. destruct first.
      - split; [exact Hf|apply Hinv; reflexivity].
      - cbn [can_t] in Hf. apply andb_prop in Hf. exact Hf. }
    destruct ts' as [|t1 ts''].
    + (* the last element *)
      cbn [map seq_edges_aux]. cbn [is_nil] in Hs0. rewrite andb_true_r in Hs0.
      rewrite (IH0 cap (s && first) (ps_at ps first pre) e pe f l w Hs0 Hf Hl). split.
      * intros [x0 [Hx0 Hm]]. exists [x0]. split; [constructor; [exact Hx0|constructor]|]. cbn [concat]. rewrite app_nil_r. exact Hm.
      * intros [xs [HF Hm]]. inversion HF as [|? x0 ? xs' Hx0 HF']; subst. inversion HF'; subst.
        cbn [concat] in Hm. rewrite app_nil_r in Hm. exists x0. split; assumption.
    + (* an element that is followed by others *)
      change (map (enc_tok cap) (t0 :: t1 :: ts'')) with (enc_tok cap t0 :: map (enc_tok cap) (t1 :: ts'')).
      change (seq_edges_aux first (enc_tok cap t0 :: map (enc_tok cap) (t1 :: ts'')) s e)
        with (RCat (enc_tok cap t0 (s && first) false) (seq_edges_aux false (map (enc_tok cap) (t1 :: ts'')) s e)).
      cbn [Regex.sem]. cbn [is_nil] in Hs0. rewrite andb_false_r in Hs0.
      set (pe0 := {| can_t := can_t pe && forallb fnull (t1 :: ts''); can_f := true |}) in *.
      assert (Hl0 : forall xs', Forall2 Expands (t1 :: ts'') xs' -> has pe0 (l && is_nil (concat xs')) = true).
      { intros xs' HF'. destruct (l && is_nil (concat xs')) eqn:E; [|reflexivity].
        apply andb_prop in E. destruct E as [-> E]. unfold has, pe0. cbn [can_t].
        assert (Hc : concat xs' = []) by (destruct (concat xs'); [reflexivity|discriminate]).
        rewrite (forall2_concat_nil _ _ HF' Hc). unfold has in Hl. rewrite Hl. reflexivity. }
      assert (Hf' : forall x0, Expands t0 x0 -> has (ps_at ps false (pre && fnull t0)) (f && is_nil x0) = true).
      { intros x0 Hx0. destruct (f && is_nil x0) eqn:E; [|reflexivity].
        apply andb_prop in E. destruct E as [-> E]. destruct (Hpre eq_refl) as [Ht ->].
        destruct x0; [|discriminate]. unfold has, ps_at. cbn [can_t]. rewrite Ht, (expands_nil_fnull t0 Hx0). reflexivity. }
      split.
      * intros [u [v [-> [Hu Hv]]]].
        apply (IHts false (pre && fnull t0) false l v Hs') in Hv; [|discriminate|reflexivity|exact Hl].
        destruct Hv as [xs' [HF' Hm']].
        apply (IH0 cap (s && first) (ps_at ps first pre) false pe0 f (l && is_nil (concat xs')) u Hs0 Hf (Hl0 xs' HF')) in Hu.
        destruct Hu as [x0 [Hx0 Hm0]].
        exists (x0 :: xs'). split; [constructor; assumption|]. cbn [concat]. apply flatmatch_app.
        exists u, v. split; [reflexivity|]. split; [exact Hm0|].
        eapply convert_first; [|exact Hm'].
        intros Hn. destruct (f && is_nil x0) eqn:E; [|congruence].
        apply andb_prop in E. destruct E as [-> E]. destruct (Hpre eq_refl) as [Ht Hp]. destruct x0; [|discriminate].
        eapply (stable_cat_head true s ps e pe (t1 :: ts'') xs' false (pre && fnull t0) Hs' Ht); [|discriminate|exact HF'].
        rewrite Hp, (expands_nil_fnull t0 Hx0). reflexivity.
      * intros [xs [HF Hm]]. inversion HF as [|? x0 ? xs' Hx0 HF']; subst.
        cbn [concat] in Hm. apply flatmatch_app in Hm. destruct Hm as [u [v [-> [Hu Hv]]]].
        exists u, v. split; [reflexivity|]. split.
        -- apply (IH0 cap (s && first) (ps_at ps first pre) false pe0 f (l && is_nil (concat xs')) u Hs0 Hf (Hl0 xs' HF')).
           exists x0. split; assumption.
        -- apply (IHts false (pre && fnull t0) (f && is_nil x0) l v Hs'); [discriminate|exact (Hf' x0 Hx0)|exact Hl|].
           exists xs'. split; assumption.
Qed.

Lemma agrees_cat : forall sp ts, Forall agrees ts -> agrees (TCat sp ts).
Proof.
  intros sp ts IH cap s ps e pe f l w Hs Hf Hl. rewrite stable_gen_cat in Hs.
  cbn [enc_tok]. unfold seq_edges.
  rewrite (agrees_cat_aux cap s ps e pe ts IH true true f l w Hs (fun _ => eq_refl) Hf Hl). split.
  - intros [xs [HF Hm]]. exists (concat xs). split; [constructor; exact HF|exact Hm].
  - intros [x [Hx Hm]]. inversion Hx; subst. eexists. split; eassumption.
Qed.

(* ---- C01: the encoder agrees with the documented language ------------------------------------------------------------------ *)
Theorem encode_agrees : forall t, wf_tok t = true -> agrees t.
Proof.
  induction t as [sp l0|sp bs IH|sp ts IH|sp b lo hi IH] using tok_ind'; intros Hwf.
  - apply agrees_leaf. exact Hwf.
  - apply agrees_alt; [exact Hwf|]. cbn [wf_tok] in Hwf. apply andb_prop in Hwf. destruct Hwf as [_ Hall].
    rewrite forallb_forall in Hall. rewrite Forall_forall in *. intros b Hin. apply IH; [exact Hin|apply Hall; exact Hin].
  - apply agrees_cat. cbn [wf_tok] in Hwf. rewrite forallb_forall in Hwf. rewrite Forall_forall in *.
    intros t Hin. apply IH; [exact Hin|apply Hwf; exact Hin].
  - apply agrees_rep; [exact Hwf|]. apply IH. cbn [wf_tok] in Hwf. apply andb_prop in Hwf. apply Hwf.
Qed.

Theorem conformance : forall t w,
  wf_tok t = true -> trees_exact t = true -> (sem (encode t) w <-> Lang orbit t w).
Proof.
  intros t w Hwf He. unfold encode, Lang.
  apply (encode_agrees t Hwf true true (poss_of true) true (poss_of true) true true w He); reflexivity.
Qed.

End EncodeLang.
