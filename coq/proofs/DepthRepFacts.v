(* DepthRepFacts.v -- C10 for patterns whose repetitions are written out at least once and have a body with a single depth term
   (`<a/:1,>b`, `<[0-9]:1,3>.txt`, `src/<*/:1,2>*.rs`), together with alternations, concatenations, leaves and tree wildcards.
   The summary of DepthAltFacts is generalised from exact counts to ranges: the separator count of a tree-free sequence lies in the
   variance of its term, a sequence with a tree wildcard has a term without upper bound, and the lower bound of every term is at
   most the number of runs.  Conjunction, product by the repetition range and the final disjunction preserve this. *)
From Coq Require Import Arith Lia.
From WaxModel Require Import Base Token Regex Spec Encode Variance Fold Rule.
From WaxProofs Require Import SpecFacts EncodeLang RuleFacts DepthFacts ExhaustFacts TextFacts PruneFacts DepthTreeFacts DepthAltFacts.
Local Open Scope N_scope.
Local Arguments N.add : simpl never.
Local Arguments N.mul : simpl never.
Local Arguments N.ltb : simpl never.

(* ---- the conjunction of two ranges -------------------------------------------------------------------------------------------------------------- *)
Definition up_add (a b : option N) : option N := match a, b with Some x, Some y => Some (x + y) | _, _ => None end.

Lemma tlu_within : forall l u r n, try_lower_upper l u = Some r -> (match u with Some x => l <= x | None => True end) ->
  within n l u -> in_variance n (Var (Bounded r)).
Proof.
  intros l u r n H Hlu [Hl Hu]. unfold try_lower_upper in H. destruct u as [u|].
  - destruct (N.eqb_spec l 0) as [->|Hl0]; destruct (N.eqb_spec u 0) as [->|Hu0]; cbn [andb] in H; try discriminate.
    + inversion H; subst. exact Hu.
    + lia.
    + destruct (N.ltb_spec l u); [|discriminate]. inversion H; subst. cbn [in_variance]. lia.
  - cbn [N.eqb] in H. rewrite andb_true_r in H. destruct (N.eqb_spec l 0); [discriminate|]. inversion H; subst. exact Hl.
Qed.

Lemma tlu_low : forall l u r, try_lower_upper l u = Some r -> lowN (Var (Bounded r)) = l \/ (l = 0 /\ lowN (Var (Bounded r)) = 0).
Proof.
  intros l u r H. unfold try_lower_upper in H. set (uu := match u with Some x => x | None => 0 end) in *.
  destruct (N.eqb_spec l 0) as [->|Hl0]; destruct (N.eqb_spec uu 0) as [E|Hu0]; cbn [andb] in H; try discriminate.
  - inversion H; subst. right. auto.
  - inversion H; subst. left. reflexivity.
  - destruct (N.ltb_spec l uu); [|discriminate]. inversion H; subst. left. reflexivity.
Qed.

Lemma tlu_up_none : forall l r, try_lower_upper l None = Some r -> upN (Var (Bounded r)) = None.
Proof.
  intros l r H. unfold try_lower_upper in H. cbn [N.eqb] in H. rewrite andb_true_r in H. destruct (l =? 0); [discriminate|]. inversion H; subst. reflexivity.
Qed.

Lemma bvr_upper_up : forall b u, bvr_upper b = Ok u -> upper_usize u = upN (Var (Bounded b)).
Proof. intros b u H. apply (upper_usize_nr (Var (Bounded b))). exact H. Qed.

Lemma low_le_up : forall v, match upN v with Some u => lowN v <= u | None => True end.
Proof. intros [x|[[k|k|l e]|]]; cbn; try exact I; lia. Qed.

(* membership, lower bounds and unboundedness under conjunction *)
Lemma conj_sound : forall a b c, nvar_conj a b = Ok c ->
  (forall x y, in_variance x a -> in_variance y b -> in_variance (x + y) c) /\
  lowN c <= lowN a + lowN b /\ (upN a = None \/ upN b = None -> upN c = None).
Proof.
  intros a b c H. destruct a as [i|[ba|]], b as [j|[bb|]]; cbn [nvar_conj rbind] in H.
  - destruct (cadd i j) as [s|] eqn:E; [|discriminate]. apply cadd_ok in E. inversion H; subst. cbn. split; [intros; lia|]. split; [lia|intros [|]; discriminate].
  - (* Inv + bounded: translation *)
    destruct (bvr_translation bb i) as [r|] eqn:E; [|discriminate]. inversion H; subst. destruct bb as [k|k|l e]; cbn [bvr_translation rbind] in E;
      match type of E with rbind (cadd ?p ?q) _ = _ => destruct (cadd p q) as [s|] eqn:Ec; [|discriminate]; apply cadd_ok in Ec; inversion E; subst end;
      cbn; (split; [intros; lia|]); (split; [lia|intros [|]; (discriminate || reflexivity)]).
  - inversion H; subst. unfold n_into_lower_bound. destruct (N.eqb_spec i 0) as [->|Hi]; cbn; (split; [intros; try exact I; lia|]); (split; [lia|auto]).
  - destruct (bvr_translation ba j) as [r|] eqn:E; [|discriminate]. inversion H; subst. destruct ba as [k|k|l e]; cbn [bvr_translation rbind] in E;
      match type of E with rbind (cadd ?p ?q) _ = _ => destruct (cadd p q) as [s|] eqn:Ec; [|discriminate]; apply cadd_ok in Ec; inversion E; subst end;
      cbn; (split; [intros; lia|]); (split; [lia|intros [|]; (discriminate || reflexivity)]).
  - (* bounded + bounded *)
    destruct (bvr_conj ba bb) as [r|] eqn:E; [|discriminate]. inversion H; subst. unfold bvr_conj in E.
    destruct (bvr_upper ba) as [au|] eqn:Ea; [|discriminate]. cbn [rbind] in E. destruct (bvr_upper bb) as [bu|] eqn:Eb; [|discriminate]. cbn [rbind] in E.
    pose proof (bvr_upper_up _ _ Ea) as Hua. pose proof (bvr_upper_up _ _ Eb) as Hub.
    assert (Hla : lower_usize (bvr_lower ba) = lowN (Var (Bounded ba))) by (apply (lower_usize_nr (Var (Bounded ba)))).
    assert (Hlb : lower_usize (bvr_lower bb) = lowN (Var (Bounded bb))) by (apply (lower_usize_nr (Var (Bounded bb)))).
    rewrite Hla, Hlb in E. destruct (cadd (lowN (Var (Bounded ba))) (lowN (Var (Bounded bb)))) as [lw|] eqn:El; [|discriminate]. cbn [rbind] in E. apply cadd_ok in El.
    rewrite Hua, Hub in E.
    assert (Hup : exists up, (match upN (Var (Bounded ba)), upN (Var (Bounded bb)) with Some x, Some y => do z <- cadd x y; Ok (Some z) | _, _ => Ok None end) = Ok up /\
                   up = up_add (upN (Var (Bounded ba))) (upN (Var (Bounded bb)))).
    { destruct (upN (Var (Bounded ba))) as [x|], (upN (Var (Bounded bb))) as [y|]; try (eexists; split; reflexivity).
      destruct (cadd x y) as [z|] eqn:Ez; [|cbn in E; discriminate]. apply cadd_ok in Ez. subst z. eexists. split; reflexivity. }
    destruct Hup as [up [Hup1 Hup2]]. rewrite Hup1 in E. cbn [rbind] in E. destruct (try_lower_upper lw up) as [r0|] eqn:Et; [|discriminate]. inversion E; subst r0.
    pose proof (low_le_up (Var (Bounded ba))) as La. pose proof (low_le_up (Var (Bounded bb))) as Lb.
    split; [|split].
    + intros x y Hx Hy. apply in_variance_within in Hx, Hy. destruct Hx as [Hx1 Hx2], Hy as [Hy1 Hy2]. apply (tlu_within _ _ _ _ Et).
      * subst up lw. destruct (upN (Var (Bounded ba))), (upN (Var (Bounded bb))); cbn [up_add]; try exact I; lia.
      * split; [lia|]. subst up. destruct (upN (Var (Bounded ba))), (upN (Var (Bounded bb))); cbn [up_add]; try exact I; lia.
    + destruct (tlu_low _ _ _ Et) as [->|[_ ->]]; lia.
    + intros Hn. assert (up = None) by (subst up; destruct Hn as [-> | ->]; [reflexivity|destruct (upN (Var (Bounded ba))); reflexivity]). subst up. rewrite H0 in Et. apply (tlu_up_none _ _ Et).
  - inversion H; subst. destruct ba as [k|k|l e]; cbn; (split; [intros; try exact I; lia|]); (split; [lia|auto]).
  - inversion H; subst. unfold n_into_lower_bound. destruct (N.eqb_spec j 0) as [->|Hj]; cbn; (split; [intros; try exact I; lia|]); (split; [lia|auto]).
  - inversion H; subst. destruct bb as [k|k|l e]; cbn; (split; [intros; try exact I; lia|]); (split; [lia|auto]).
  - inversion H; subst. cbn. split; [intros; exact I|]. split; [lia|auto].
Qed.

Lemma fin_sound : forall T v f, sterm_finalize (T, v) = Ok f ->
  (upN v = None -> upN f = None) /\
  lowN f <= (match T with TOpen => lowN v + 1 | _ => lowN v end) /\
  (forall n, in_variance n v -> match T with
                                | TOpen => in_variance (n + 1) f
                                | TClosed => match v with Inv _ => in_variance (N.pred n) f | _ => in_variance n f end
                                | _ => in_variance n f end).
Proof.
  intros T v f H. unfold sterm_finalize in H. cbn [fst snd] in H. destruct T.
  - destruct (conj_sound _ _ _ H) as [M [L U]]. split; [intros Hn; apply U; left; exact Hn|]. split; [cbn in L; exact L|]. intros n Hn. apply M; [exact Hn|reflexivity].
  - inversion H; subst. split; [auto|]. split; [lia|auto].
  - inversion H; subst. split; [auto|]. split; [lia|auto].
  - inversion H; subst. destruct v as [m|b]; cbn.
    + split; [discriminate|]. split; [lia|]. intros n ->. reflexivity.
    + split; [auto|]. split; [lia|auto].
  - inversion H; subst. split; [auto|]. split; [lia|auto].
Qed.

(* ---- the generalised summary ---------------------------------------------------------------------------------------------------------------------- *)
Definition bound2 (T : termination) (v : nvar) (x : list leaf) : Prop :=
  match T with TOpen => lowN v + 1 <= runs false x | TClosed => lowN v <= runs false x + 1 | _ => lowN v <= runs false x end.

Definition K2 (s : sterm) (x : list leaf) : Prop :=
  x <> [] /\ (trees x = false -> in_variance (nsep x) (snd s)) /\ (trees x = true -> upN (snd s) = None) /\
  flags (fst s) x /\ bound2 (fst s) (snd s) x.

Lemma K2_leaf : forall l, K2 (sterm_of l) [l].
Proof.
  intros l. unfold K2, flags, bound2, trees, lb. split; [discriminate|].
  destruct l; cbn; repeat split; try discriminate; try reflexivity; try lia; intros; try discriminate; exact I.
Qed.

Lemma K2_conj : forall s1 s2 s x1 x2, K2 s1 x1 -> K2 s2 x2 -> lb x1 && fb x2 = false -> sterm_conj s1 s2 = Ok s -> K2 s (x1 ++ x2).
Proof.
  intros [T1 v1] [T2 v2] [T v] x1 x2 [N1 [I1 [V1 [F1 B1]]]] [N2 [I2 [V2 [F2 B2]]]] Hj H.
  cbn [fst snd] in *. unfold K2. cbn [fst snd].
  assert (Hne : x1 ++ x2 <> []) by (destruct x1; [congruence|discriminate]).
  unfold flags. rewrite (single_tree_app x1 x2 N1 N2), (fb_app x1 x2 N1), (lb_app x1 x2 N2), trees_app, nsep_app.
  assert (Hr : runs false (x1 ++ x2) = runs false x1 + runs false x2 - (if negb (lb x1) && negb (fb x2) then 1 else 0)).
  { rewrite (runs_app x1 x2 false N1). destruct (lb x1); cbn [negb andb]; [lia|]. rewrite (runs_flag x2).
    destruct x2; [congruence|]. cbn [is_nil negb andb]. destruct (negb (fb (l :: x2))); lia. }
  unfold bound2 in *. rewrite Hr. clear Hr.
  destruct (flags_cases _ _ N1 F1) as [[-> [Hf1 [Hl1 [Hr1 Ht1]]]] | -> ]; destruct (flags_cases _ _ N2 F2) as [[-> [Hf2 [Hl2 [Hr2 Ht2]]]] | -> ];
    rewrite ?Hf1, ?Hl1, ?Hr1, ?Ht1, ?Hf2, ?Hl2, ?Hr2, ?Ht2 in *; cbn [andb negb orb] in *; try discriminate.
  - (* tree, then a sequence that begins with a run *)
    rewrite Hj in *. unfold sterm_conj in H. cbn [fst snd] in H. specialize (V1 eq_refl).
    destruct (lb x2); cbn [term_of_flags term_conj] in *; step_conj H; step_conj H; inversion H; subst;
      destruct (fin_sound _ _ _ E) as [G1 [G2 G3]]; destruct (conj_sound _ _ _ E0) as [C1 [C2 C3]];
      (split; [exact Hne|]); (split; [discriminate|]); (split; [intros _; apply C3; left; exact V1|]); (split; [reflexivity|]); lia.
  - (* a sequence that ends with a run, then a tree *)
    assert (Hl1 : lb x1 = false) by (destruct (lb x1); [discriminate|reflexivity]). rewrite Hl1 in *.
    unfold sterm_conj in H. cbn [fst snd] in H. specialize (V2 eq_refl). rewrite orb_true_r.
    destruct (fb x1); cbn [term_of_flags term_conj] in *; step_conj H; step_conj H; inversion H; subst;
      destruct (fin_sound _ _ _ E) as [G1 [G2 G3]]; destruct (conj_sound _ _ _ E0) as [C1 [C2 C3]];
      (split; [exact Hne|]); (split; [discriminate|]); (split; [intros _; apply C3; right; exact V2|]); (split; [reflexivity|]); cbn [negb andb] in *; lia.
  - (* neither is a lone tree *)
    unfold sterm_conj in H. cbn [fst snd] in H. rewrite term_conj_flags in H. step_conj H. inversion H; subst.
    destruct (conj_sound _ _ _ E) as [C1 [C2 C3]].
    split; [exact Hne|]. split; [|split; [|split; [reflexivity|]]].
    + intros Ht. apply orb_false_iff in Ht. destruct Ht as [Ht1 Ht2]. apply C1; [apply I1; exact Ht1|apply I2; exact Ht2].
    + intros Ht. apply C3. apply orb_true_iff in Ht. destruct Ht as [Ht|Ht]; [left; apply V1|right; apply V2]; exact Ht.
    + destruct (fb x1), (lb x1), (fb x2), (lb x2); cbn [term_of_flags andb negb] in *; try discriminate; lia.
Qed.

(* ---- the product by the range of a repetition ------------------------------------------------------------------------------------------------------ *)
Definition up_mul (a b : option N) : option N := match a, b with Some x, Some y => Some (x * y) | _, _ => None end.

Lemma cmul_ok : forall a b c, cmul a b = Ok c -> c = a * b.
Proof. intros a b c H. unfold cmul in H. destruct (a * b <? usize_max1); inversion H; reflexivity. Qed.

Lemma fco_low_up : forall l u, lowN (from_closed_open l u) <= l /\ (u = None -> upN (from_closed_open l u) = None).
Proof.
  intros l u. unfold from_closed_open. destruct u as [u|].
  - split; [|discriminate]. destruct (N.ltb_spec u l).
    + destruct u as [|pu] eqn:Eu; rewrite <- ?Eu in *.
      * subst u. destruct (try_lower_upper 0 (Some l)) as [r|] eqn:Et; [destruct (tlu_low _ _ _ Et) as [->|[_ ->]]; lia|cbn; lia].
      * destruct (try_lower_upper u (Some l)) as [r|] eqn:Et; [destruct (tlu_low _ _ _ Et) as [->|[_ ->]]; lia|cbn; lia].
    + destruct l as [|pl] eqn:El; rewrite <- ?El in *.
      * subst l. destruct (try_lower_upper 0 (Some u)) as [r|] eqn:Et; [destruct (tlu_low _ _ _ Et) as [->|[_ ->]]; lia|cbn; lia].
      * destruct (try_lower_upper l (Some u)) as [r|] eqn:Et; [destruct (tlu_low _ _ _ Et) as [->|[_ ->]]; lia|cbn; lia].
  - destruct l as [|pl] eqn:El; rewrite <- ?El in *; [cbn; split; [lia|reflexivity]|].
    destruct (try_lower_upper l None) as [r|] eqn:Et.
    + split; [destruct (tlu_low _ _ _ Et) as [->|[_ ->]]; lia|]. intros _. apply (tlu_up_none _ _ Et).
    + unfold try_lower_upper in Et. cbn [N.eqb] in Et. rewrite andb_true_r in Et. destruct (N.eqb_spec l 0); [lia|discriminate].
Qed.

Lemma nb_product_low : forall a b c, nb_product a b = Ok c -> lower_usize c = lower_usize a * lower_usize b.
Proof.
  intros [| |x] [| |y] c H; cbn [nb_product] in H; try (inversion H; subst; cbn; lia).
  destruct (cmul x y) as [z|] eqn:E; [|discriminate]. apply cmul_ok in E. inversion H; subst. reflexivity.
Qed.

Lemma nb_product_up : forall a b c, nb_product a b = Ok c -> upper_usize c = up_mul (upper_usize a) (upper_usize b).
Proof.
  intros [| |x] [| |y] c H; cbn [nb_product] in H; try (inversion H; subst; cbn; try reflexivity; f_equal; lia).
  destruct (cmul x y) as [z|] eqn:E; [|discriminate]. apply cmul_ok in E. inversion H; subst. reflexivity.
Qed.

Lemma by_bound_sound : forall l r c, by_bound_product l r = Ok c ->
  (forall x, within x (lowN l * lowN r) (up_mul (upN l) (upN r)) -> in_variance x c) /\
  lowN c <= lowN l * lowN r /\ (upN l = None \/ upN r = None -> upN c = None).
Proof.
  intros l r c H. unfold by_bound_product in H.
  destruct (nr_upper l) as [lu|] eqn:El; [|discriminate]. cbn [rbind] in H. destruct (nr_upper r) as [ru|] eqn:Er; [|discriminate]. cbn [rbind] in H.
  destruct (nb_product (nr_lower l) (nr_lower r)) as [lw|] eqn:Elw; [|discriminate]. cbn [rbind] in H.
  destruct (nb_product lu ru) as [up|] eqn:Eup; [|discriminate]. cbn [rbind] in H. inversion H; subst c.
  rewrite (nb_product_low _ _ _ Elw), (nb_product_up _ _ _ Eup), !lower_usize_nr, (upper_usize_nr _ _ El), (upper_usize_nr _ _ Er).
  split; [intros x Hx; apply fco_within; exact Hx|]. destruct (fco_low_up (lowN l * lowN r) (up_mul (upN l) (upN r))) as [F1 F2].
  split; [exact F1|]. intros Hn. apply F2. destruct Hn as [-> | ->]; [reflexivity|destruct (upN l); reflexivity].
Qed.

Fixpoint sumN (l : list N) : N := match l with [] => 0 | a :: r => a + sumN r end.

Lemma sum_within : forall (l : list N) L U, Forall (fun a => within a L U) l ->
  N.of_nat (length l) * L <= sumN l /\ match U with Some u => sumN l <= N.of_nat (length l) * u | None => True end.
Proof.
  induction l as [|a l IH]; intros L U H; [cbn; destruct U; lia|]. inversion H as [|? ? [Ha1 Ha2] H']; subst. destruct (IH L U H') as [I1 I2].
  cbn [length sumN]. rewrite Nat2N.inj_succ. split; [lia|]. destruct U as [u|]; [lia|exact I].
Qed.

Lemma product_sound : forall v r c, nvar_product v r = Ok c ->
  (forall l, Forall (fun a => in_variance a v) l -> in_variance (N.of_nat (length l)) r -> in_variance (sumN l) c) /\
  lowN c <= lowN v * lowN r /\ (upN v = None -> 1 <= lowN r -> upN c = None).
Proof.
  intros v r c H.
  assert (Gen : forall c', by_bound_product v r = Ok c' ->
    (forall l, Forall (fun a => in_variance a v) l -> in_variance (N.of_nat (length l)) r -> in_variance (sumN l) c') /\
    lowN c' <= lowN v * lowN r /\ (upN v = None -> 1 <= lowN r -> upN c' = None)).
  { intros c' Hc. destruct (by_bound_sound _ _ _ Hc) as [B1 [B2 B3]]. split; [|split; [exact B2|intros Hn _; apply B3; left; exact Hn]].
    intros l Hl Hn. apply B1. apply in_variance_within in Hn. destruct Hn as [Hn1 Hn2].
    assert (Hl' : Forall (fun a => within a (lowN v) (upN v)) l) by (eapply Forall_impl; [|exact Hl]; intros a Ha; apply in_variance_within; exact Ha).
    destruct (sum_within _ _ _ Hl') as [S1 S2]. pose proof (low_le_up v) as Lv. split; [nia|].
    destruct (upN v) as [uv|], (upN r) as [ur|]; cbn [up_mul]; try exact I. nia. }
  destruct v as [a|[bv|]], r as [n|[br|]]; cbn [nvar_product] in H.
  - (* Inv * Inv *) destruct (cmul a n) as [z|] eqn:E; [|discriminate]. apply cmul_ok in E. inversion H; subst. cbn. split; [|split; [lia|discriminate]].
    intros l Hl Hn. cbn in Hn. cbn [in_variance]. rewrite <- Hn. clear Hn. induction Hl as [|x l Hx _ IH]; [cbn; lia|]. cbn [sumN length]. cbn in Hx. rewrite Nat2N.inj_succ. lia.
  - (* Inv * bounded *) destruct (N.eqb_spec a 0) as [->|Ha].
    + inversion H; subst. cbn. split; [|split; [lia|discriminate]]. intros l Hl _. induction Hl as [|x l Hx _ IH]; [reflexivity|]. cbn [sumN]. cbn in Hx. lia.
    + unfold bvr_product_nz in H. destruct (by_bound_product (Var (Bounded br)) (Inv a)) as [c'|] eqn:E; [|discriminate]. cbn [rbind] in H.
      destruct c' as [m|[b0|]]; try discriminate. inversion H; subst.
      destruct (by_bound_sound _ _ _ E) as [B1 [B2 B3]]. split; [|split; [change (lowN (Inv a)) with a in B2; rewrite N.mul_comm; exact B2|discriminate]].
      intros l Hl Hn. apply B1. apply in_variance_within in Hn. destruct Hn as [Hn1 Hn2].
      assert (Hs : sumN l = N.of_nat (length l) * a) by (clear - Hl; induction Hl as [|x l Hx _ IH]; [reflexivity|]; cbn [sumN length]; cbn in Hx; rewrite Nat2N.inj_succ; lia).
      rewrite Hs. change (lowN (Inv a)) with a in *. change (upN (Inv a)) with (Some a) in *.
      remember (lowN (Var (Bounded br))) as Lr. remember (upN (Var (Bounded br))) as Ur. split; [nia|]. destruct Ur as [ur|]; cbn [up_mul]; [nia|exact I].
  - (* Inv * unbounded *) destruct (N.eqb_spec a 0) as [->|Ha]; inversion H; subst; cbn.
    + split; [|split; [lia|discriminate]]. intros l Hl _. induction Hl as [|x l Hx _ IH]; [reflexivity|]. cbn [sumN]. cbn in Hx. lia.
    + split; [intros; exact I|]. split; [lia|discriminate].
  - (* bounded * Inv *) destruct (N.eqb_spec n 0) as [->|Hn0].
    + inversion H; subst. cbn. split; [|split; [lia|intros _ Hl; cbn in Hl; lia]]. intros l Hl Hn. cbn in Hn. destruct l; [reflexivity|cbn in Hn; lia].
    + unfold bvr_product_nz in H. destruct (by_bound_product (Var (Bounded bv)) (Inv n)) as [c'|] eqn:E; [|discriminate]. cbn [rbind] in H.
      destruct c' as [m|[b0|]]; try discriminate. inversion H; subst. exact (Gen _ eq_refl).
  - (* bounded * bounded *) unfold bvr_product in H. destruct (by_bound_product (Var (Bounded bv)) (Var (Bounded br))) as [c'|] eqn:E; [|discriminate]. cbn [rbind] in H.
    destruct c' as [m|v0]; try discriminate. inversion H; subst. exact (Gen _ eq_refl).
  - inversion H; subst. cbn. split; [intros; exact I|]. split; [lia|reflexivity].
  - (* unbounded * Inv *) destruct (N.eqb_spec n 0) as [->|Hn0]; inversion H; subst; cbn.
    + split; [|split; [lia|intros _ Hl; lia]]. intros l Hl Hn. destruct l; [reflexivity|cbn in Hn; lia].
    + split; [intros; exact I|]. split; [lia|reflexivity].
  - inversion H; subst. cbn. split; [intros; exact I|]. split; [lia|reflexivity].
  - inversion H; subst. cbn. split; [intros; exact I|]. split; [lia|reflexivity].
Qed.

(* ---- a repetition written out at least once, every iteration summarised by the same term ------------------------------------------------------------- *)
Lemma term_of_flags_inj : forall a b a' b', term_of_flags a b = term_of_flags a' b' -> a = a' /\ b = b'.
Proof. intros [] [] [] [] H; try discriminate; auto. Qed.

Lemma flags_noncoal : forall T x, x <> [] -> flags T x -> T <> TCoalescent -> T = term_of_flags (fb x) (lb x).
Proof. intros T x Hx H Hn. destruct (flags_cases _ _ Hx H) as [[-> _]|H1]; [congruence|exact H1]. Qed.

Lemma rep_runs : forall T v xs, xs <> [] -> Forall (K2 (T, v)) xs -> chain_ok false (concat xs) = true ->
  concat xs <> [] /\ flags T (concat xs) /\
  match T with
  | TOpen => N.of_nat (length xs) * lowN v + 1 <= runs false (concat xs)
  | TFirst | TLast => N.of_nat (length xs) * lowN v <= runs false (concat xs)
  | _ => length xs = 1%nat
  end.
Proof.
  intros T v. induction xs as [|x xs IH]; intros Hne HK Hc; [congruence|]. inversion HK as [|? ? Kx HK']; subst.
  destruct Kx as [Nx [Ix [Vx [Fx Bx]]]]. cbn [fst snd] in *. destruct xs as [|y ys].
  - cbn [concat]. rewrite app_nil_r in *. split; [exact Nx|]. split; [exact Fx|]. unfold bound2 in Bx. cbn [length]. destruct T; try reflexivity; lia.
  - remember (y :: ys) as rest eqn:Er. assert (Hrn : rest <> []) by (subst; discriminate). cbn [concat] in Hc |- *.
    destruct (chain_ok_app x (concat rest) false Hc Nx) as [Hcx Hcr].
    destruct (IH Hrn HK' (chain_ok_weaken _ _ Hcr)) as [NX [FX BX]].
    assert (Hj : lb x && fb (concat rest) = false) by (destruct (lb x) eqn:El; [cbn [andb]; apply chain_ok_junction; exact Hcr|reflexivity]).
    assert (Hne' : x ++ concat rest <> []) by (destruct x; [congruence|discriminate]).
    split; [exact Hne'|].
    destruct (flags_cases _ _ Nx Fx) as [[-> [Hf1 [Hl1 _]]]|HTx].
    { (* a lone tree wildcard cannot be repeated *)
      destruct (flags_cases _ _ NX FX) as [[_ [Hf2 _]]|HT2]; [rewrite Hl1, Hf2 in Hj; discriminate|destruct (fb (concat rest)), (lb (concat rest)); discriminate]. }
    destruct (flags_cases _ _ NX FX) as [[-> _]|HTX]; [destruct (fb x), (lb x); discriminate|].
    assert (Heq := HTx). rewrite HTX in Heq. apply term_of_flags_inj in Heq. destruct Heq as [Hfb Hlb].
    assert (Hr : runs false (x ++ concat rest) = runs false x + runs false (concat rest) - (if negb (lb x) && negb (fb (concat rest)) then 1 else 0)).
    { rewrite (runs_app x (concat rest) false Nx). destruct (lb x); cbn [negb andb]; [lia|]. rewrite (runs_flag (concat rest)).
      destruct (concat rest); [congruence|]. cbn [is_nil negb andb]. destruct (negb (fb (l :: l0))); lia. }
    split.
    + unfold flags. rewrite (single_tree_app _ _ Nx NX), (fb_app _ _ Nx), (lb_app _ _ NX). rewrite HTx. f_equal. symmetry. exact Hlb.
    + rewrite Hr. unfold bound2 in Bx. cbn [length]. rewrite Nat2N.inj_succ.
      rewrite HTx in *. destruct (fb x) eqn:Ea, (lb x) eqn:Eb, (fb (concat rest)) eqn:Ec, (lb (concat rest)) eqn:Ed; try discriminate; cbn [term_of_flags andb negb] in *; try discriminate; lia.
Qed.

Lemma rep_range_low : forall lo hi n, in_bounds n lo hi -> lowN (rep_range lo hi) = lo /\ in_variance (N.of_nat n) (rep_range lo hi).
Proof.
  intros lo hi n [H1 H2]. split; [|apply fco_within; split; [exact H1|exact H2]].
  unfold rep_range, from_closed_open. destruct hi as [h|].
  - destruct (N.ltb_spec h lo); [lia|]. destruct lo as [|pl] eqn:El; rewrite <- ?El in *.
    + subst lo. destruct (try_lower_upper 0 (Some h)) as [r|] eqn:Et; [destruct (tlu_low _ _ _ Et) as [->|[_ ->]]; reflexivity|reflexivity].
    + destruct (try_lower_upper lo (Some h)) as [r|] eqn:Et; [destruct (tlu_low _ _ _ Et) as [->|[E0 _]]; [reflexivity|lia]|reflexivity].
  - destruct lo as [|pl] eqn:El; rewrite <- ?El in *; [subst; reflexivity|].
    destruct (try_lower_upper lo None) as [r|] eqn:Et; [destruct (tlu_low _ _ _ Et) as [->|[E0 _]]; [reflexivity|lia]|reflexivity].
Qed.

Lemma nsep_concat : forall xs, nsep (concat xs) = sumN (map nsep xs).
Proof. induction xs as [|x xs IH]; [reflexivity|]. cbn [concat map sumN]. rewrite nsep_app, IH. reflexivity. Qed.

Lemma trees_concat_false : forall xs, trees (concat xs) = false -> Forall (fun x => trees x = false) xs.
Proof. induction xs as [|x xs IH]; intros H; [constructor|]. cbn [concat] in H. rewrite trees_app in H. apply orb_false_iff in H. destruct H. constructor; auto. Qed.

Lemma trees_concat_true : forall xs, trees (concat xs) = true -> exists x, In x xs /\ trees x = true.
Proof.
  induction xs as [|x xs IH]; intros H; [discriminate|]. cbn [concat] in H. rewrite trees_app in H. apply orb_true_iff in H. destruct H as [H|H].
  - exists x. split; [left; reflexivity|exact H].
  - destruct (IH H) as [y [Hy Ht]]. exists y. split; [right; exact Hy|exact Ht].
Qed.

Lemma K2_rep : forall T v c xs lo hi,
  Forall (K2 (T, v)) xs -> in_bounds (length xs) lo hi -> 1 <= lo -> chain_ok false (concat xs) = true ->
  nvar_product v (rep_range lo hi) = Ok c -> K2 (T, c) (concat xs).
Proof.
  intros T v c xs lo hi HK Hb Hlo Hc Hp.
  assert (Hne : xs <> []) by (intros ->; destruct Hb as [Hb _]; cbn in Hb; lia).
  destruct (rep_runs T v xs Hne HK Hc) as [NX [FX BX]]. destruct (rep_range_low _ _ _ Hb) as [Rl Rn].
  destruct (product_sound _ _ _ Hp) as [P1 [P2 P3]]. rewrite Rl in P2, P3.
  unfold K2. cbn [fst snd]. split; [exact NX|]. split; [|split; [|split; [exact FX|]]].
  - intros Ht. rewrite nsep_concat. apply P1; [|rewrite map_length; exact Rn].
    apply trees_concat_false in Ht. apply Forall_forall. intros a Ha. apply in_map_iff in Ha. destruct Ha as [x [<- Hx]].
    rewrite Forall_forall in HK, Ht. destruct (HK x Hx) as [_ [Ix _]]. apply Ix. apply Ht. exact Hx.
  - intros Ht. destruct (trees_concat_true _ Ht) as [x [Hx Htx]]. rewrite Forall_forall in HK. destruct (HK x Hx) as [_ [_ [Vx _]]]. apply P3; [apply Vx; exact Htx|exact Hlo].
  - destruct Hb as [Hb1 Hb2]. unfold bound2.
    assert (Hmono : lowN v * lo <= N.of_nat (length xs) * lowN v) by nia.
    destruct T; try lia.
    + (* closed: one iteration *) rewrite BX in *. destruct xs as [|x [|]]; try discriminate. cbn [concat]. rewrite app_nil_r. inversion HK as [|? ? Kx _]; subst.
      destruct Kx as [_ [_ [_ [_ Bx]]]]. unfold bound2 in Bx. cbn [fst snd length] in *. lia.
    + rewrite BX in *. destruct xs as [|x [|]]; try discriminate. cbn [concat]. rewrite app_nil_r. inversion HK as [|? ? Kx _]; subst.
      destruct Kx as [_ [_ [_ [_ Bx]]]]. unfold bound2 in Bx. cbn [fst snd length] in *. lia.
Qed.

(* ---- the class: every repetition is written out at least once and its body has a single depth term ---------------------------------------------------- *)
Definition single_member (r : res (option bterm)) : bool :=
  match r with Ok (Some bt) => match members bt with [_] => true | _ => false end | _ => false end.

Fixpoint simple_reps (t : tok) : bool :=
  match t with
  | TLeaf _ _ => true
  | TAlt _ bs => forallb simple_reps bs
  | TCat _ ts => forallb simple_reps ts
  | TRep _ b lo _ => simple_reps b && (1 <=? lo) && single_member (depth_fold b)
  end.

Lemma no_empty_expansion : forall t, nonempty_branches t = true -> simple_reps t = true -> fnull t = false.
Proof.
  induction t as [sp l|sp bs IH|sp ts IH|sp b lo hi IH] using tok_ind'; cbn [fnull simple_reps nonempty_branches]; intros Hn Hs.
  - reflexivity.
  - apply andb_prop in Hn. destruct Hn as [_ Hn]. rewrite forallb_forall in Hn, Hs. rewrite Forall_forall in IH.
    destruct (existsb fnull bs) eqn:E; [|reflexivity]. apply existsb_exists in E. destruct E as [b [Hin Hb]]. rewrite (IH b Hin (Hn b Hin) (Hs b Hin)) in Hb. discriminate.
  - apply andb_prop in Hn. destruct Hn as [Hnil Hn]. destruct ts as [|t0 ts']; [discriminate|]. inversion IH as [|? ? I0 _]; subst.
    cbn [forallb] in *. apply andb_prop in Hn, Hs. rewrite (I0 (proj1 Hn) (proj1 Hs)). reflexivity.
  - apply andb_prop in Hs. destruct Hs as [Hs _]. apply andb_prop in Hs. destruct Hs as [Hs Hlo]. apply andb_prop in Hn. destruct Hn as [Hn _].
    rewrite (IH Hn Hs), orb_false_r. apply N.leb_le in Hlo. apply N.eqb_neq. lia.
Qed.

Lemma depth_fold_some2 : forall t, nonempty_branches t = true -> simple_reps t = true -> forall r, depth_fold t = Ok r -> r <> None.
Proof.
  induction t as [sp l|sp bs IH|sp ts IH|sp b lo hi IH] using tok_ind'; intros Hne Hrf r Hr.
  - cbn in Hr. inversion Hr. discriminate.
  - cbn [nonempty_branches simple_reps] in *. apply andb_prop in Hne. destruct Hne as [Hn Hall]. destruct bs as [|b0 bs']; [discriminate|].
    cbn [depth_fold rmapM rbind] in Hr. destruct (depth_fold b0) as [r0|] eqn:E0; [|discriminate]. cbn [rbind] in Hr.
    destruct (rmapM depth_fold bs') as [rs|]; [|discriminate]. cbn [rbind] in Hr.
    inversion IH as [|? ? IH0 _]; subst. cbn [forallb] in Hall, Hrf. apply andb_prop in Hall, Hrf. destruct Hall as [H0 _]. destruct Hrf as [R0 _].
    destruct r0 as [v|]; [|exfalso; apply (IH0 H0 R0 None E0); reflexivity]. cbn [flat_map opt_list app rreduce] in Hr.
    destruct (rfold rdisj v (flat_map opt_list rs)); inversion Hr; discriminate.
  - cbn [nonempty_branches simple_reps] in *. apply andb_prop in Hne. destruct Hne as [Hn Hall]. destruct ts as [|b0 bs']; [discriminate|].
    cbn [depth_fold rmapM rbind] in Hr. destruct (depth_fold b0) as [r0|] eqn:E0; [|discriminate]. cbn [rbind] in Hr.
    destruct (rmapM depth_fold bs') as [rs|]; [|discriminate]. cbn [rbind] in Hr.
    inversion IH as [|? ? IH0 _]; subst. cbn [forallb] in Hall, Hrf. apply andb_prop in Hall, Hrf. destruct Hall as [H0 _]. destruct Hrf as [R0 _].
    destruct r0 as [v|]; [|exfalso; apply (IH0 H0 R0 None E0); reflexivity]. cbn [flat_map opt_list app rreduce] in Hr.
    destruct (rfold bterm_conj v (flat_map opt_list rs)); inversion Hr; discriminate.
  - cbn [simple_reps] in Hrf. apply andb_prop in Hrf. destruct Hrf as [_ Hsm]. cbn [depth_fold] in Hr. unfold single_member in Hsm.
    destruct (depth_fold b) as [[bt|]|]; try discriminate. cbn [rbind opt_list rreduce rfold rmap] in Hr.
    destruct (bterm_product bt (rep_range lo hi)); inversion Hr; discriminate.
Qed.

Definition summarised2 (t : tok) : Prop :=
  forall b, depth_fold t = Ok (Some b) -> forall x, Expands t x -> chain_ok false x = true -> exists s, In s (members b) /\ K2 s x.

Lemma cat_summarised2 : forall ts xs terms,
  Forall summarised2 ts -> forallb nonempty_branches ts = true -> forallb simple_reps ts = true ->
  Forall2 Expands ts xs -> Forall2 (fun t r => depth_fold t = Ok r) ts terms ->
  forall acc xa c sa, In sa (members acc) -> K2 sa xa -> chain_ok false (xa ++ concat xs) = true ->
  rfold bterm_conj acc (flat_map opt_list terms) = Ok c ->
  exists s, In s (members c) /\ K2 s (xa ++ concat xs).
Proof.
  intros ts xs terms IH Hne Hrf HX. revert terms IH Hne Hrf.
  induction HX as [|t0 x0 ts' xs' Hx0 _ IHX]; intros terms IH Hne Hrf HT acc xa c sa Hsa HK Hc H.
  - inversion HT; subst. cbn in H. inversion H; subst. cbn [concat]. rewrite app_nil_r. exists sa. auto.
  - inversion HT as [|? r0 ? terms' Hr0 HT']; subst. inversion IH as [|? ? IH0 IH']; subst.
    cbn [forallb] in Hne, Hrf. apply andb_prop in Hne, Hrf. destruct Hne as [Hn0 Hne']. destruct Hrf as [Hf0 Hrf'].
    destruct r0 as [b0|]; [|exfalso; apply (depth_fold_some2 t0 Hn0 Hf0 None Hr0); reflexivity].
    cbn [flat_map opt_list app rfold] in H. destruct (bterm_conj acc b0) as [acc'|] eqn:Ec; [|discriminate]. cbn [rbind] in H.
    cbn [concat] in Hc |- *. destruct HK as [Nxa HK'].
    destruct (chain_ok_app xa (x0 ++ concat xs') false Hc Nxa) as [Hca Hcr].
    assert (Nx0 : x0 <> []).
    { intros ->. pose proof (EncodeLang.expands_nil_fnull t0 Hx0) as Hfn. rewrite (no_empty_expansion t0 Hn0 Hf0) in Hfn. discriminate. }
    destruct (chain_ok_app x0 (concat xs') _ Hcr Nx0) as [Hc0 Hcr'].
    destruct (IH0 b0 Hr0 x0 Hx0 (chain_ok_weaken _ _ Hc0)) as [s0 [Hs0 HK0]].
    destruct (bterm_conj_members _ _ _ sa s0 Ec Hsa Hs0) as [s' [Hs' Hin']].
    assert (Hj : lb xa && fb x0 = false).
    { destruct (lb xa) eqn:El; [|reflexivity]. cbn [andb]. apply chain_ok_junction. exact Hc0. }
    pose proof (K2_conj _ _ _ _ _ (conj Nxa HK') HK0 Hj Hs') as HK1.
    rewrite app_assoc in Hc |- *.
    apply (IHX terms' IH' Hne' Hrf' HT' acc' (xa ++ x0) c s' Hin' HK1 Hc H).
Qed.

Lemma chain_ok_in_concat : forall xs pb, chain_ok pb (concat xs) = true -> forall x, In x xs -> chain_ok false x = true.
Proof.
  induction xs as [|x0 xs IH]; intros pb H x Hin; [contradiction|]. cbn [concat] in H. destruct x0 as [|a x0'].
  - cbn [app] in H. destruct Hin as [<-|Hin]; [reflexivity|]. exact (IH pb H x Hin).
  - destruct (chain_ok_app (a :: x0') (concat xs) pb H ltac:(discriminate)) as [H1 H2]. destruct Hin as [<-|Hin].
    + exact (chain_ok_weaken _ _ H1).
    + exact (IH _ H2 x Hin).
Qed.

Theorem simple_reps_summarised : forall t, nonempty_branches t = true -> simple_reps t = true -> summarised2 t.
Proof.
  induction t as [sp l|sp bs IH|sp ts IH|sp b lo hi IH] using tok_ind'; intros Hne Hrf.
  - intros b Hb x Hx _. cbn in Hb. inversion Hb; subst. inversion Hx; subst. rewrite depth_leaf_sterm. exists (sterm_of l). split; [left; reflexivity|apply K2_leaf].
  - intros b Hb x Hx Hc. inversion Hx as [|sp0 bs0 bb x0 Hin Hxb| |]; subst.
    cbn [nonempty_branches simple_reps] in *. apply andb_prop in Hne. destruct Hne as [_ Hall]. rewrite forallb_forall in Hall, Hrf.
    cbn [depth_fold rbind] in Hb. destruct (rmapM depth_fold bs) as [terms|] eqn:Er; [|discriminate]. cbn [rbind] in Hb.
    destruct (rmapM_ok_in _ _ _ bb Er Hin) as [r [Hr Hir]].
    destruct r as [b1|]; [|exfalso; apply (depth_fold_some2 bb (Hall bb Hin) (Hrf bb Hin) None Hr); reflexivity].
    rewrite Forall_forall in IH. destruct (IH bb Hin (Hall bb Hin) (Hrf bb Hin) b1 Hr x Hxb Hc) as [s [Hs HK]].
    exists s. split; [|exact HK].
    pose proof (flat_map_opt_in terms b1 Hir) as Hfl. destruct (flat_map opt_list terms) as [|a l] eqn:Efl; [contradiction|].
    cbn [rreduce] in Hb. destruct (rfold rdisj a l) as [c|] eqn:Ef; [|discriminate]. cbn [rmap] in Hb. inversion Hb; subst.
    apply (rfold_disj_members _ _ _ Ef). destruct Hfl as [<-|Hfl]; [left; exact Hs|right; exists b1; auto].
  - intros b Hb x Hx Hc. inversion Hx as [| |sp0 ts0 xs HF|]; subst.
    cbn [nonempty_branches simple_reps] in *. apply andb_prop in Hne. destruct Hne as [Hnil Hall].
    cbn [depth_fold rbind] in Hb. destruct (rmapM depth_fold ts) as [terms|] eqn:Er; [|discriminate]. cbn [rbind] in Hb.
    pose proof (rmapM_forall2 _ _ _ Er) as HT.
    assert (IH' : Forall summarised2 ts).
    { apply Forall_forall. intros t Ht. rewrite Forall_forall in IH. rewrite forallb_forall in Hall, Hrf. exact (IH t Ht (Hall t Ht) (Hrf t Ht)). }
    destruct HF as [|t0 x0 ts' xs' Hx0 HF']; [discriminate|]. inversion HT as [|? r0 ? terms' Hr0 HT']; subst. inversion IH' as [|? ? IH0 IH'']; subst.
    cbn [forallb] in Hall, Hrf. apply andb_prop in Hall, Hrf. destruct Hall as [Hn0 Hne']. destruct Hrf as [Hf0 Hrf'].
    destruct r0 as [b0|]; [|exfalso; apply (depth_fold_some2 t0 Hn0 Hf0 None Hr0); reflexivity].
    cbn [flat_map opt_list app rreduce] in Hb. destruct (rfold bterm_conj b0 (flat_map opt_list terms')) as [c|] eqn:Ef; [|discriminate]. cbn [rmap] in Hb. injection Hb as <-.
    cbn [concat] in Hc |- *.
    assert (Nx0 : x0 <> []).
    { intros ->. pose proof (EncodeLang.expands_nil_fnull t0 Hx0) as Hfn. rewrite (no_empty_expansion t0 Hn0 Hf0) in Hfn. discriminate. }
    destruct (chain_ok_app x0 (concat xs') false Hc Nx0) as [Hc0 _].
    destruct (IH0 b0 Hr0 x0 Hx0 Hc0) as [s0 [Hs0 HK0]].
    exact (cat_summarised2 ts' xs' terms' IH'' Hne' Hrf' HF' HT' b0 x0 c s0 Hs0 HK0 Hc Ef).
  - intros bb Hb x Hx Hc. inversion Hx as [| | |sp0 b0 lo0 hi0 xs Hbd HF]; subst.
    cbn [nonempty_branches simple_reps] in *. apply andb_prop in Hne. destruct Hne as [Hn _].
    apply andb_prop in Hrf. destruct Hrf as [Hrf Hsm]. apply andb_prop in Hrf. destruct Hrf as [Hsr Hlo]. apply N.leb_le in Hlo.
    cbn [depth_fold] in Hb. unfold single_member in Hsm. destruct (depth_fold b) as [[bt|]|] eqn:Eb; try discriminate.
    destruct (members bt) as [|s [|s' ms]] eqn:Em; try discriminate. cbn [rbind opt_list rreduce rfold rmap] in Hb.
    destruct (bterm_product bt (rep_range lo hi)) as [y|] eqn:Ep; [|discriminate]. cbn [rbind] in Hb. injection Hb as <-.
    (* every iteration is summarised by the single member *)
    assert (HKs : Forall (K2 s) xs).
    { apply Forall_forall. intros xi Hxi. rewrite Forall_forall in HF. destruct (IH Hn Hsr bt Eb xi (HF xi Hxi) (chain_ok_in_concat _ _ Hc xi Hxi)) as [s1 [Hs1 HK1]].
      rewrite Em in Hs1. destruct Hs1 as [<-|[]]. exact HK1. }
    destruct s as [T v].
    assert (Hy : exists c, nvar_product v (rep_range lo hi) = Ok c /\ In (T, c) (members y)).
    { destruct bt as [a|ss]; cbn [members] in Em; cbn [bterm_product] in Ep.
      - inversion Em; subst a. unfold sterm_product in Ep. cbn [fst snd] in Ep. destruct (nvar_product v (rep_range lo hi)) as [c|]; [|discriminate]. cbn [rbind] in Ep.
        inversion Ep; subst. exists c. split; [reflexivity|left; reflexivity].
      - subst ss. cbn [rmapM rbind] in Ep. unfold sterm_product in Ep. cbn [fst snd] in Ep. destruct (nvar_product v (rep_range lo hi)) as [c|]; [|discriminate]. cbn [rbind] in Ep.
        inversion Ep; subst. exists c. split; [reflexivity|]. cbn [members]. apply set_of_list_in. left. reflexivity. }
    destruct Hy as [c [Hpc Hin]]. exists (T, c). split; [exact Hin|]. eapply K2_rep; eassumption.
Qed.

(* ---- the theorem ------------------------------------------------------------------------------------------------------------------------------------- *)
Section RepSound.
Variable orbit : char -> list char.
Hypothesis orbit_nosep : forall c d, In d (orbit c) -> d <> SEP.

Theorem depth_rep_sound : forall t v p x,
  nonempty_branches t = true -> simple_reps t = true -> lits_nosep t = true ->
  depth_variance t = Ok v -> depth_closed_variant t = false ->
  Expands t x -> FlatMatch orbit true true x p -> chain_ok false x = true ->
  canonical p = true -> 1 <= ncomp p ->
  starts_sep p = (match x with a :: _ => leaf_is_rooting a | [] => false end) ->
  in_variance (ncomp p) v.
Proof.
  intros t v p x Hne Hrf Hlit Hv Hcv Hx Hm Hc Hcan Hn Hroot.
  unfold depth_variance in Hv. destruct (depth_fold t) as [r|] eqn:Ed; [|discriminate]. cbn [rbind] in Hv.
  destruct r as [b|]; [|exfalso; apply (depth_fold_some2 t Hne Hrf None Ed); reflexivity].
  destruct (simple_reps_summarised t Hne Hrf b Ed x Hx Hc) as [[T vs] [Hs [Nx [Iv [Vf [Fl Bd]]]]]]. cbn [fst snd] in *.
  destruct (bterm_finalize_members_ok _ _ _ Hv Hs) as [f Hf].
  apply (bterm_finalize_cover _ _ _ _ _ Hv Hs Hf).
  assert (Hncv : sterm_closed_variant (T, vs) = false).
  { unfold depth_closed_variant in Hcv. rewrite Ed in Hcv. destruct b as [s0|ss]; cbn [members] in Hs.
    - destruct Hs as [<-|[]]. exact Hcv.
    - destruct (sterm_closed_variant (T, vs)) eqn:E; [|reflexivity]. assert (existsb sterm_closed_variant ss = true) by (apply existsb_exists; eauto). congruence. }
  destruct x as [|a x']; [congruence|].
  assert (Hlast : last_opt (a :: x') <> Some LSep).
  { intros Ell. pose proof (last_sep_ends orbit _ _ _ _ Hm Ell) as He.
    unfold canonical in Hcan. apply andb_prop in Hcan. destruct Hcan as [_ Hcn]. rewrite He in Hcn. cbn [andb] in Hcn.
    apply negb_true_iff in Hcn. apply negb_false_iff in Hcn.
    destruct p as [|c [|d p']]; [discriminate| |discriminate].
    unfold ends_sep in He. cbn in He. unfold ncomp in Hn. cbn [starts_sep] in Hn. rewrite He in Hn. cbn in Hn. lia. }
  destruct (fin_sound _ _ _ Hf) as [F1 [F2 F3]].
  destruct (trees (a :: x')) eqn:Et.
  - (* some tree wildcard: a lower bound, no upper bound *)
    specialize (Vf eq_refl). pose proof (F1 Vf) as Hup. pose proof (runs_ncomp orbit a x' p Hc Hm Hroot Hn) as Hr.
    apply in_variance_within. unfold within. rewrite Hup. split; [|exact I].
    unfold bound2 in Bd. destruct T; try lia. destruct vs as [n0|bv]; [discriminate|]. cbn in Hncv. discriminate.
  - (* no tree wildcard: the separator count lies in the variance *)
    specialize (Iv eq_refl). pose proof (expands_lit_ok t _ Hlit Hx) as Hlo.
    pose proof (leaf_ok_of _ Hlo Et) as Hlk. pose proof (flat_seps orbit orbit_nosep _ _ _ _ Hlk Hm) as Hsp. rewrite count_seps_nsep in Hsp.
    unfold flags in Fl. assert (Est : single_tree (a :: x') = false).
    { destruct x' as [|b9 x'']; [|destruct a; reflexivity]. destruct a; try reflexivity. unfold trees in Et. cbn in Et. discriminate. }
    rewrite Est in Fl.
    assert (Hlb : lb (a :: x') = false).
    { unfold lb. destruct (last_opt (a :: x')) as [ll|] eqn:Ell; [|reflexivity]. destruct ll; try reflexivity; [congruence|].
      exfalso. assert (Hin : In (LTree root) (a :: x')).
      { clear - Ell. revert a Ell. induction x' as [|b x'' IH]; intros a Ell; [cbn in Ell; inversion Ell; left; reflexivity|].
        change (last_opt (a :: b :: x'')) with (last_opt (b :: x'')) in Ell. right. apply IH. exact Ell. }
      unfold trees in Et. assert (existsb is_tree_leaf (a :: x') = true) by (apply existsb_exists; exists (LTree root); auto). congruence. }
    rewrite Hlb in Fl. cbn [fb] in Fl.
    assert (Hfa : is_bnd a = is_sep_leaf a /\ leaf_is_rooting a = is_sep_leaf a).
    { unfold trees in Et. cbn [existsb] in Et. apply orb_false_iff in Et. destruct Et as [Eta _]. destruct a; try discriminate; auto. }
    destruct Hfa as [Hfa1 Hfa2]. rewrite Hfa1 in Fl. rewrite Hfa2 in Hroot.
    specialize (F3 _ Iv). unfold ncomp in *. destruct p as [|c p']; [cbn in Hn; lia|]. rewrite Hroot in *.
    destruct (is_sep_leaf a); cbn [term_of_flags] in Fl; subst T.
    + destruct (is_nil (tl (c :: p'))); [lia|]. rewrite Hsp. exact F3.
    + rewrite Hsp. exact F3.
Qed.

End RepSound.
