(* ExhaustAltFacts.v -- C09 for globs without repetitions: an `Always` verdict is sound, however the alternations nest.
   (1) every expansion of the tree is covered by a member of the term the exhaustiveness fold computes, and a member without
   upper bound means the expansion ends with a tree wildcard followed by separators and zero-or-more wildcards only;
   (2) with the rule checker's guarantees over expansions (no adjacent boundaries, no adjacent zero-or-more wildcards: C06) and
   no trailing separator, that tail is `*`, `*/*`, ...; (3) such a tail absorbs any further component (ExhaustFacts). *)
From Coq Require Import Arith Lia.
From WaxModel Require Import Base Token Regex Spec Encode Variance Fold Rule Parse Query Glob.
From WaxProofs Require Import SpecFacts EncodeLang RuleFacts DepthFacts ExhaustFacts TextFacts DepthTreeFacts DepthAltFacts BuiltNonempty RuleAdjFacts ParseShape.
From WaxProofs Require Import RuleZomFacts.
Local Open Scope nat_scope.

Definition szt (l : leaf) : bool := match l with LSep | LZom _ | LTree _ => true | _ => false end.
Definition sz (l : leaf) : bool := match l with LSep | LZom _ => true | _ => false end.
Definition has_ft (x : list leaf) : Prop := exists pre r suf, x = pre ++ LTree r :: suf /\ forallb szt suf = true.
Definition open_tail_l (x : list leaf) : Prop := exists pre r suf, x = pre ++ LTree r :: suf /\ (suf = [] \/ ztail suf).

(* ---- (3) the semantic step on leaf sequences ------------------------------------------------------------------------------------------------ *)
Lemma open_tail_l_extends : forall orbit x p z, open_tail_l x -> nosep z = true ->
  FlatMatch orbit true true x p -> FlatMatch orbit true true x (p ++ SEP :: z).
Proof.
  intros orbit x p z [pre [r [suf [-> Hs]]]] Hz Hm. destruct Hs as [->|Hzt].
  - apply flatmatch_extend_last_tree. exact Hm.
  - apply flatmatch_extend_tree_ztail; assumption.
Qed.

(* ---- (2) from a free tail to `*`, `*/*`, ... -------------------------------------------------------------------------------------------------- *)
Lemma first_tree_leaf_split : forall l, existsb is_tree_leaf l = true ->
  exists a r b, l = a ++ LTree r :: b /\ existsb is_tree_leaf a = false.
Proof.
  induction l as [|t l IH]; intros H; [discriminate|]. cbn [existsb] in H. destruct (is_tree_leaf t) eqn:Et.
  - destruct t; try discriminate. exists [], root, l. split; reflexivity.
  - cbn [orb] in H. destruct (IH H) as [a [r [b [-> Ha]]]]. exists (t :: a), r, b. split; [reflexivity|]. cbn [existsb]. rewrite Et, Ha. reflexivity.
Qed.

Lemma has_ft_last : forall n suf pre r, length suf <= n -> forallb szt suf = true ->
  exists pre' r' suf', pre ++ LTree r :: suf = pre' ++ LTree r' :: suf' /\ forallb sz suf' = true.
Proof.
  induction n as [|n IH]; intros suf pre r Hn Hs.
  - destruct suf; [|cbn in Hn; lia]. exists pre, r, []. auto.
  - destruct (existsb is_tree_leaf suf) eqn:Et.
    + destruct (first_tree_leaf_split suf Et) as [a [r2 [b [-> Ha]]]]. rewrite forallb_app in Hs. apply andb_prop in Hs. destruct Hs as [_ Hs].
      cbn [forallb] in Hs. apply andb_prop in Hs. destruct Hs as [_ Hb].
      destruct (IH b (pre ++ LTree r :: a) r2) as [pre' [r' [suf' [E Hs']]]]; [rewrite app_length in Hn; cbn [length] in Hn; lia|exact Hb|].
      exists pre', r', suf'. split; [|exact Hs']. rewrite <- E, <- app_assoc. reflexivity.
    + exists pre, r, suf. split; [reflexivity|]. apply forallb_forall. intros l Hl. rewrite forallb_forall in Hs. specialize (Hs l Hl).
      destruct l; try discriminate; try reflexivity. exfalso. assert (existsb is_tree_leaf suf = true) by (apply existsb_exists; eexists; split; [exact Hl|reflexivity]). congruence.
Qed.

Lemma zchain_cons : forall a x pz, zchain pz (a :: x) = true -> zchain (is_zl a) x = true.
Proof. intros a x pz H. cbn [zchain] in H. apply andb_prop in H. exact (proj2 H). Qed.

Lemma zchain_app_r : forall x y pz, zchain pz (x ++ y) = true -> exists pz', zchain pz' y = true.
Proof.
  induction x as [|a x IH]; intros y pz H; [exists pz; exact H|]. cbn [app] in H. apply zchain_cons in H. exact (IH _ _ H).
Qed.

Lemma chain_ok_cons : forall a x pb, chain_ok pb (a :: x) = true -> chain_ok (is_bnd a) x = true.
Proof. intros a x pb H. cbn [chain_ok] in H. apply andb_prop in H. exact (proj2 H). Qed.

Lemma chain_ok_app_r : forall x y pb, chain_ok pb (x ++ y) = true -> exists pb', chain_ok pb' y = true.
Proof.
  induction x as [|a x IH]; intros y pb H; [exists pb; exact H|]. cbn [app] in H. apply chain_ok_cons in H. exact (IH _ _ H).
Qed.

Lemma zchain_weaken : forall x pz, zchain pz x = true -> zchain false x = true.
Proof. intros [|a x] pz H; [reflexivity|]. cbn [zchain andb negb] in *. apply andb_prop in H. exact (proj2 H). Qed.

Lemma sz_tail_shape : forall n suf, length suf <= n -> forallb sz suf = true ->
  chain_ok true suf = true -> zchain false suf = true -> last_opt suf <> Some LSep -> suf = [] \/ ztail suf.
Proof.
  induction n as [|n IH]; intros suf Hn Hs Hc Hz Hl.
  - destruct suf; [left; reflexivity|cbn in Hn; lia].
  - destruct suf as [|a r]; [left; reflexivity|]. right. cbn [forallb] in Hs. apply andb_prop in Hs. destruct Hs as [Ha Hr].
    destruct a; try discriminate.
    destruct r as [|b r2]; [constructor|]. cbn [forallb] in Hr. apply andb_prop in Hr. destruct Hr as [Hb Hr2].
    destruct b; try discriminate.
      * apply chain_ok_cons in Hc. apply chain_ok_cons in Hc. cbn [is_bnd] in Hc. apply zchain_cons in Hz. apply zchain_cons in Hz. cbn [is_zl] in Hz.
        assert (Hl2 : last_opt r2 <> Some LSep). { destruct r2 as [|c r3]; [discriminate|]. exact Hl. }
        destruct (IH r2 ltac:(cbn [length] in Hn; lia) Hr2 Hc Hz Hl2) as [->|Hzt].
        -- exfalso. apply Hl. reflexivity.
        -- constructor. exact Hzt.
Qed.

Lemma last_opt_suffix : forall {A} (pre : list A) a suf l, last_opt (pre ++ a :: suf) <> Some l -> suf <> [] -> last_opt suf <> Some l.
Proof. intros A pre a suf l H Hs. change (pre ++ a :: suf) with (pre ++ [a] ++ suf) in H. rewrite app_assoc, ExhaustFacts.last_opt_app in H by exact Hs. exact H. Qed.

Lemma ft_open_tail : forall x, has_ft x -> chain_ok false x = true -> zchain false x = true -> last_opt x <> Some LSep -> open_tail_l x.
Proof.
  intros x [pre [r [suf [-> Hs]]]] Hc Hz Hl.
  destruct (has_ft_last (length suf) suf pre r (le_n _) Hs) as [pre' [r' [suf' [E Hs']]]]. rewrite E in *.
  exists pre', r', suf'. split; [reflexivity|].
  destruct (chain_ok_app_r pre' (LTree r' :: suf') false Hc) as [pb Hc']. apply chain_ok_cons in Hc'. cbn [is_bnd] in Hc'.
  destruct (zchain_app_r pre' (LTree r' :: suf') false Hz) as [pz Hz']. apply zchain_cons in Hz'. cbn [is_zl] in Hz'.
  apply (sz_tail_shape (length suf') suf' (le_n _) Hs' Hc' Hz').
  destruct suf' as [|c s]; [discriminate|]. apply (last_opt_suffix pre' (LTree r') (c :: s) LSep Hl). discriminate.
Qed.

(* ---- (1) the exhaustiveness fold on trees without repetitions ----------------------------------------------------------------------------------- *)
Definition free_tok (t : tok) : bool := match t with TLeaf _ _ => exh_takes t | _ => all_unbounded t end.

Lemma exh_takes_szt : forall sp l, exh_takes (TLeaf sp l) = szt l.
Proof. intros sp []; reflexivity. Qed.

Lemma free_expands : forall t, rep_free t = true -> all_unbounded t = true -> forall x, Expands t x -> forallb szt x = true.
Proof.
  induction t as [sp l|sp bs IH|sp ts IH|sp b lo hi IH] using tok_ind'; intros Hr Hu x Hx; try discriminate.
  - inversion Hx; subst. cbn [all_unbounded] in Hu. rewrite exh_takes_szt in Hu. cbn [forallb]. rewrite Hu. reflexivity.
  - inversion Hx as [|sp0 bs0 bb x0 Hin Hxb| |]; subst. cbn [rep_free all_unbounded] in *. rewrite forallb_forall in Hr, Hu. rewrite Forall_forall in IH.
    exact (IH bb Hin (Hr bb Hin) (Hu bb Hin) x Hxb).
  - inversion Hx as [| |sp0 ts0 xs HF|]; subst. cbn [rep_free all_unbounded] in *. clear Hx. induction HF as [|t0 x0 ts' xs' Hx0 _ IHF]; [reflexivity|].
    inversion IH as [|? ? I0 I']; subst. cbn [forallb] in Hr, Hu. apply andb_prop in Hr, Hu. cbn [concat]. rewrite forallb_app.
    rewrite (I0 (proj1 Hr) (proj1 Hu) x0 Hx0), (IHF I' (proj2 Hr) (proj2 Hu)). reflexivity.
Qed.

Lemma free_tok_expands : forall t, rep_free t = true -> free_tok t = true -> forall x, Expands t x -> forallb szt x = true.
Proof.
  intros t Hr Hf x Hx. destruct t as [sp l| | |]; apply (free_expands _ Hr Hf x Hx).
Qed.

(* all but the last taken token are free *)
Fixpoint abl_free {A} (l : list (tok * A)) : Prop :=
  match l with
  | [] => True
  | [x] => True
  | x :: l' => free_tok (fst x) = true /\ abl_free l'
  end.

Lemma take_exh_shape : forall {A} (l : list (tok * A)), abl_free (take_exh true l) /\ exists rest, l = take_exh true l ++ rest.
Proof.
  induction l as [|[t a] l [IH1 [rest IH2]]]; [split; [exact I|exists []; reflexivity]|]. cbn [take_exh].
  destruct t as [sp lf|sp bs|sp ts|sp b lo hi].
  - destruct (exh_takes (TLeaf sp lf)) eqn:E; [|split; [exact I|eexists; reflexivity]].
    split; [|exists rest; cbn [app]; rewrite <- IH2; reflexivity]. destruct (take_exh true l) eqn:El; [exact I|]. split; [exact E|exact IH1].
  - cbn [andb]. destruct (bounded_branch (TAlt sp bs)) eqn:E; [split; [exact I|eexists; reflexivity]|].
    split; [|exists rest; cbn [app]; rewrite <- IH2; reflexivity]. destruct (take_exh true l) eqn:El; [exact I|]. split; [|exact IH1].
    unfold bounded_branch in E. cbn [is_branch andb] in E. apply negb_false_iff in E. exact E.
  - cbn [andb]. destruct (bounded_branch (TCat sp ts)) eqn:E; [split; [exact I|eexists; reflexivity]|].
    split; [|exists rest; cbn [app]; rewrite <- IH2; reflexivity]. destruct (take_exh true l) eqn:El; [exact I|]. split; [|exact IH1].
    unfold bounded_branch in E. cbn [is_branch andb] in E. apply negb_false_iff in E. exact E.
  - cbn [andb]. destruct (bounded_branch (TRep sp b lo hi)) eqn:E; [split; [exact I|eexists; reflexivity]|].
    split; [|exists rest; cbn [app]; rewrite <- IH2; reflexivity]. destruct (take_exh true l) eqn:El; [exact I|]. split; [|exact IH1].
    unfold bounded_branch in E. cbn [is_branch andb] in E. apply negb_false_iff in E. exact E.
Qed.

Lemma take_exh_alt : forall {A} (l : list (tok * A)), Forall (fun x => is_branch (fst x) = true) l -> take_exh false l = l.
Proof.
  induction l as [|[t a] l IH]; intros H; [reflexivity|]. inversion H as [|? ? Ht Hl]; subst. cbn [take_exh fst] in *.
  destruct t; try discriminate; cbn [andb]; rewrite (IH Hl); reflexivity.
Qed.

(* the statement: members have the shapes of a tree without repetitions (no upper-bounded ranges), and every expansion is covered *)
Definition shape_members (b : bterm) : Prop := Forall (fun m => shape (snd m)) (members b).

Definition Covered (t : tok) : Prop :=
  (forall r, exh_fold t = Ok r -> r <> None) /\
  forall b, exh_fold t = Ok (Some b) ->
    shape_members b /\ forall x, Expands t x -> exists m, In m (members b) /\ (vform (snd m) -> has_ft x).

Lemma has_ft_prepend : forall y x, has_ft x -> has_ft (y ++ x).
Proof. intros y x [pre [r [suf [-> H]]]]. exists (y ++ pre), r, suf. split; [rewrite app_assoc; reflexivity|exact H]. Qed.

Lemma has_ft_append : forall x y, has_ft x -> forallb szt y = true -> has_ft (x ++ y).
Proof.
  intros x y [pre [r [suf [-> H]]]] Hy. exists pre, r, (suf ++ y). split; [rewrite <- app_assoc; reflexivity|]. rewrite forallb_app, H, Hy. reflexivity.
Qed.

Lemma sterm_conj_shape : forall a b c, shape (snd a) -> shape (snd b) -> sterm_conj a b = Ok c ->
  shape (snd c) /\ (vform (snd c) -> vform (snd a) \/ vform (snd b)).
Proof.
  intros [ta va] [tb vb] [tc vc] Sa Sb H. cbn [fst snd] in *. unfold sterm_conj in H. cbn [fst snd] in H.
  assert (Conv : forall x y z, shape x -> shape y -> nvar_conj x y = Ok z -> shape z /\ (vform z -> vform x \/ vform y)).
  { intros x y z Sx Sy E. destruct (conj_any _ _ _ Sx Sy E) as [C1 [_ [_ C4]]]. split; [exact C1|]. intros Hz.
    destruct x as [i|vx]; [|left; destruct vx as [[]|]; try destruct Sx; exact I]. destruct y as [j|vy]; [|right; destruct vy as [[]|]; try destruct Sy; exact I].
    rewrite (C4 i j eq_refl eq_refl) in Hz. destruct Hz. }
  destruct (term_conj ta tb) as [t|t|t].
  - destruct (sterm_finalize (ta, va)) as [lv|] eqn:Ef; [|discriminate]. cbn [rbind] in H. destruct (nvar_conj lv vb) as [v|] eqn:Ec; [|discriminate]. inversion H; subst.
    destruct (fin_lo _ _ _ Sa Ef) as [F1 [F2 _]]. destruct (Conv _ _ _ F1 Sb Ec) as [C1 C2]. split; [exact C1|]. intros Hv. destruct (C2 Hv) as [Hl|Hr]; [|right; exact Hr].
    left. unfold sterm_finalize in Ef. cbn [fst snd] in Ef. destruct ta; try (inversion Ef; subst; exact Hl).
    + destruct (Conv va (Inv 1%N) lv Sa I Ef) as [_ C3]. destruct (C3 Hl) as [H1|[]]. exact H1.
    + destruct va; [inversion Ef; subst; destruct Hl|inversion Ef; subst; exact Hl].
  - destruct (sterm_finalize (tb, vb)) as [rv|] eqn:Ef; [|discriminate]. cbn [rbind] in H. destruct (nvar_conj va rv) as [v|] eqn:Ec; [|discriminate]. inversion H; subst.
    destruct (fin_lo _ _ _ Sb Ef) as [F1 [F2 _]]. destruct (Conv _ _ _ Sa F1 Ec) as [C1 C2]. split; [exact C1|]. intros Hv. destruct (C2 Hv) as [Hl|Hr]; [left; exact Hl|].
    right. unfold sterm_finalize in Ef. cbn [fst snd] in Ef. destruct tb; try (inversion Ef; subst; exact Hr).
    + destruct (Conv vb (Inv 1%N) rv Sb I Ef) as [_ C3]. destruct (C3 Hr) as [H1|[]]. exact H1.
    + destruct vb; [inversion Ef; subst; destruct Hr|inversion Ef; subst; exact Hr].
  - destruct (nvar_conj va vb) as [v|] eqn:Ec; [|discriminate]. inversion H; subst. exact (Conv _ _ _ Sa Sb Ec).
Qed.

Lemma bterm_conj_shape : forall l r c, bterm_conj l r = Ok c -> shape_members l -> shape_members r -> shape_members c.
Proof.
  intros l r c H Hl Hr. unfold shape_members in *. rewrite Forall_forall in *. intros m Hm.
  assert (Hpair : exists a b, In a (members l) /\ In b (members r) /\ sterm_conj a b = Ok m).
  { destruct l as [a|ss], r as [b|bs]; cbn [bterm_conj members] in *.
    - destruct (sterm_conj a b) as [x|] eqn:E; [|discriminate]. inversion H; subst. destruct Hm as [<-|[]]. exists a, b. split; [left; reflexivity|]. split; [left; reflexivity|exact E].
    - destruct (rmapM (fun b0 => sterm_conj a b0) bs) as [cs|] eqn:E; [|discriminate]. inversion H; subst. cbn [members] in Hm. apply (proj1 (set_of_list_in _ _)) in Hm.
      destruct (rmapM_all_ok _ _ _ E m Hm) as [b0 [Hb0 Hc]]. exists a, b0. split; [left; reflexivity|]. split; [exact Hb0|exact Hc].
    - destruct (rmapM (fun a0 => sterm_conj a0 b) ss) as [cs|] eqn:E; [|discriminate]. inversion H; subst. cbn [members] in Hm. apply (proj1 (set_of_list_in _ _)) in Hm.
      destruct (rmapM_all_ok _ _ _ E m Hm) as [a0 [Ha0 Hc]]. exists a0, b. split; [exact Ha0|]. split; [left; reflexivity|exact Hc].
    - destruct (rmapM (fun ab => sterm_conj (fst ab) (snd ab)) (list_prod ss bs)) as [cs|] eqn:E; [|discriminate]. inversion H; subst. cbn [members] in Hm. apply (proj1 (set_of_list_in _ _)) in Hm.
      destruct (rmapM_all_ok _ _ _ E m Hm) as [[a0 b0] [Hab Hc]]. apply in_prod_iff in Hab. exists a0, b0. cbn [fst snd] in Hc. tauto. }
  destruct Hpair as [a [b [Ha [Hb Hc]]]]. exact (proj1 (sterm_conj_shape _ _ _ (Hl a Ha) (Hr b Hb) Hc)).
Qed.

Fixpoint abl_free_t (l : list tok) : Prop :=
  match l with
  | [] => True
  | [x] => True
  | x :: l' => free_tok x = true /\ abl_free_t l'
  end.

Lemma fold_covered : forall R ys bs, Forall2 Expands R ys -> Forall2 (fun t b => exh_fold t = Ok (Some b)) R bs ->
  Forall (fun t => Covered t /\ rep_free t = true) R -> abl_free_t R ->
  forall acc Y sa c, shape_members acc -> In sa (members acc) -> (vform (snd sa) -> has_ft Y) -> (R <> [] -> forallb szt Y = true) ->
  rfold bterm_conj acc bs = Ok c ->
  shape_members c /\ exists sc, In sc (members c) /\ (vform (snd sc) -> has_ft (concat (rev ys) ++ Y)).
Proof.
  intros R ys bs HX. revert bs. induction HX as [|r y R' ys' Hy HX' IH]; intros bs HB HS Hab acc Y sa c Hsh Hsa Hft Hszt H.
  - inversion HB; subst. cbn in H. inversion H; subst. split; [exact Hsh|]. exists sa. split; [exact Hsa|exact Hft].
  - inversion HB as [|? br ? bs' Hbr HB']; subst. inversion HS as [|? ? [[_ HSr] Hrf] HS']; subst.
    cbn [rfold] in H. destruct (bterm_conj acc br) as [acc'|] eqn:Ec; [|discriminate]. cbn [rbind] in H.
    destruct (HSr br Hbr) as [Hshr Hcov]. destruct (Hcov y Hy) as [m [Hm Hmft]].
    destruct (bterm_conj_members _ _ _ sa m Ec Hsa Hm) as [sa' [Hsa' Hin']].
    assert (Hsh' : shape_members acc') by (eapply bterm_conj_shape; eassumption).
    unfold shape_members in Hsh, Hshr. rewrite Forall_forall in Hsh, Hshr.
    destruct (sterm_conj_shape _ _ _ (Hsh sa Hsa) (Hshr m Hm) Hsa') as [_ Hconv].
    assert (HsY : forallb szt Y = true) by (apply Hszt; discriminate).
    assert (Hft' : vform (snd sa') -> has_ft (y ++ Y)).
    { intros Hv. destruct (Hconv Hv) as [H1|H1]; [apply has_ft_prepend; exact (Hft H1)|apply has_ft_append; [exact (Hmft H1)|exact HsY]]. }
    assert (Hab' : abl_free_t R') by (destruct R' as [|r2 R'']; [exact I|exact (proj2 Hab)]).
    assert (Hszt' : R' <> [] -> forallb szt (y ++ Y) = true).
    { intros Hne. destruct R' as [|r2 R'']; [congruence|]. destruct Hab as [Hfr _]. rewrite forallb_app, HsY, (free_tok_expands r Hrf Hfr y Hy). reflexivity. }
    destruct (IH bs' HB' HS' Hab' acc' (y ++ Y) sa' c Hsh' Hin' Hft' Hszt' H) as [C1 [sc [C2 C3]]]. split; [exact C1|]. exists sc. split; [exact C2|].
    cbn [rev]. rewrite concat_app. cbn [concat]. rewrite app_nil_r, <- app_assoc. exact C3.
Qed.

Lemma abl_free_map : forall R, abl_free (map (fun t => (t, exh_fold t)) R) -> abl_free_t R.
Proof.
  induction R as [|r R IH]; intros H; [exact I|]. destruct R as [|r2 R']; [exact I|]. cbn [map abl_free abl_free_t fst] in *. destruct H as [H1 H2]. split; [exact H1|apply IH; exact H2].
Qed.

Lemma rmapM_snd_map : forall R terms0, rmapM snd (map (fun t => (t, exh_fold t)) R) = Ok terms0 -> Forall2 (fun t r => exh_fold t = Ok r) R terms0.
Proof.
  induction R as [|r R IH]; intros terms0 H; [cbn in H; inversion H; constructor|]. cbn [map rmapM rbind snd] in H.
  destruct (exh_fold r) as [x|] eqn:E; [|discriminate]. cbn [rbind] in H.
  destruct (rmapM snd (map (fun t => (t, exh_fold t)) R)) as [xs|] eqn:Er; [|discriminate]. cbn [rbind] in H. inversion H; subst. constructor; [exact E|apply IH; reflexivity].
Qed.

Lemma forall2_somes : forall (R : list tok) terms0, Forall2 (fun t r => exh_fold t = Ok r) R terms0 -> Forall (fun t => Covered t) R ->
  exists bs, terms0 = map Some bs /\ Forall2 (fun t b => exh_fold t = Ok (Some b)) R bs.
Proof.
  intros R terms0 H. induction H as [|t r R terms Ht _ IH]; intros HS; [exists []; split; [reflexivity|constructor]|].
  inversion HS as [|? ? [Hn _] HS']; subst. destruct (IH HS') as [bs [-> Hbs]]. destruct r as [b|]; [|exfalso; exact (Hn None Ht eq_refl)].
  exists (b :: bs). split; [reflexivity|constructor; assumption].
Qed.

Lemma flat_map_somes : forall {A} (l : list A), flat_map opt_list (map Some l) = l.
Proof. induction l as [|a l IH]; [reflexivity|]. cbn [map flat_map opt_list app]. rewrite IH. reflexivity. Qed.

Lemma zero_shape : shape_members bterm_zero.
Proof. constructor; [exact I|constructor]. Qed.

Lemma leaf_S : forall sp l, Covered (TLeaf sp l).
Proof.
  intros sp l. split; [intros r H; cbn in H; inversion H; discriminate|]. intros b H. cbn in H. inversion H; subst. rewrite depth_leaf_sterm. split.
  - constructor; [destruct l; exact I|constructor].
  - intros x Hx. inversion Hx; subst. exists (sterm_of l). split; [left; reflexivity|]. intros Hv. destruct l; try destruct Hv. exists [], root, []. split; reflexivity.
Qed.

Lemma forall2_in_r : forall {A B} (R : A -> B -> Prop) l l' b, Forall2 R l l' -> In b l' -> exists a, In a l /\ R a b.
Proof.
  intros A B R l l' b H. induction H as [|x y l l' Hxy _ IH]; intros Hin; [contradiction|]. destruct Hin as [<-|Hin].
  - exists x. split; [left; reflexivity|exact Hxy].
  - destruct (IH Hin) as [a [Ha Hr]]. exists a. split; [right; exact Ha|exact Hr].
Qed.
Lemma forall2_in_l : forall {A B} (R : A -> B -> Prop) l l' a, Forall2 R l l' -> In a l -> exists b, In b l' /\ R a b.
Proof.
  intros A B R l l' a H. induction H as [|x y l l' Hxy _ IH]; intros Hin; [contradiction|]. destruct Hin as [<-|Hin].
  - exists y. split; [left; reflexivity|exact Hxy].
  - destruct (IH Hin) as [b [Hb Hr]]. exists b. split; [right; exact Hb|exact Hr].
Qed.

Lemma forall2_rev : forall {A B} (R : A -> B -> Prop) l l', Forall2 R l l' -> Forall2 R (rev l) (rev l').
Proof. intros A B R l l' H. induction H as [|x y l l' Hxy _ IH]; [constructor|]. cbn [rev]. apply Forall2_app; [exact IH|constructor; [exact Hxy|constructor]]. Qed.

Theorem rep_free_S : forall t, shp t = true -> nonempty_branches t = true -> Covered t.
Proof.
  induction t as [sp l|sp bs IH|sp ts IH|sp b lo hi IH] using tok_ind'; intros Hs Hn; try discriminate.
  - apply leaf_S.
  - (* alternation: every branch is taken; the term is the disjunction of the branch terms *)
    cbn [shp nonempty_branches] in Hs, Hn. apply andb_prop in Hn. destruct Hn as [Hnil Hn].
    assert (HSb : Forall (fun b => Covered b) bs).
    { apply Forall_forall. intros b Hb. rewrite Forall_forall in IH. rewrite forallb_forall in Hs, Hn. specialize (Hs b Hb). apply andb_prop in Hs. exact (IH b Hb (proj2 Hs) (Hn b Hb)). }
    assert (Hbr : Forall (fun x : tok * res (option bterm) => is_branch (fst x) = true) (rev (combine bs (map exh_fold bs)))).
    { rewrite combine_map. apply Forall_forall. intros [t e] Hin. apply in_rev in Hin. apply in_map_iff in Hin. destruct Hin as [t0 [E Ht0]]. inversion E; subst. cbn [fst].
      rewrite forallb_forall in Hs. specialize (Hs t Ht0). apply andb_prop in Hs. destruct Hs as [Hc _]. destruct t; try discriminate; reflexivity. }
    assert (Core : forall r, exh_fold (TAlt sp bs) = Ok r -> exists b, r = Some b /\ shape_members b /\
              forall x, Expands (TAlt sp bs) x -> exists m, In m (members b) /\ (vform (snd m) -> has_ft x)).
    { intros r Hr. cbn [exh_fold] in Hr. rewrite (take_exh_alt _ Hbr) in Hr. rewrite combine_map, <- map_rev in Hr.
      destruct (rmapM snd (map (fun t => (t, exh_fold t)) (rev bs))) as [terms0|] eqn:Em; [|discriminate]. cbn [rbind] in Hr.
      pose proof (rmapM_snd_map _ _ Em) as HF.
      assert (HSr : Forall (fun b => Covered b) (rev bs)) by (apply Forall_forall; intros b Hb; rewrite Forall_forall in HSb; apply HSb; apply in_rev; exact Hb).
      destruct (forall2_somes _ _ HF HSr) as [tbs [-> Htbs]]. rewrite flat_map_somes in Hr.
      destruct tbs as [|b1 tbs']. { inversion Htbs as [E1|]. destruct bs as [|b0 bs']; [discriminate|]. cbn [rev] in E1. destruct (rev bs'); discriminate. }
      cbn [rreduce] in Hr. destruct (rfold rdisj b1 tbs') as [c|] eqn:Ef; [|discriminate]. cbn [rmap rbind] in Hr.
      assert (Hmem : forall y, In y (members c) <-> exists bb, In bb (b1 :: tbs') /\ In y (members bb)).
      { intros y. rewrite (rfold_disj_members _ _ _ Ef). split.
        - intros [H1|[bb [Hb Hy]]]; [exists b1; split; [left; reflexivity|exact H1]|exists bb; split; [right; exact Hb|exact Hy]].
        - intros [bb [[<-|Hb] Hy]]; [left; exact Hy|right; exists bb; auto]. }
      assert (Hcshape : shape_members c).
      { unfold shape_members. apply Forall_forall. intros m Hm. apply Hmem in Hm. destruct Hm as [bb [Hbb Hm]].
        destruct (forall2_in_r _ _ _ _ Htbs Hbb) as [t0 [Ht0 He0]]. rewrite Forall_forall in HSr. destruct (HSr t0 Ht0) as [_ H2].
        destruct (H2 bb He0) as [Hsh _]. unfold shape_members in Hsh. rewrite Forall_forall in Hsh. exact (Hsh m Hm). }
      assert (Hccov : forall x, Expands (TAlt sp bs) x -> exists m, In m (members c) /\ (vform (snd m) -> has_ft x)).
      { intros x Hx. inversion Hx as [|sp0 bs0 bb x0 Hin Hxb| |]; subst. apply in_rev in Hin.
        destruct (forall2_in_l _ _ _ _ Htbs Hin) as [tb [Htb He]]. rewrite Forall_forall in HSr. destruct (HSr bb Hin) as [_ H2].
        destruct (H2 tb He) as [_ Hcov]. destruct (Hcov x Hxb) as [m [Hm Hft]]. exists m. split; [apply Hmem; exists tb; auto|exact Hft]. }
      destruct (Nat.eqb (length bs) (length (b1 :: tbs'))).
      - inversion Hr; subst. exists c. auto.
      - destruct (exh_maybe (Some c)).
        + inversion Hr; subst. exists c. auto.
        + inversion Hr; subst. exists bterm_zero. split; [reflexivity|]. split; [exact zero_shape|]. intros x _. exists (TOpen, Inv 0%N). split; [left; reflexivity|intros []]. }
    split.
    + intros r Hr. destruct (Core r Hr) as [b [-> _]]. discriminate.
    + intros b Hb. destruct (Core _ Hb) as [b' [E [H1 H2]]]. inversion E; subst. auto.
  - (* concatenation: the taken suffix, conjoined in reverse *)
    cbn [shp nonempty_branches] in Hs, Hn. apply andb_prop in Hn. destruct Hn as [Hnil Hn].
    assert (HSm : Forall (fun m => Covered m /\ rep_free m = true) ts).
    { apply Forall_forall. intros m Hm. rewrite Forall_forall in IH. rewrite forallb_forall in Hs, Hn. specialize (Hs m Hm). apply andb_prop in Hs. destruct Hs as [_ Hsm].
      split; [exact (IH m Hm Hsm (Hn m Hm))|apply shp_rep_free; exact Hsm]. }
    assert (Core : forall r, exh_fold (TCat sp ts) = Ok r -> exists b, r = Some b /\ shape_members b /\
              forall x, Expands (TCat sp ts) x -> exists m, In m (members b) /\ (vform (snd m) -> has_ft x)).
    { intros r Hr. cbn [exh_fold] in Hr. rewrite combine_map, <- map_rev in Hr.
      set (g := fun t => (t, exh_fold t)) in *.
      destruct (take_exh_shape (map g (rev ts))) as [Habl [rest Hsplit]].
      apply map_eq_app in Hsplit. destruct Hsplit as [R [R2 [Erev [ER ER2]]]].
      rewrite <- ER in Hr, Habl. pose proof (abl_free_map R Habl) as HablT.
      destruct (rmapM snd (map g R)) as [terms0|] eqn:Em; [|discriminate]. cbn [rbind] in Hr.
      pose proof (rmapM_snd_map _ _ Em) as HF.
      assert (HSR : Forall (fun m => Covered m /\ rep_free m = true) R).
      { apply Forall_forall. intros m Hm. rewrite Forall_forall in HSm. apply HSm. apply in_rev. rewrite Erev. apply in_or_app. left. exact Hm. }
      assert (HSR1 : Forall (fun m => Covered m) R) by (eapply Forall_impl; [|exact HSR]; intros a [Ha _]; exact Ha).
      destruct (forall2_somes _ _ HF HSR1) as [tbs [-> Htbs]]. rewrite flat_map_somes in Hr.
      (* the result is the sum or zero *)
      assert (Hzero : exists b, Some bterm_zero = Some b /\ shape_members b /\
                forall x, Expands (TCat sp ts) x -> exists m, In m (members b) /\ (vform (snd m) -> has_ft x)).
      { exists bterm_zero. split; [reflexivity|]. split; [exact zero_shape|]. intros x _. exists (TOpen, Inv 0%N). split; [left; reflexivity|intros []]. }
      destruct R as [|r1 R'].
      - (* nothing taken *) inversion Htbs; subst. cbn [rreduce rbind] in Hr. destruct ts as [|t0 ts']; [discriminate|]. cbn [length Nat.eqb exh_maybe] in Hr. inversion Hr; subst. exact Hzero.
      - inversion Htbs as [|? b1 ? tbs' Hb1 Htbs']; subst. cbn [rreduce] in Hr. destruct (rfold bterm_conj b1 tbs') as [c|] eqn:Ef; [|discriminate]. cbn [rmap rbind] in Hr.
        inversion HSR as [|? ? [[_ HS1] Hrf1] HSR']; subst.
        destruct (HS1 b1 Hb1) as [Hsh1 Hcov1].
        assert (Hsum : shape_members c /\ forall x, Expands (TCat sp ts) x -> exists m, In m (members c) /\ (vform (snd m) -> has_ft x)).
        { assert (Hab' : abl_free_t R') by (destruct R' as [|r2 R'']; [exact I|exact (proj2 HablT)]).
          split.
          - (* shape: any expansion will do; use the structural lemma on an arbitrary run of the fold *)
            clear - Ef Hsh1 Htbs' HSR'. revert b1 c Hsh1 Ef. induction Htbs' as [|r b R' tbs' Hb _ IHt]; intros b1 c Hsh1 Ef.
            + cbn in Ef. inversion Ef; subst. exact Hsh1.
            + cbn [rfold] in Ef. destruct (bterm_conj b1 b) as [acc|] eqn:Ec; [|discriminate]. cbn [rbind] in Ef. inversion HSR' as [|? ? [[_ HSr] _] HSR'']; subst.
              apply (IHt HSR'' acc c); [|exact Ef]. eapply bterm_conj_shape; [exact Ec|exact Hsh1|exact (proj1 (HSr b Hb))].
          - intros x Hx. inversion Hx as [| |sp0 ts0 xs HFx|]; subst.
            assert (HFr : Forall2 Expands (rev ts) (rev xs)) by (apply forall2_rev; exact HFx).
            rewrite Erev in HFr. apply Forall2_app_inv_l in HFr. destruct HFr as [ys [ys2 [HFy [HFy2 Exs]]]].
            inversion HFy as [|? y1 ? ys' Hy1 HFy']; subst.
            destruct (Hcov1 y1 Hy1) as [m1 [Hm1 Hft1]].
            assert (Hszt1 : R' <> [] -> forallb szt y1 = true).
            { intros Hne. destruct R' as [|r2 R'']; [congruence|]. destruct HablT as [Hfr _]. exact (free_tok_expands r1 Hrf1 Hfr y1 Hy1). }
            destruct (fold_covered R' ys' tbs' HFy' Htbs' HSR' Hab' b1 y1 m1 c Hsh1 Hm1 Hft1 Hszt1 Ef) as [_ [sc [Hsc Hftc]]].
            exists sc. split; [exact Hsc|]. intros Hv. specialize (Hftc Hv).
            assert (Ex : concat xs = concat (rev ys2) ++ (concat (rev ys') ++ y1)).
            { rewrite <- (rev_involutive xs), Exs, rev_app_distr, concat_app. f_equal. cbn [rev]. rewrite concat_app. cbn [concat]. rewrite app_nil_r. reflexivity. }
            rewrite Ex. apply has_ft_prepend. exact Hftc. }
        destruct Hsum as [Hcs Hcc].
        destruct (Nat.eqb (length ts) (length (b1 :: tbs'))).
        + inversion Hr; subst. exists c. auto.
        + destruct (exh_maybe (Some c)); inversion Hr; subst; [exists c; auto|exact Hzero]. }
    split.
    + intros r Hr. destruct (Core r Hr) as [b [-> _]]. discriminate.
    + intros b Hb. destruct (Core _ Hb) as [b' [E [H1 H2]]]. inversion E; subst. auto.
Qed.

(* ---- the verdict ------------------------------------------------------------------------------------------------------------------------------------- *)
Lemma certainty_always : forall l a, fold_left when_certainty l a = Always -> a = Always /\ Forall (fun w => w = Always) l.
Proof.
  induction l as [|b l IH]; intros a H; [split; [exact H|constructor]|]. cbn [fold_left] in H. destruct (IH _ H) as [H1 H2].
  destruct a, b; try discriminate. split; [reflexivity|constructor; [reflexivity|exact H2]].
Qed.

Lemma always_members : forall b, bterm_is_exhaustive b = Always -> forall m, In m (members b) -> nvar_is_exhaustive (snd m) = true.
Proof.
  intros [a|ss] H m Hm; cbn [bterm_is_exhaustive members] in *.
  - destruct Hm as [<-|[]]. destruct (nvar_is_exhaustive (snd a)); [reflexivity|discriminate].
  - destruct ss as [|a ss']; [contradiction|]. cbn [map reduce_pure] in H. destruct (certainty_always _ _ H) as [Ha Hall].
    destruct Hm as [<-|Hm].
    + destruct (nvar_is_exhaustive (snd a)); [reflexivity|discriminate].
    + rewrite Forall_forall in Hall. assert (Hin : In (when_of_bool (nvar_is_exhaustive (snd m))) (map (fun a0 => when_of_bool (nvar_is_exhaustive (snd a0))) ss')) by (apply in_map_iff; exists m; auto).
      specialize (Hall _ Hin). destruct (nvar_is_exhaustive (snd m)); [reflexivity|discriminate].
Qed.

Lemma exhaustive_vform : forall v, shape v -> nvar_is_exhaustive v = true -> vform v.
Proof. intros [n|[[k|k|l e]|]] Hs H; try discriminate; try destruct Hs; exact I. Qed.

(* no expansion ends with a separator *)
Lemma no_trailing_sep : forall t, nonempty_branches t = true -> rep_free t = true -> may_end_sep t = false ->
  forall x, Expands t x -> last_opt x <> Some LSep.
Proof.
  induction t as [sp l|sp bs IH|sp ts IH|sp b lo hi IH] using tok_ind'; intros Hn Hr Hm x Hx; try discriminate.
  - inversion Hx; subst. destruct l; discriminate.
  - inversion Hx as [|sp0 bs0 bb x0 Hin Hxb| |]; subst. cbn [nonempty_branches rep_free may_end_sep] in *. apply andb_prop in Hn. destruct Hn as [_ Hn].
    rewrite forallb_forall in Hn, Hr. rewrite Forall_forall in IH. apply (IH bb Hin (Hn bb Hin) (Hr bb Hin)); [|exact Hxb].
    destruct (may_end_sep bb) eqn:E; [|reflexivity]. assert (existsb may_end_sep bs = true) by (apply existsb_exists; eauto). congruence.
  - inversion Hx as [| |sp0 ts0 xs HF|]; subst. cbn [nonempty_branches rep_free may_end_sep] in *. apply andb_prop in Hn. destruct Hn as [Hnil Hn]. clear Hx Hnil.
    induction HF as [|t0 x0 ts' xs' Hx0 HF' IHF]; [discriminate|]. inversion IH as [|? ? I0 I']; subst.
    cbn [forallb] in Hn, Hr. apply andb_prop in Hn, Hr. destruct Hn as [Hn0 Hn']. destruct Hr as [Hr0 Hr']. cbn [concat].
    destruct ts' as [|t1 ts''].
    + inversion HF'; subst. cbn [concat]. rewrite app_nil_r. cbn [forallb] in Hm. apply orb_false_iff in Hm. exact (I0 Hn0 Hr0 (proj1 Hm) x0 Hx0).
    + assert (Hf : forallb fnull (t1 :: ts'') = false).
      { cbn [forallb] in *. apply andb_prop in Hn', Hr'. rewrite (rep_free_fnull t1 (proj1 Hn') (proj1 Hr')). reflexivity. }
      rewrite Hf in Hm. inversion HF' as [|? x1 ? xs'' Hx1 HF'']; subst.
      assert (Nrest : concat (x1 :: xs'') <> []).
      { cbn [concat]. cbn [forallb] in Hn', Hr'. apply andb_prop in Hn', Hr'. pose proof (expands_nonempty t1 x1 (proj1 Hn') (proj1 Hr') Hx1). destruct x1; [congruence|discriminate]. }
      rewrite ExhaustFacts.last_opt_app by exact Nrest. exact (IHF I' Hn' Hr' Hm).
Qed.

(* C09: for every glob that builds and has no repetition, an `Always` verdict is sound - outside the known class trailing_boundary *)
Theorem built_rep_free_always_sound : forall orbit e t r p z,
  build e = BuildOk t r -> rep_free t = true -> is_exhaustive t = Ok Always -> may_end_sep t = false -> nosep z = true ->
  Lang orbit t p -> Lang orbit t (p ++ SEP :: z).
Proof.
  intros orbit e t r p z Hb Hrf He Hms Hz [x [Hx Hm]].
  pose proof (built_no_adjacent_boundaries e t r Hb Hrf x Hx) as Hc.
  pose proof (built_no_adjacent_zoms e t r Hb Hrf x Hx) as Hzc.
  pose proof (BuiltNonempty.built_nonempty_branches e t r Hb) as Hne.
  assert (Hshp : shp t = true).
  { unfold build in Hb. destruct (parse e) as [t0| |] eqn:Ep; try discriminate. destruct (check t0) as [[[k sp]|]|s]; try discriminate.
    destruct (compile_ok (encode t0)); [|discriminate]. inversion Hb; subst. apply sh_shp; [eapply parse_sh; exact Ep|exact Hrf]. }
  destruct (rep_free_S t Hshp Hne) as [_ HS]. unfold is_exhaustive in He. destruct (exh_fold t) as [[b|]|] eqn:Ef; try discriminate. cbn [rbind] in He. inversion He as [Hal].
  destruct (HS b eq_refl) as [Hsh Hcov]. destruct (Hcov x Hx) as [m [Hmem Hft]].
  unfold shape_members in Hsh. rewrite Forall_forall in Hsh.
  pose proof (Hft (exhaustive_vform _ (Hsh m Hmem) (always_members b Hal m Hmem))) as Hxft.
  exists x. split; [exact Hx|]. apply open_tail_l_extends; [|exact Hz|exact Hm].
  apply ft_open_tail; [exact Hxft|exact Hc|exact Hzc|]. exact (no_trailing_sep t Hne Hrf Hms x Hx).
Qed.
