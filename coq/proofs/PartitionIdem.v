(* PartitionIdem.v -- C08, second sentence: partitioning the postfix of a partition yields an empty prefix and the same postfix.
   The prefix loop returns either everything before a variant boundary token (a tree wildcard) or everything up to the last
   boundary before the first variant token; what remains begins with invariant non-boundary tokens followed by a variant
   token, or with the variant boundary itself: partitioned again, nothing is popped. *)
From Coq Require Import Arith Lia.
From WaxModel Require Import Base Token Regex Spec Encode Variance Fold Rule Query.
From WaxProofs Require Import AlgebraFacts SpecFacts OwnedFacts.
From WaxProofs Require Import PartitionLang.

Section PartitionIdem.
Variable has_casing : char -> bool.
Notation text_variance := (text_variance has_casing).
Notation prefix_loop := (prefix_loop has_casing).
Notation invariant_text_prefix := (invariant_text_prefix has_casing).
Notation partition := (partition has_casing).

Definition invt (t : tok) : Prop := exists x, text_variance t = Ok (Inv x).
Definition vart (t : tok) : Prop := exists b, text_variance t = Ok (Var b).
Definition inv_nb (t : tok) : Prop := invt t /\ is_boundary t = false.

(* what remains after the popped tokens: invariant non-boundary tokens, then a variant token; a variant boundary comes first *)
Definition clean (l : list tok) : Prop :=
  exists nb v rest, l = nb ++ v :: rest /\ Forall inv_nb nb /\ vart v /\ (is_boundary v = true -> nb = []).

Definition goodr (all : list tok) (r : option (N * str)) : Prop :=
  match r with
  | None => True
  | Some (i, _) => (S (N.to_nat i) <= length all)%nat /\ (S (N.to_nat i) = length all \/ clean (skipn (S (N.to_nat i)) all))
  end.

Definition chk_inv (done : list tok) (chk : option (N * str)) : Prop :=
  match chk with
  | None => True
  | Some (i, _) => exists d1 nb, done = d1 ++ nb /\ length d1 = S (N.to_nat i) /\ Forall inv_nb nb
  end.

Lemma skipn_len_app : forall {A} (a b : list A), skipn (length a) (a ++ b) = b.
Proof. intros A a b. rewrite skipn_app, Nat.sub_diag, skipn_all. reflexivity. Qed.

Lemma loop_goodr : forall ts done n head chk r,
  n = N.of_nat (length done) ->
  (match head with None => True | Some (i, _) => S (N.to_nat i) = length done end) ->
  chk_inv done chk -> prefix_loop n ts head chk = Ok r -> goodr (done ++ ts) r.
Proof.
  induction ts as [|t ts IH]; intros done n head chk r Hn Hh Hc H.
  - cbn [Query.prefix_loop] in H. inversion H; subst r. rewrite app_nil_r. destruct head as [[i s]|]; [|exact I]. split; [lia|left; exact Hh].
  - cbn [Query.prefix_loop] in H. destruct (text_variance t) as [v|] eqn:Ev; [|discriminate]. cbn [rbind] in H. destruct v as [txt|b].
    + replace (done ++ t :: ts) with ((done ++ [t]) ++ ts) by (rewrite <- app_assoc; reflexivity).
      eapply (IH (done ++ [t]) (n + 1)%N); [rewrite app_length; cbn [length]; lia| | |exact H].
      * subst n. rewrite Nat2N.id, app_length. cbn [length]. lia.
      * destruct (is_boundary t) eqn:Eb.
        -- exists (done ++ [t]), []. split; [rewrite app_nil_r; reflexivity|]. split; [subst n; rewrite Nat2N.id, app_length; cbn [length]; lia|constructor].
        -- destruct chk as [[i s]|]; [|exact I]. destruct Hc as [d1 [nb [-> [Hl Hnb]]]]. exists d1, (nb ++ [t]). split; [rewrite app_assoc; reflexivity|].
           split; [exact Hl|]. apply Forall_app. split; [exact Hnb|]. constructor; [|constructor]. split; [exists txt; exact Ev|exact Eb].
    + inversion H; subst r. destruct (is_boundary t) eqn:Eb.
      * destruct head as [[i s]|]; [|exact I]. split; [rewrite app_length; cbn [length]; lia|]. right. rewrite Hh, skipn_len_app.
        exists [], t, ts. split; [reflexivity|]. split; [constructor|]. split; [exists b; exact Ev|reflexivity].
      * destruct chk as [[i s]|]; [|exact I]. destruct Hc as [d1 [nb [-> [Hl Hnb]]]]. split; [rewrite !app_length; lia|]. right.
        rewrite <- Hl, <- app_assoc, skipn_len_app. exists nb, t, ts. split; [reflexivity|]. split; [exact Hnb|]. split; [exists b; exact Ev|]. rewrite Eb. discriminate.
Qed.

(* on what remains the loop pops nothing *)
Lemma loop_clean : forall nb v rest n head, Forall inv_nb nb -> vart v -> (is_boundary v = true -> nb = [] /\ head = None) ->
  prefix_loop n (nb ++ v :: rest) head None = Ok None.
Proof.
  induction nb as [|t nb IH]; intros v rest n head Hnb [b Hv] Hb.
  - cbn [app Query.prefix_loop]. rewrite Hv. cbn [rbind]. destruct (is_boundary v) eqn:Eb; [|reflexivity]. destruct (Hb eq_refl) as [_ ->]. reflexivity.
  - inversion Hnb as [|? ? [[x Hx] Hnbt] Hnb']; subst. cbn [app Query.prefix_loop]. rewrite Hx. cbn [rbind]. rewrite Hnbt.
    apply IH; [exact Hnb'|exists b; exact Hv|]. intros Eb. destruct (Hb Eb) as [Hnil _]. discriminate.
Qed.

Lemma text_variance_respan : forall g t, text_variance (respan g t) = text_variance t.
Proof. intros g t. unfold Fold.text_variance. rewrite text_fold_respan. reflexivity. Qed.
Lemma is_boundary_respan : forall g t, is_boundary (respan g t) = is_boundary t.
Proof. intros g [sp l| | |]; reflexivity. Qed.

Lemma loop_respan : forall g ts n head chk, prefix_loop n (map (respan g) ts) head chk = prefix_loop n ts head chk.
Proof.
  induction ts as [|t ts IH]; intros n head chk; [reflexivity|]. cbn [map Query.prefix_loop]. rewrite text_variance_respan, is_boundary_respan.
  destruct (text_variance t) as [[txt|b]|]; cbn [rbind]; [apply IH|reflexivity|reflexivity].
Qed.

Lemma itp_respan : forall g sp ts, invariant_text_prefix (respan g (TCat sp ts)) = invariant_text_prefix (TCat sp ts).
Proof.
  intros g sp ts. unfold Query.invariant_text_prefix. cbn [respan concatenation]. rewrite loop_respan.
  destruct ts as [|t0 ts']; [reflexivity|]. cbn [map]. rewrite has_root_respan, text_variance_respan. reflexivity.
Qed.

Lemma unroot_props : forall t, text_variance (fst (unroot t)) = text_variance t /\ is_boundary (fst (unroot t)) = is_boundary t.
Proof. intros [[a0 b0] l| | |]; try (split; reflexivity). destruct l; try (split; reflexivity). destruct root; split; reflexivity. Qed.

(* C08: the postfix of a partition has no invariant prefix left *)
Theorem postfix_has_no_prefix : forall e sp ts text post e',
  bounds_list ts -> partition e (TCat sp ts) = Ok (PartSome text post e') ->
  (match post with TCat _ (t0 :: _) => has_root t0 <> Always | _ => True end) ->
  invariant_text_prefix post = Ok (0%N, []).
Proof.
  intros e sp ts text post e' Hb H Hroot.
  destruct (partition_shape has_casing _ _ _ _ _ _ Hb H) as [n [first [rest [g [Hi [Hs [Hlen ->]]]]]]].
  rewrite itp_respan. cbn [respan] in Hroot. cbn [map] in Hroot. rewrite has_root_respan in Hroot.
  unfold Query.invariant_text_prefix in *. cbn [concatenation] in *.
  assert (Hrv : match has_root (fst (unroot first)) with
                | Always => do v <- text_variance (fst (unroot first)); Ok (negb (is_inv v))
                | _ => Ok false end = Ok false) by (destruct (has_root (fst (unroot first))); try reflexivity; congruence).
  rewrite Hrv. cbn [rbind].
  assert (Hts : ts = firstn (N.to_nat n) ts ++ first :: rest) by (rewrite <- Hs; symmetry; apply firstn_skipn).
  destruct (unroot_props first) as [Uv Ub].
  (* what remains is clean *)
  assert (Hclean : clean (first :: rest) \/ (n = 0%N /\ prefix_loop 0 (first :: rest) None None = Ok None)).
  { destruct ts as [|t0 ts0]; [destruct (N.to_nat n); discriminate|].
    match type of Hi with rbind ?X _ = _ => destruct X as [rv|] eqn:Erv end; [|discriminate]. cbn [rbind] in Hi.
    destruct rv.
    - (* rooted and variant: nothing popped; the first token is variant *)
      inversion Hi; subst n text. cbn [N.to_nat skipn] in Hs. inversion Hs; subst first rest. left.
      destruct (has_root t0); try discriminate. destruct (text_variance t0) as [v|] eqn:Ev; [|discriminate]. cbn [rbind] in Erv. inversion Erv as [Hv].
      destruct v as [x|b]; [discriminate|]. exists [], t0, ts0. split; [reflexivity|]. split; [constructor|]. split; [exists b; exact Ev|reflexivity].
    - destruct (prefix_loop 0 (t0 :: ts0) None None) as [r|] eqn:El; [|discriminate]. cbn [rbind] in Hi.
      pose proof (loop_goodr (t0 :: ts0) [] 0%N None None r eq_refl I I El) as Hg. cbn [app] in Hg.
      destruct r as [[i s]|].
      + inversion Hi; subst n text. destruct Hg as [Hle [Heq|Hc]]; [lia|]. left. replace (N.to_nat (i + 1)) with (S (N.to_nat i)) in Hs by lia. rewrite Hs in Hc. exact Hc.
      + inversion Hi; subst n text. cbn [N.to_nat skipn] in Hs. inversion Hs; subst first rest. right. split; [reflexivity|exact El]. }
  assert (Hloop : prefix_loop 0 (fst (unroot first) :: rest) None None = Ok None).
  { destruct Hclean as [[nb [v [rest' [Hl [Hnb [Hv Hbv]]]]]]|[_ Hl]].
    - destruct nb as [|t1 nb'].
      + cbn [app] in Hl. inversion Hl; subst v rest'. apply (loop_clean [] (fst (unroot first)) rest 0%N None); [constructor| |auto].
        destruct Hv as [b Hv]. exists b. rewrite Uv. exact Hv.
      + cbn [app] in Hl. inversion Hl; subst t1 rest. inversion Hnb as [|? ? [[x Hx] Hnbt] Hnb']; subst.
        assert (Hu : fst (unroot first) = first) by (destruct first as [[a b] l| | |]; try reflexivity; destruct l; try reflexivity; discriminate).
        rewrite Hu. change (first :: nb' ++ v :: rest') with ((first :: nb') ++ v :: rest'). apply loop_clean; [exact Hnb|exact Hv|].
        intros Eb. specialize (Hbv Eb). discriminate.
    - cbn [Query.prefix_loop] in Hl |- *. rewrite Uv, Ub. exact Hl. }
  rewrite Hloop. reflexivity.
Qed.

Lemma respan_id : forall g t, (forall sp, g sp = sp) -> respan g t = t.
Proof.
  intros g t Hg. induction t as [sp l|sp bs IH|sp ts IH|sp b lo hi IH] using tok_ind'; cbn [respan]; rewrite Hg.
  - reflexivity.
  - f_equal. induction IH as [|x l Hx _ IHl]; [reflexivity|]. cbn [map]. rewrite Hx, IHl. reflexivity.
  - f_equal. induction IH as [|x l Hx _ IHl]; [reflexivity|]. cbn [map]. rewrite Hx, IHl. reflexivity.
  - rewrite IH. reflexivity.
Qed.

Lemma bounds_respan : forall g t, tok_bounds_ok t -> tok_bounds_ok (respan g t).
Proof.
  intros g. induction t as [sp l|sp bs IH|sp ts IH|sp b lo hi IH] using tok_ind'; intros H; cbn [respan tok_bounds_ok] in *.
  - exact I.
  - induction IH as [|x l Hx _ IHl]; [exact I|]. destruct H as [H1 H2]. cbn [map]. split; [apply Hx; exact H1|apply IHl; exact H2].
  - induction IH as [|x l Hx _ IHl]; [exact I|]. destruct H as [H1 H2]. cbn [map]. split; [apply Hx; exact H1|apply IHl; exact H2].
  - destruct H as [H1 H2]. split; [apply IH; exact H1|exact H2].
Qed.

Lemma drop_bytes_0 : forall s, drop_bytes s 0 = Some s.
Proof. intros [|c r]; reflexivity. Qed.

(* C08: partitioned again, the postfix yields an empty prefix and itself *)
Theorem partition_idempotent : forall e sp ts text post e',
  bounds_list ts -> partition e (TCat sp ts) = Ok (PartSome text post e') ->
  (match post with TCat _ (t0 :: _) => has_root t0 <> Always | _ => True end) ->
  partition e' post = Ok (PartSome [] post e').
Proof.
  intros e sp ts text post e' Hb H Hroot. pose proof (postfix_has_no_prefix _ _ _ _ _ _ Hb H Hroot) as Hi.
  destruct (partition_shape has_casing _ _ _ _ _ _ Hb H) as [n [first [rest [g [_ [Hs [Hlen Hp]]]]]]].
  assert (Hbp : tok_bounds_ok post).
  { subst post. apply bounds_respan. cbn [tok_bounds_ok]. rewrite <- (firstn_skipn (N.to_nat n) ts), Hs in Hb. apply bounds_list_app_r in Hb.
    destruct Hb as [Hf Hr]. split; [|exact Hr]. destruct first as [[a b] l| | |]; try exact Hf. destruct l as [ci s| |ng ar| |z|rt]; try exact I. destruct rt; exact I. }
  subst post. cbn [respan] in *. cbn [map] in *. unfold Query.partition. rewrite Hi. cbn [rbind length].
  destruct (N.leb_spec (N.of_nat (S (length (map (respan g) rest)))) 0) as [Hle|_]; [lia|].
  cbn [N.to_nat firstn skipn].
  assert (Hu : unroot (respan g (fst (unroot first))) = (respan g (fst (unroot first)), 0%N)).
  { destruct first as [[a b] l| | |]; try reflexivity. destruct l as [ci s| |ng ar| |z|rt]; try destruct rt; cbn [unroot fst respan];
      match goal with |- context [g ?x] => destruct (g x) end; reflexivity. }
  rewrite Hu. cbn [sum_spans]. rewrite N.add_0_r.
  match goal with |- rbind (fold_map ?f ?p) _ = _ => rewrite (fold_map_respan f p Hbp); cbn [rbind]; rewrite (respan_id f p) end.
  - rewrite drop_bytes_0. reflexivity.
  - intros [a b]. cbn [fst snd]. rewrite N.sub_0_r. reflexivity.
Qed.

End PartitionIdem.
