(* TextFacts.v -- C11: invariant text is the only text of the documented language. *)
From Coq Require Import Arith Lia.
From WaxModel Require Import Base Token Regex Spec Encode Variance Fold.
From WaxProofs Require Import SpecFacts EncodeLang.

Section TextFacts.
Variable orbit : char -> list char.
Variable has_casing : char -> bool.
(* the one assumption about the two tables (checked over all code points on every run by the tie): a character that
   the code considers caseless is only folded to itself *)
Hypothesis caseless_orbit : forall c d, has_casing c = false -> In d (orbit c) -> d = c.

Notation FlatMatch := (Spec.FlatMatch orbit).

(* ---- text algebra -------------------------------------------------------------------------------------------- *)
Lemma str_eqb_eq : forall a b, str_eqb a b = true -> a = b.
Proof.
  induction a as [|x a IH]; intros [|y b] H; try discriminate; [reflexivity|].
  cbn [str_eqb] in H. apply andb_prop in H. destruct H as [Hx Hr]. apply N.eqb_eq in Hx. subst. f_equal. apply IH. exact Hr.
Qed.

Lemma text_eqb_string : forall a b, text_eqb a b = true -> text_to_string a = text_to_string b.
Proof.
  induction a as [|x a IH]; intros [|y b] H; try discriminate; [reflexivity|].
  cbn [text_eqb] in H. apply andb_prop in H. destruct H as [Hf Hr].
  unfold text_to_string. cbn [flat_map]. fold (text_to_string a) (text_to_string b). rewrite (IH b Hr). f_equal.
  destruct x, y; cbn [frag_eqb] in Hf; try discriminate; cbn [frag_str]; apply str_eqb_eq; exact Hf.
Qed.

Lemma text_to_string_app : forall a b, text_to_string (a ++ b) = text_to_string a ++ text_to_string b.
Proof. intros. unfold text_to_string. apply flat_map_app. Qed.

Lemma frag_conj_string : forall x y, text_to_string (frag_conj x y) = frag_str x ++ frag_str y.
Proof. intros [x|x] [y|y]; cbn; rewrite ?app_nil_r; reflexivity. Qed.

Lemma text_conj_string : forall a b, text_to_string (text_conj a b) = text_to_string a ++ text_to_string b.
Proof.
  intros a b. unfold text_conj. destruct (rev a) as [|e ra] eqn:Ea.
  - assert (a = []) by (rewrite <- (rev_involutive a), Ea; reflexivity). subst. destruct b; reflexivity.
  - assert (Ha : a = rev ra ++ [e]) by (rewrite <- (rev_involutive a), Ea; reflexivity).
    destruct b as [|s b'].
    + rewrite Ha. rewrite app_nil_r. reflexivity.
    + rewrite Ha. rewrite !text_to_string_app. rewrite frag_conj_string.
      unfold text_to_string at 3 4. cbn [flat_map]. rewrite app_nil_r. rewrite <- !app_assoc. reflexivity.
Qed.

Lemma repeat_list_string : forall a n, text_to_string (repeat_list a n) = concat (repeat (text_to_string a) n).
Proof.
  induction n as [|n IH]; [reflexivity|]. cbn [repeat_list repeat concat]. rewrite text_to_string_app, IH. reflexivity.
Qed.

(* ---- leaves --------------------------------------------------------------------------------------------------- *)
Lemma lit_sem_caseless : forall s w, existsb has_casing s = false -> lit_sem orbit true s w -> w = s.
Proof.
  intros s w Hc H. induction H as [|c d s w Hm _ IH]; [reflexivity|].
  cbn [existsb] in Hc. apply orb_false_iff in Hc. destruct Hc as [Hc Hs].
  rewrite (IH Hs). f_equal. unfold lit_char_match in Hm. apply orb_prop in Hm. destruct Hm as [Hm|Hm].
  - apply N.eqb_eq in Hm. auto.
  - cbn [andb] in Hm. unfold mem in Hm. apply existsb_exists in Hm. destruct Hm as [x [Hin Hx]]. apply N.eqb_eq in Hx. subst x.
    apply (caseless_orbit c d Hc Hin).
Qed.

Lemma tvar_disj_inv : forall l r t, tvar_disj l r = Inv t -> l = Inv t /\ tvar_eqb l r = true.
Proof.
  intros l r t H. unfold tvar_disj in H. destruct (tvar_eqb l r) eqn:E; [subst; auto|].
  destruct l as [a|[[]|]], r as [b|[[]|]]; discriminate.
Qed.

Lemma fold_disj_inv : forall vs v t, fold_left tvar_disj vs v = Inv t -> v = Inv t /\ Forall (fun u => tvar_eqb (Inv t) u = true) vs.
Proof.
  induction vs as [|u vs IH]; intros v t H; cbn [fold_left] in H; [split; [exact H|constructor]|].
  apply IH in H. destruct H as [H HF]. apply tvar_disj_inv in H. destruct H as [-> He]. split; [reflexivity|].
  constructor; assumption.
Qed.

Lemma reduce_disj_inv : forall vs t, reduce_pure tvar_disj vs = Some (Inv t) -> Forall (fun u => tvar_eqb (Inv t) u = true) vs.
Proof.
  intros [|v vs] t H; [discriminate|]. cbn [reduce_pure] in H. injection H as H1.
  destruct (fold_disj_inv vs v t H1) as [Hv HF]. subst v. constructor; [|exact HF]. cbn [tvar_eqb].
  clear. induction t as [|f t IH]; [reflexivity|]. cbn [text_eqb]. rewrite IH, andb_true_r. destruct f; cbn [frag_eqb];
    (induction s as [|c s IHs]; [reflexivity|cbn [str_eqb]; rewrite N.eqb_refl; exact IHs]).
Qed.

Lemma tvar_eqb_inv_string : forall t u, tvar_eqb (Inv t) u = true -> exists t', u = Inv t' /\ text_to_string t' = text_to_string t.
Proof.
  intros t [t'|b] H; [|destruct b as [[]|]; discriminate]. exists t'. split; [reflexivity|].
  cbn [tvar_eqb] in H. symmetry. apply text_eqb_string. exact H.
Qed.

(* a class whose text is invariant lists one character only *)
Lemma class_text_inv : forall a t c, reduce_pure tvar_disj (map arch_text a) = Some (Inv t) -> existsb (arch_in c) a = true ->
  text_to_string t = [c].
Proof.
  intros a t c H Hin. apply reduce_disj_inv in H. apply existsb_exists in Hin. destruct Hin as [x [Hx Hc]].
  rewrite Forall_forall in H. specialize (H (arch_text x) (in_map arch_text a x Hx)).
  apply tvar_eqb_inv_string in H. destruct H as [t' [Ht' Hs]]. rewrite <- Hs.
  destruct x as [d|lo hi]; cbn [arch_text arch_in] in *.
  - inversion Ht'; subst. apply N.eqb_eq in Hc. subst. reflexivity.
  - destruct (N.eqb_spec lo hi) as [->|]; [|discriminate]. inversion Ht'; subst.
    apply andb_prop in Hc. destruct Hc as [H1 H2]. apply N.leb_le in H1. apply N.leb_le in H2.
    assert (c = hi) by lia. subst. reflexivity.
Qed.

Lemma leaf_text_unique : forall l0 t f l w,
  text_leaf has_casing l0 = Inv t -> leaf_piece orbit f l l0 w -> w = text_to_string t.
Proof.
  intros l0 t f l w Ht Hp. destruct l0; cbn [text_leaf leaf_piece] in *.
  - destruct (ci && existsb has_casing s) eqn:E; [discriminate|]. inversion Ht; subst. cbn. rewrite app_nil_r.
    destruct ci; [|eapply lit_sem_exact; exact Hp]. cbn [andb] in E. apply lit_sem_caseless; assumption.
  - inversion Ht; subst. reflexivity.
  - destruct neg; [discriminate|]. destruct Hp as [c [-> Hc]]. unfold class_match in Hc. apply andb_prop in Hc.
    destruct Hc as [_ Hc]. cbn [xorb] in Hc.
    destruct (reduce_pure tvar_disj (map arch_text a)) as [v|] eqn:Er.
    + subst v. symmetry. apply (class_text_inv a t c Er). destruct (existsb (arch_in c) a); [reflexivity|discriminate].
    + destruct a; [cbn in Hc; discriminate|discriminate].
  - discriminate.
  - discriminate.
  - discriminate.
Qed.

(* ---- folds over lists of terms ---------------------------------------------------------------------------------- *)
Lemma rmapM_ok_in : forall {A B} (f : A -> res B) l rs a,
  rmapM f l = Ok rs -> In a l -> exists r, f a = Ok r /\ In r rs.
Proof.
  induction l as [|x l IH]; intros rs a H Hin; [contradiction|].
  cbn [rmapM rbind] in H. destruct (f x) as [b|] eqn:Ef; [|discriminate]. cbn [rbind] in H.
  destruct (rmapM f l) as [bs|] eqn:El; [|discriminate]. inversion H; subst.
  destruct Hin as [<-|Hin]; [exists b; split; [exact Ef|left; reflexivity]|].
  destruct (IH bs a eq_refl Hin) as [r [Hr Hi]]. exists r. split; [exact Hr|right; exact Hi].
Qed.

Lemma rmapM_ok_forall2 : forall {A B} (f : A -> res B) l rs, rmapM f l = Ok rs -> Forall2 (fun a r => f a = Ok r) l rs.
Proof.
  induction l as [|x l IH]; intros rs H.
  - inversion H; subst. constructor.
  - cbn [rmapM rbind] in H. destruct (f x) as [b|] eqn:Ef; [|discriminate]. cbn [rbind] in H.
    destruct (rmapM f l) as [bs|] eqn:El; [|discriminate]. inversion H; subst. constructor; [exact Ef|apply IH; reflexivity].
Qed.

Lemma tvar_conj_inv : forall l r t, tvar_conj l r = Inv t -> exists a b, l = Inv a /\ r = Inv b /\ t = text_conj a b.
Proof.
  intros [a|[[]|]] [b|[[]|]] t H; cbn in H; try discriminate. inversion H. eauto.
Qed.

Lemma fold_conj_inv : forall vs a t, fold_left tvar_conj vs (Inv a) = Inv t ->
  exists ts, vs = map (fun x => Inv x) ts /\ text_to_string t = text_to_string a ++ concat (map text_to_string ts).
Proof.
  induction vs as [|v vs IH]; intros a t H; cbn [fold_left] in H.
  - inversion H; subst. exists []. split; [reflexivity|]. cbn. rewrite app_nil_r. reflexivity.
  - destruct (tvar_conj (Inv a) v) as [c|b] eqn:E.
    + apply tvar_conj_inv in E. destruct E as [a' [b' [Ha [-> ->]]]]. inversion Ha; subst a'.
      destruct (IH _ _ H) as [ts [-> Hs]]. exists (b' :: ts). split; [reflexivity|].
      rewrite Hs, text_conj_string. cbn [map concat]. rewrite <- app_assoc. reflexivity.
    + exfalso. revert H. clear. revert b. induction vs as [|u vs IH]; intros b H; cbn [fold_left] in H; [discriminate|].
      destruct b as [[]|], u as [u|[[]|]]; cbn [tvar_conj] in H; eapply IH; exact H.
Qed.

(* the possible repetition counts of an invariant repetition *)
Lemma rep_range_inv : forall lo hi n k, rep_range lo hi = Inv n -> in_bounds k lo hi -> N.of_nat k = n.
Proof.
  intros lo hi n k H [Hlo Hhi]. unfold rep_range, from_closed_open in H. destruct hi as [h|].
  - destruct (N.ltb_spec h lo) as [Hlt|Hge].
    + (* reordered bounds cannot hold any count *) lia.
    + assert (Hm : forall (X : nrange), match lo, Some h with 0%N, None => Var Unbounded | _, _ => X end = X) by (intros; destruct lo; reflexivity).
      rewrite Hm in H. clear Hm. unfold try_lower_upper in H.
      destruct (N.eqb_spec lo 0), (N.eqb_spec h 0); cbn [andb] in H; try (inversion H; subst; lia); try discriminate.
      destruct (N.ltb_spec lo h); [discriminate|]. inversion H; subst. lia.
  - destruct lo; cbn in H; discriminate.
Qed.

Lemma flatmatchs_all : forall (P : list leaf -> str -> Prop) xs f l w,
  (forall x f' l' w', In x xs -> FlatMatch f' l' x w' -> P x w') ->
  FlatMatchs orbit f l xs w -> exists ws, w = concat ws /\ Forall2 P xs ws.
Proof.
  intros P. induction xs as [|x xs IH]; intros f l w HP H.
  - cbn [FlatMatchs] in H. subst. exists []. split; [reflexivity|constructor].
  - cbn [FlatMatchs] in H. destruct H as [u [v [-> [Hu Hv]]]].
    destruct (IH _ _ _ (fun x0 f' l' w' Hin => HP x0 f' l' w' (or_intror Hin)) Hv) as [ws [-> HF]].
    exists (u :: ws). split; [reflexivity|]. constructor; [|exact HF]. eapply HP; [left; reflexivity|exact Hu].
Qed.

Definition unique_text (t : tok) : Prop :=
  forall txt, text_fold has_casing t = Ok (Some (Inv txt)) ->
  forall x f l w, Expands t x -> FlatMatch f l x w -> w = text_to_string txt.

(* every non-empty tree has a term *)
Lemma text_fold_some : forall t, nonempty_branches t = true -> forall r, text_fold has_casing t = Ok r -> r <> None.
Proof.
  induction t as [sp l0|sp bs IH|sp ts IH|sp b lo hi IH] using tok_ind'; intros Hne r Hr.
  - cbn in Hr. inversion Hr. discriminate.
  - cbn [nonempty_branches] in Hne. apply andb_prop in Hne. destruct Hne as [Hn Hall].
    destruct bs as [|b0 bs']; [discriminate|]. cbn [text_fold rmapM rbind] in Hr.
    destruct (text_fold has_casing b0) as [r0|] eqn:E0; [|discriminate]. cbn [rbind] in Hr.
    destruct (rmapM (text_fold has_casing) bs') as [rs|]; [|discriminate]. cbn [rbind] in Hr. inversion Hr; subst.
    inversion IH as [|? ? IH0 _]; subst. cbn [forallb] in Hall. apply andb_prop in Hall. destruct Hall as [H0 _].
    destruct r0 as [v|]; [|exfalso; apply (IH0 H0 None E0); reflexivity]. cbn [flat_map opt_list app reduce_pure]. discriminate.
  - cbn [nonempty_branches] in Hne. apply andb_prop in Hne. destruct Hne as [Hn Hall].
    destruct ts as [|t0 ts']; [discriminate|]. cbn [text_fold rmapM rbind] in Hr.
    destruct (text_fold has_casing t0) as [r0|] eqn:E0; [|discriminate]. cbn [rbind] in Hr.
    destruct (rmapM (text_fold has_casing) ts') as [rs|]; [|discriminate]. cbn [rbind] in Hr. inversion Hr; subst.
    inversion IH as [|? ? IH0 _]; subst. cbn [forallb] in Hall. apply andb_prop in Hall. destruct Hall as [H0 _].
    destruct r0 as [v|]; [|exfalso; apply (IH0 H0 None E0); reflexivity]. cbn [flat_map opt_list app reduce_pure]. discriminate.
  - cbn [nonempty_branches] in Hne. apply andb_prop in Hne. destruct Hne as [Hn _].
    cbn [text_fold rbind] in Hr. destruct (text_fold has_casing b) as [r0|] eqn:E0; [|discriminate]. cbn [rbind] in Hr.
    destruct r0 as [v|]; [|exfalso; apply (IH Hn None eq_refl); reflexivity].
    destruct (tvar_product v (rep_range lo hi)); [|discriminate]. cbn [rbind] in Hr. inversion Hr. discriminate.
Qed.

Lemma fold_conj_var : forall vs b, exists b', fold_left tvar_conj vs (Var b) = Var b'.
Proof.
  induction vs as [|u vs IH]; intros b; cbn [fold_left]; [eexists; reflexivity|].
  destruct b as [[]|], u as [u|[[]|]]; cbn [tvar_conj]; apply IH.
Qed.

Lemma reduce_conj_inv : forall vs t, reduce_pure tvar_conj vs = Some (Inv t) ->
  exists ts, vs = map (fun x => Inv x) ts /\ text_to_string t = concat (map text_to_string ts).
Proof.
  intros [|v vs] t H; [discriminate|]. cbn [reduce_pure] in H. injection H as H.
  destruct v as [a|b].
  - destruct (fold_conj_inv vs a t H) as [ts [-> Hs]]. exists (a :: ts). split; [reflexivity|exact Hs].
  - destruct (fold_conj_var vs b) as [b' Hb]. rewrite Hb in H. discriminate.
Qed.

Lemma flatmatchs_strings : forall xs ss,
  Forall2 (fun (x : list leaf) (s : str) => forall f' l' w', FlatMatch f' l' x w' -> w' = s) xs ss ->
  forall f l w, FlatMatchs orbit f l xs w -> w = concat ss.
Proof.
  intros xs ss H. induction H as [|x s xs ss Hx _ IH]; intros f l w Hm.
  - exact Hm.
  - cbn [FlatMatchs] in Hm. destruct Hm as [u [v [-> [Hu Hv]]]]. cbn [concat]. rewrite (Hx _ _ _ Hu), (IH _ _ _ Hv). reflexivity.
Qed.

Lemma cat_pieces : forall ts xs terms,
  Forall (fun t => nonempty_branches t = true -> unique_text t) ts -> forallb nonempty_branches ts = true ->
  Forall2 Expands ts xs -> Forall2 (fun t r => text_fold has_casing t = Ok r) ts terms ->
  forall tl, flat_map opt_list terms = map (fun x => Inv x) tl ->
  Forall2 (fun (x : list leaf) (s : str) => forall f' l' w', FlatMatch f' l' x w' -> w' = s) xs (map text_to_string tl).
Proof.
  intros ts xs terms IH Hne HX. revert terms IH Hne.
  induction HX as [|t0 x0 ts' xs' Hx0 _ IHX]; intros terms IH Hne HT tl Htl.
  - inversion HT; subst. cbn in Htl. destruct tl; [constructor|discriminate].
  - inversion HT as [|? r0 ? terms' Hr0 HT']; subst. inversion IH as [|? ? IH0 IH']; subst.
    cbn [forallb] in Hne. apply andb_prop in Hne. destruct Hne as [Hn0 Hne'].
    destruct r0 as [v|]; [|exfalso; apply (text_fold_some t0 Hn0 None Hr0); reflexivity].
    cbn [flat_map opt_list app] in Htl. destruct tl as [|t1 tl']; [discriminate|]. cbn [map] in Htl. inversion Htl; subst.
    cbn [map]. constructor; [|apply (IHX terms' IH' Hne' HT' tl'); assumption].
    intros f' l' w' Hm. eapply (IH0 Hn0 t1 Hr0); eassumption.
Qed.

(* C11: a pattern that reports invariant text matches no other text *)
Theorem text_unique : forall t, nonempty_branches t = true -> unique_text t.
Proof.
  induction t as [sp l0|sp bs IH|sp ts IH|sp b lo hi IH] using tok_ind'; intros Hne txt Ht x f l w Hx Hm.
  - inversion Hx; subst. cbn [text_fold] in Ht. inversion Ht as [Hl]. apply flatmatch_single in Hm.
    eapply leaf_text_unique; eassumption.
  - inversion Hx; subst. cbn [text_fold rbind] in Ht.
    destruct (rmapM (text_fold has_casing) bs) as [terms|] eqn:Er; [|discriminate]. cbn [rbind] in Ht. inversion Ht as [Hred]. clear Ht.
    match goal with Hin : In ?b0 bs, Hb : Expands ?b0 x |- _ => rename b0 into bb; rename Hin into Hinb; rename Hb into Hxb end.
    destruct (rmapM_ok_in _ _ _ bb Er Hinb) as [r [Hr Hir]].
    cbn [nonempty_branches] in Hne. apply andb_prop in Hne. destruct Hne as [_ Hall]. rewrite forallb_forall in Hall.
    apply reduce_disj_inv in Hred. rewrite Forall_forall in Hred, IH.
    destruct r as [v|]; [|exfalso; apply (text_fold_some bb (Hall bb Hinb) None Hr); reflexivity].
    assert (Hv : In v (flat_map opt_list terms)) by (apply in_flat_map; exists (Some v); split; [exact Hir|left; reflexivity]).
    apply Hred in Hv. apply tvar_eqb_inv_string in Hv. destruct Hv as [t' [-> Hs]]. rewrite <- Hs.
    eapply (IH bb Hinb (Hall bb Hinb) t' Hr); eassumption.
  - inversion Hx; subst. cbn [text_fold rbind] in Ht.
    destruct (rmapM (text_fold has_casing) ts) as [terms|] eqn:Er; [|discriminate]. cbn [rbind] in Ht. inversion Ht as [Hred]. clear Ht.
    apply reduce_conj_inv in Hred. destruct Hred as [tl [Htl Hs]]. rewrite Hs.
    cbn [nonempty_branches] in Hne. apply andb_prop in Hne. destruct Hne as [_ Hall].
    apply flatmatch_concat in Hm.
    eapply flatmatchs_strings; [|exact Hm].
    match goal with HF : Forall2 Expands ts ?xs |- _ =>
      eapply (cat_pieces ts xs terms IH Hall HF (rmapM_ok_forall2 _ _ _ Er) tl Htl) end.
  - inversion Hx; subst. cbn [text_fold rbind] in Ht.
    cbn [nonempty_branches] in Hne. apply andb_prop in Hne. destruct Hne as [Hnb _].
    destruct (text_fold has_casing b) as [r0|] eqn:E0; [|discriminate]. cbn [rbind] in Ht.
    destruct r0 as [v|]; [|discriminate].
    destruct (tvar_product v (rep_range lo hi)) as [y|] eqn:Ep; [|discriminate]. cbn [rbind] in Ht. inversion Ht; subst y. clear Ht.
    match goal with Hb : in_bounds (length ?xs) lo hi, HF : Forall (Expands b) ?xs |- _ =>
      rename xs into xs0; rename Hb into Hbounds; rename HF into HF0 end.
    unfold tvar_product in Ep.
    destruct (rep_range lo hi) as [n|rb] eqn:Er.
    + pose proof (rep_range_inv lo hi n (length xs0) Er Hbounds) as Hk.
      destruct (N.eqb_spec n 0) as [->|Hn0].
      * assert (xs0 = []) by (destruct xs0; [reflexivity|cbn in Hk; lia]). subst xs0.
        cbn [concat] in Hm. apply flatmatch_nil in Hm. subst w.
        destruct v as [a|[[]|]]; cbn in Ep; inversion Ep; reflexivity.
      * destruct v as [a|vb].
        -- unfold text_repeated, rbind in Ep. destruct (cmul (n - 1) (N.of_nat (length a))); [|discriminate].
           inversion Ep; subst txt. rewrite repeat_list_string.
           apply flatmatch_concat in Hm. replace (N.to_nat n) with (length xs0) by lia.
           eapply flatmatchs_strings; [|exact Hm].
           clear Hm Hbounds Hk Hx. induction HF0 as [|x0 xs' Hx0 _ IHF]; cbn [length repeat]; [constructor|]. constructor; [|exact IHF].
           intros f' l' w' Hm'. eapply (IH Hnb a E0); eassumption.
        -- destruct vb as [[]|]; inversion Ep.
    + destruct v as [a|[[]|]], rb as [rb'|]; cbn in Ep; inversion Ep.
Qed.

(* a pattern that matches two different texts reports variant text *)
Corollary two_texts_variant : forall t txt x1 x2 f1 l1 f2 l2 w1 w2,
  nonempty_branches t = true -> Expands t x1 -> Expands t x2 -> FlatMatch f1 l1 x1 w1 -> FlatMatch f2 l2 x2 w2 -> w1 <> w2 ->
  text_fold has_casing t <> Ok (Some (Inv txt)).
Proof.
  intros t txt x1 x2 f1 l1 f2 l2 w1 w2 Hne H1 H2 Hm1 Hm2 Hd Ht. apply Hd.
  rewrite (text_unique t Hne txt Ht x1 f1 l1 w1 H1 Hm1), (text_unique t Hne txt Ht x2 f2 l2 w2 H2 Hm2). reflexivity.
Qed.

(* in terms of the query and of the documented language *)
Theorem invariant_text_is_the_only_text : forall t txt w,
  nonempty_branches t = true -> text_variance has_casing t = Ok (Inv txt) -> Lang orbit t w -> w = text_to_string txt.
Proof.
  intros t txt w Hne Hv [x [Hx Hm]]. unfold text_variance, rbind in Hv.
  destruct (text_fold has_casing t) as [r|] eqn:E; [|discriminate].
  destruct r as [v|]; [|exfalso; apply (text_fold_some t Hne None E); reflexivity].
  inversion Hv; subst v. eapply (text_unique t Hne txt E); eassumption.
Qed.

End TextFacts.
