(* ExhaustFacts.v -- C09 on a wider class: every expansion ends with a tree wildcard that is followed only by zero-or-more
   wildcards separated by separators (`**`, `**/*`, `**/*/*`, ...): whatever such a pattern matches, it matches everything
   beneath it - the tree wildcard absorbs one more component and the `*`s shift by one. *)
From Coq Require Import Arith Lia.
From WaxModel Require Import Base Token Regex Spec.
From WaxProofs Require Import SpecFacts EncodeLang.

Section Exhaust.
Variable orbit : char -> list char.
Notation FlatMatch := (Spec.FlatMatch orbit).
Notation Lang := (Spec.Lang orbit).

(* `*`, `*/*`, `*/*/*`, ... *)
Inductive ztail : list leaf -> Prop :=
| zt_one : forall lz, ztail [LZom lz]
| zt_more : forall lz x, ztail x -> ztail (LZom lz :: LSep :: x).

Lemma ztail_nonempty : forall x, ztail x -> x <> [].
Proof. intros x H. inversion H; discriminate. Qed.

(* shifting by one component: what matched v now matches the rest of v ++ "/" ++ z after its first component *)
Lemma ztail_shift : forall x, ztail x -> forall f l v z, FlatMatch f l x v -> nosep z = true ->
  exists c0 vnew, nosep c0 = true /\ v ++ SEP :: z = c0 ++ SEP :: vnew /\ FlatMatch f l x vnew.
Proof.
  intros x H. induction H as [lz|lz x Hx IH]; intros f l v z Hm Hz.
  - apply flatmatch_single in Hm. cbn [Spec.leaf_piece] in Hm. exists v, z. split; [exact Hm|]. split; [reflexivity|].
    apply flatmatch_single. exact Hz.
  - inversion Hm as [|? ? ? ? u0 v0 Hp0 Hr0]; subst. cbn [Spec.leaf_piece] in Hp0.
    inversion Hr0 as [|? ? ? ? u1 v1 Hp1 Hr1]; subst. cbn [Spec.leaf_piece] in Hp1. subst u1.
    destruct (IH false l v1 z Hr1 Hz) as [c1 [vnew [Hc1 [E Hn]]]].
    exists u0, (c1 ++ SEP :: vnew). split; [exact Hp0|]. split.
    + rewrite <- !app_assoc. cbn [app]. rewrite E. reflexivity.
    + change (c1 ++ SEP :: vnew) with (c1 ++ [SEP] ++ vnew). constructor; [exact Hc1|]. constructor; [reflexivity|]. exact Hn.
Qed.

(* a tree wildcard that is not last absorbs one more component *)
Lemma tree_piece_absorb : forall f root u c0, tree_piece f false root u = true -> nosep c0 = true ->
  tree_piece f false root (u ++ c0 ++ [SEP]) = true.
Proof.
  intros f root u c0 H Hc. unfold tree_piece in *.
  assert (Hends : ends_sep (u ++ c0 ++ [SEP]) = true) by (rewrite app_assoc; apply ends_sep_snoc).
  rewrite Hends. cbn [andb orb negb] in *. rewrite andb_true_r, orb_false_r in *.
  apply andb_prop in H. destruct H as [Hl _].
  destruct (f && negb root) eqn:E; [reflexivity|]. cbn [orb] in *.
  apply starts_sep_app. exact Hl.
Qed.

Lemma flatmatch_extend_tree_ztail : forall x f r suf w z, ztail suf -> nosep z = true ->
  FlatMatch f true (x ++ LTree r :: suf) w -> FlatMatch f true (x ++ LTree r :: suf) (w ++ SEP :: z).
Proof.
  induction x as [|a x IH]; intros f r suf w z Hs Hz H.
  - cbn [app] in *. inversion H as [|? ? ? ? u v Hp Hrest]; subst.
    destruct (ztail_shift suf Hs false true v z Hrest Hz) as [c0 [vnew [Hc0 [E Hn]]]].
    assert (Hnil : is_nil suf = false) by (destruct suf; [exfalso; eapply ztail_nonempty; [exact Hs|reflexivity]|reflexivity]).
    rewrite Hnil in Hp. cbn [andb Spec.leaf_piece] in Hp.
    rewrite <- app_assoc, E.
    replace (u ++ c0 ++ SEP :: vnew) with ((u ++ c0 ++ [SEP]) ++ vnew) by (rewrite <- !app_assoc; reflexivity).
    constructor; [|exact Hn]. rewrite Hnil. cbn [andb Spec.leaf_piece]. apply tree_piece_absorb; assumption.
  - cbn [app] in *. inversion H as [|? ? ? ? u v Hp Hrest]; subst. rewrite <- app_assoc. constructor.
    + destruct (x ++ LTree r :: suf) eqn:E; [destruct x; discriminate|]. exact Hp.
    + apply IH; assumption.
Qed.

End Exhaust.

(* ---- flat patterns: the verdict and the class ------------------------------------------------------------------------------------- *)
From WaxModel Require Import Encode Variance Fold Rule.
From WaxProofs Require Import RuleFacts DepthFacts ZomFacts.

Definition is_leaf (t : tok) : bool := match t with TLeaf _ _ => true | _ => false end.

Inductive ztailT : list tok -> Prop :=
| ztT_one : forall sp lz, ztailT [TLeaf sp (LZom lz)]
| ztT_more : forall sp lz sp' x, ztailT x -> ztailT (TLeaf sp (LZom lz) :: TLeaf sp' LSep :: x).

Lemma ztailT_leaves : forall x, ztailT x -> ztail (map leaf_of x).
Proof. intros x H. induction H; cbn [map leaf_of]; constructor; assumption. Qed.

Definition open_tail (ts : list tok) : Prop :=
  exists pre sp r suf, ts = pre ++ TLeaf sp (LTree r) :: suf /\ (suf = [] \/ ztailT suf).

Lemma expands_leaves : forall ts xs, forallb is_leaf ts = true -> Forall2 Expands ts xs -> concat xs = map leaf_of ts.
Proof.
  intros ts xs H HF. induction HF as [|t x ts xs Hx _ IH]; [reflexivity|]. cbn [forallb] in H. apply andb_prop in H. destruct H as [Ht Hts].
  destruct t as [sp l| | |]; try discriminate. inversion Hx; subst. cbn [concat map leaf_of app]. rewrite (IH Hts). reflexivity.
Qed.

(* C09 for flat patterns of this class: everything beneath a matched path is matched *)
Theorem open_tail_exhaustive : forall orbit sp ts p z, forallb is_leaf ts = true -> open_tail ts -> nosep z = true ->
  Spec.Lang orbit (TCat sp ts) p -> Spec.Lang orbit (TCat sp ts) (p ++ SEP :: z).
Proof.
  intros orbit sp ts p z Hl [pre [sp' [r [suf [-> Hsuf]]]]] Hz [x [Hx Hm]]. exists x. split; [exact Hx|].
  inversion Hx as [| |? ? xs HF|]; subst. rewrite (expands_leaves _ _ Hl HF) in *. rewrite map_app in *. cbn [map leaf_of] in *.
  destruct Hsuf as [->|Hzt].
  - cbn [map] in *. apply flatmatch_extend_last_tree. exact Hm.
  - apply flatmatch_extend_tree_ztail; [apply ztailT_leaves; exact Hzt|exact Hz|exact Hm].
Qed.

(* ---- what an `Always` verdict says about a flat pattern ------------------------------------------------------------------------------ *)
Definition inv_term (t : bterm) : Prop := match t with BConj (_, Inv _) => True | _ => False end.

Lemma sterm_finalize_inv : forall tm n, exists m, sterm_finalize (@pair termination nvar tm (Inv n)) = Ok (Inv m) \/ exists s, sterm_finalize (@pair termination nvar tm (Inv n)) = Panic s.
Proof.
  intros tm n. unfold sterm_finalize. cbn [fst snd]. destruct tm; try (exists n; left; reflexivity).
  - cbn [nvar_conj]. unfold cadd. destruct (n + 1 <? usize_max1)%N; [exists (n + 1)%N; left; reflexivity|exists 0%N; right; eexists; reflexivity].
  - exists (N.pred n). left. reflexivity.
Qed.

Lemma bterm_conj_inv : forall a b, inv_term a -> inv_term b -> match bterm_conj a b with Ok c => inv_term c | Panic _ => True end.
Proof.
  intros [[ta [na|va]]|] [[tb [nb|vb]]|] Ha Hb; try contradiction. cbn [bterm_conj]. unfold sterm_conj. cbn [fst snd].
  destruct (term_conj ta tb) as [t|t|t].
  - destruct (sterm_finalize_inv ta na) as [m [E|[s E]]]; rewrite E; cbn [rbind]; [|exact I].
    cbn [nvar_conj]. unfold cadd. destruct (m + nb <? usize_max1)%N; cbn [rbind]; exact I.
  - destruct (sterm_finalize_inv tb nb) as [m [E|[s E]]]; rewrite E; cbn [rbind]; [|exact I].
    cbn [nvar_conj]. unfold cadd. destruct (na + m <? usize_max1)%N; cbn [rbind]; exact I.
  - cbn [nvar_conj]. unfold cadd. destruct (na + nb <? usize_max1)%N; cbn [rbind]; exact I.
Qed.

Lemma rfold_conj_inv : forall l acc, inv_term acc -> Forall inv_term l -> match rfold bterm_conj acc l with Ok c => inv_term c | Panic _ => True end.
Proof.
  induction l as [|t l IH]; intros acc Ha Hl; cbn [rfold]; [exact Ha|]. inversion Hl; subst.
  pose proof (bterm_conj_inv acc t Ha H1) as Hc. destruct (bterm_conj acc t) as [c|s]; cbn [rbind]; [apply IH; assumption|exact I].
Qed.

Lemma inv_not_exhaustive : forall t, inv_term t -> bterm_is_exhaustive t = Never.
Proof. intros [[tm [n|v]]|] H; try contradiction. reflexivity. Qed.

Definition tree_tok (t : tok) : bool := match t with TLeaf _ (LTree _) => true | _ => false end.

Lemma depth_leaf_inv : forall t, is_leaf t = true -> tree_tok t = false -> inv_term (depth_leaf (leaf_of t)).
Proof. intros [sp [| | | | |]| | |] Hl Ht; try discriminate; exact I. Qed.

(* the reversed tail the sequencer takes from a concatenation of leaves *)
Lemma take_exh_leaves : forall (l : list tok), forallb is_leaf l = true ->
  take_exh true (map (fun t => (t, exh_fold t)) l) = map (fun t => (t, exh_fold t)) (take_while exh_takes l).
Proof.
  induction l as [|t l IH]; intros H; [reflexivity|]. cbn [forallb] in H. apply andb_prop in H. destruct H as [Ht Hl].
  destruct t as [sp lf| | |]; try discriminate. cbn [map take_exh take_while]. destruct (exh_takes (TLeaf sp lf)); [|reflexivity].
  cbn [map]. rewrite (IH Hl). reflexivity.
Qed.

Lemma combine_map : forall {A B} (f : A -> B) l, combine l (map f l) = map (fun a => (a, f a)) l.
Proof. intros A B f l. induction l as [|a l IH]; [reflexivity|]. cbn [map combine]. rewrite IH. reflexivity. Qed.

Lemma take_while_leaves : forall p (l : list tok), forallb is_leaf l = true -> forallb is_leaf (take_while p l) = true.
Proof.
  intros p l H. induction l as [|t l IH]; [reflexivity|]. cbn [forallb] in H. apply andb_prop in H. destruct H as [Ht Hl].
  cbn [take_while]. destruct (p t); [|reflexivity]. cbn [forallb]. rewrite Ht, (IH Hl). reflexivity.
Qed.

Lemma rmapM_snd_leaves : forall l, forallb is_leaf l = true ->
  rmapM snd (map (fun t => (t, exh_fold t)) l) = Ok (map (fun t => Some (depth_leaf (leaf_of t))) l).
Proof.
  induction l as [|t l IH]; intros H; [reflexivity|]. cbn [forallb] in H. apply andb_prop in H. destruct H as [Ht Hl].
  destruct t as [sp lf| | |]; try discriminate. cbn [map rmapM snd exh_fold rbind leaf_of]. rewrite (IH Hl). reflexivity.
Qed.

Lemma flat_map_opt_some : forall {A B} (f : A -> B) l, flat_map opt_list (map (fun a => Some (f a)) l) = map f l.
Proof. intros A B f l. induction l as [|a l IH]; [reflexivity|]. cbn [map flat_map opt_list app]. rewrite IH. reflexivity. Qed.

(* an `Always` verdict on a concatenation of leaves: the tail the sequencer takes contains a tree wildcard *)
Lemma always_has_tree : forall sp ts, forallb is_leaf ts = true -> is_exhaustive (TCat sp ts) = Ok Always ->
  existsb tree_tok (take_while exh_takes (rev ts)) = true.
Proof.
  intros sp ts Hl H. destruct (existsb tree_tok (take_while exh_takes (rev ts))) eqn:Et; [reflexivity|]. exfalso.
  unfold is_exhaustive in H. cbn [exh_fold] in H. rewrite combine_map, <- map_rev in H.
  assert (Hlr : forallb is_leaf (rev ts) = true).
  { rewrite forallb_forall in *. intros t Ht. apply Hl. apply in_rev. exact Ht. }
  rewrite (take_exh_leaves _ Hlr) in H. set (tail := take_while exh_takes (rev ts)) in *.
  pose proof (take_while_leaves exh_takes _ Hlr) as Htl. fold tail in Htl.
  rewrite (rmapM_snd_leaves _ Htl) in H. cbn [rbind] in H. rewrite (flat_map_opt_some (fun t => depth_leaf (leaf_of t))) in H.
  assert (Hinv : Forall inv_term (map (fun t => depth_leaf (leaf_of t)) tail)).
  { apply Forall_forall. intros b Hb. apply in_map_iff in Hb. destruct Hb as [t [<- Hin]]. apply depth_leaf_inv.
    - rewrite forallb_forall in Htl. apply Htl. exact Hin.
    - destruct (tree_tok t) eqn:E; [|reflexivity]. assert (existsb tree_tok tail = true) by (apply existsb_exists; exists t; split; assumption). congruence. }
  set (terms := map (fun t => depth_leaf (leaf_of t)) tail) in *.
  assert (Hsum : match rreduce bterm_conj terms with Ok (Some c) => inv_term c | _ => True end).
  { unfold rreduce. destruct terms as [|a l]; [exact I|]. inversion Hinv; subst.
    pose proof (rfold_conj_inv l a H2 H3) as Hr. destruct (rfold bterm_conj a l); cbn [rmap]; exact Hr. }
  destruct (rreduce bterm_conj terms) as [sum|s]; [|discriminate]. cbn [rbind] in H.
  assert (Hzero : bterm_is_exhaustive bterm_zero = Never) by reflexivity.
  destruct sum as [c|].
  - pose proof (inv_not_exhaustive c Hsum) as Hc.
    destruct (Nat.eqb (length ts) (length terms)); cbn [rbind] in H.
    + inversion H as [Hx]. rewrite Hc in Hx. discriminate.
    + unfold exh_maybe in H. rewrite Hc in H. cbn in H. discriminate.
  - destruct (Nat.eqb (length ts) (length terms)); cbn [rbind exh_maybe] in H; inversion H.
Qed.

(* ---- from the verdict to the class ------------------------------------------------------------------------------------------------------ *)
Definition sepzom (t : tok) : Prop := match t with TLeaf _ LSep | TLeaf _ (LZom _) => True | _ => False end.

Lemma take_while_split : forall {A} (p : A -> bool) l, exists rest, l = take_while p l ++ rest /\ Forall (fun a => p a = true) (take_while p l).
Proof.
  intros A p l. induction l as [|a l [rest [E HF]]]; [exists []; split; [reflexivity|constructor]|]. cbn [take_while].
  destruct (p a) eqn:Ea; [exists rest; split; [cbn [app]; rewrite <- E; reflexivity|constructor; assumption]|exists (a :: l); split; [reflexivity|constructor]].
Qed.

Lemma first_tree_split : forall l, existsb tree_tok l = true ->
  exists a sp r b, l = a ++ TLeaf sp (LTree r) :: b /\ existsb tree_tok a = false.
Proof.
  induction l as [|t l IH]; intros H; [discriminate|]. cbn [existsb] in H. destruct (tree_tok t) eqn:Et.
  - destruct t as [sp [| | | | |r]| | |]; try discriminate. exists [], sp, r, l. split; reflexivity.
  - cbn [orb] in H. destruct (IH H) as [a [sp [r [b [-> Ha]]]]]. exists (t :: a), sp, r, b. split; [reflexivity|]. cbn [existsb]. rewrite Et, Ha. reflexivity.
Qed.

Lemma adj_zom_tail : forall t l, adj_zom (t :: l) = false -> adj_zom l = false.
Proof. intros t [|t2 l] H; [reflexivity|]. cbn [adj_zom] in H. apply orb_false_iff in H. exact (proj2 H). Qed.

Lemma adj_zom_app_tail : forall p l, adj_zom (p ++ l) = false -> adj_zom l = false.
Proof. induction p as [|t p IH]; intros l H; [exact H|]. apply IH. eapply adj_zom_tail. exact H. Qed.

Lemma adjacent_boundary_app_tail : forall p l, adjacent_boundary (p ++ l) = None -> adjacent_boundary l = None.
Proof. induction p as [|t p IH]; intros l H; [exact H|]. apply IH. eapply adjacent_boundary_tail. exact H. Qed.

Definition last_not_sep (l : list tok) : Prop := match last_opt l with Some t => is_sep t = false | None => True end.

Lemma suffix_shape : forall n suf prev, (length suf <= n)%nat -> is_boundary prev = true -> Forall sepzom suf ->
  adjacent_boundary (prev :: suf) = None -> adj_zom suf = false -> last_not_sep suf -> suf = [] \/ ztailT suf.
Proof.
  induction n as [|n IH]; intros suf prev Hn Hb Hf Ha Hz Hl.
  - destruct suf; [left; reflexivity|cbn in Hn; lia].
  - destruct suf as [|t r]; [left; reflexivity|]. right. inversion Hf as [|? ? Ht Hr]; subst.
    destruct t as [sp [| | | |lz|]| | |]; try contradiction.
    + (* a separator right after a boundary *)
      exfalso. change (adjacent_boundary (prev :: TLeaf sp LSep :: r)) with
        (if is_boundary prev && is_boundary (TLeaf sp LSep) then Some (span_union (tspan prev) (tspan (TLeaf sp LSep))) else adjacent_boundary (TLeaf sp LSep :: r)) in Ha.
      rewrite Hb in Ha. cbn in Ha. discriminate.
    + destruct r as [|t2 r2]; [constructor|]. inversion Hr as [|? ? Ht2 Hr2]; subst.
      destruct t2 as [sp2 [| | | |lz2|]| | |]; try contradiction.
      * (* zom, sep, ... *)
        assert (Ha2 : adjacent_boundary (TLeaf sp2 LSep :: r2) = None) by (apply (adjacent_boundary_app_tail [prev; TLeaf sp (LZom lz)]); exact Ha).
        assert (Hz2 : adj_zom r2 = false) by (apply (adj_zom_app_tail [TLeaf sp (LZom lz); TLeaf sp2 LSep]); exact Hz).
        assert (Hl2 : last_not_sep r2).
        { unfold last_not_sep in *. cbn [last_opt] in Hl. destruct r2 as [|t3 r3]; [cbn in Hl; discriminate|]. exact Hl. }
        destruct (IH r2 (TLeaf sp2 LSep) ltac:(cbn [length] in Hn; lia) eq_refl Hr2 Ha2 Hz2 Hl2) as [->|Hzt].
        -- unfold last_not_sep in Hl. cbn in Hl. discriminate.
        -- constructor. exact Hzt.
      * cbn [adj_zom is_zom andb orb] in Hz. discriminate.
Qed.

Lemma last_opt_app : forall {A} (p : list A) l, l <> [] -> last_opt (p ++ l) = last_opt l.
Proof.
  induction p as [|a p IH]; intros l H; [reflexivity|]. cbn [app]. destruct (p ++ l) eqn:E; [destruct p; [cbn in E; congruence|discriminate]|].
  rewrite <- E. cbn [last_opt]. rewrite E. rewrite <- E. apply IH. exact H.
Qed.

(* C09: a flat, rule-checked pattern that reports Always is in the class: its last tree wildcard is followed by `*` components only *)
Theorem always_open_tail : forall sp ts, forallb is_leaf ts = true -> is_exhaustive (TCat sp ts) = Ok Always ->
  adjacent_boundary ts = None -> adj_zom ts = false -> last_not_sep ts -> open_tail ts.
Proof.
  intros sp ts Hl H Hab Haz Hls. pose proof (always_has_tree sp ts Hl H) as Ht.
  destruct (take_while_split exh_takes (rev ts)) as [rest [E HF]]. set (tail := take_while exh_takes (rev ts)) in *.
  destruct (first_tree_split tail Ht) as [a [spt [r [b [Etail Ha]]]]].
  assert (Ets : ts = rev rest ++ rev b ++ TLeaf spt (LTree r) :: rev a).
  { rewrite <- (rev_involutive ts), E, Etail. rewrite !rev_app_distr. cbn [rev]. rewrite <- !app_assoc. reflexivity. }
  exists (rev rest ++ rev b), spt, r, (rev a). split; [rewrite Ets, <- app_assoc; reflexivity|].
  assert (Hsz : Forall sepzom (rev a)).
  { apply Forall_forall. intros t Hin. apply in_rev in Hin. rewrite Etail in HF. rewrite Forall_forall in HF.
    assert (Hex : exh_takes t = true) by (apply HF; apply in_or_app; left; exact Hin).
    assert (Hnt : tree_tok t = false).
    { destruct (tree_tok t) eqn:Ett; [|reflexivity]. assert (existsb tree_tok a = true) by (apply existsb_exists; exists t; split; assumption). congruence. }
    assert (Hlf : is_leaf t = true).
    { rewrite forallb_forall in Hl. apply Hl. rewrite Ets. apply in_or_app. right. apply in_or_app. right. right. apply in_rev. rewrite rev_involutive. exact Hin. }
    destruct t as [sp0 [| | | | |]| | |]; try discriminate; exact I. }
  rewrite Ets in Hab, Haz, Hls. rewrite app_assoc in Hab, Haz, Hls.
  apply (suffix_shape (length (rev a)) (rev a) (TLeaf spt (LTree r)) (le_n _) eq_refl Hsz).
  - eapply adjacent_boundary_app_tail. exact Hab.
  - apply (adj_zom_tail (TLeaf spt (LTree r))). eapply adj_zom_app_tail. exact Haz.
  - unfold last_not_sep in *. destruct (rev a) as [|x l] eqn:Era; [exact I|].
    rewrite (last_opt_app _ (TLeaf spt (LTree r) :: x :: l)) in Hls by discriminate. exact Hls.
Qed.

(* C09 for flat rule-checked patterns: an `Always` verdict is sound *)
Theorem flat_always_sound : forall orbit sp ts p z, forallb is_leaf ts = true -> is_exhaustive (TCat sp ts) = Ok Always ->
  adjacent_boundary ts = None -> adj_zom ts = false -> last_not_sep ts -> nosep z = true ->
  Spec.Lang orbit (TCat sp ts) p -> Spec.Lang orbit (TCat sp ts) (p ++ SEP :: z).
Proof.
  intros orbit sp ts p z Hl H Hab Haz Hls Hz Hp. apply open_tail_exhaustive; try assumption. eapply always_open_tail; eassumption.
Qed.
