(* PartitionLang.v -- C08 at the level of the documented language: the texts of a glob are the invariant text of the popped
   prefix followed by the texts of the postfix.  The prefix may be any run of tokens whose text is invariant (literals,
   separators, invariant alternations and repetitions); what follows it is insensitive to its position unless it begins with
   a tree wildcard, and a tree wildcard in that place gives up its leading separator. *)
From Coq Require Import Arith Lia.
From WaxModel Require Import Base Token Regex Spec Encode Variance Fold Rule Query.
From WaxProofs Require Import AlgebraFacts SpecFacts EncodeLang TextFacts TextExists OwnedFacts ComposeFacts.

(* some expansion may begin with a tree wildcard (conservative) *)
Fixpoint starts_tree (t : tok) : bool :=
  match t with
  | TLeaf _ (LTree _) => true
  | TLeaf _ _ => false
  | TAlt _ bs => existsb starts_tree bs
  | TCat _ ts => (fix go (ts : list tok) : bool := match ts with [] => false | t0 :: r => starts_tree t0 || (fnull t0 && go r) end) ts
  | TRep _ b _ _ => starts_tree b
  end.
Definition starts_tree_list (ts : list tok) : bool :=
  (fix go (ts : list tok) : bool := match ts with [] => false | t0 :: r => starts_tree t0 || (fnull t0 && go r) end) ts.

Section PartitionLang.
Variable orbit : char -> list char.
Variable has_casing : char -> bool.
Hypothesis caseless_orbit : forall c d, has_casing c = false -> In d (orbit c) -> d = c.
Notation FlatMatch := (Spec.FlatMatch orbit).
Notation Lang := (Spec.Lang orbit).
Notation Expands := Spec.Expands.

(* the language of a tree that is not at the beginning of the flat sequence *)
Definition LangF (f : bool) (t : tok) (w : str) : Prop := exists x, Expands t x /\ FlatMatch f true x w.

Lemma expands_cat_inv : forall sp ts x, Expands (TCat sp ts) x <-> exists xs, Forall2 Expands ts xs /\ x = concat xs.
Proof.
  intros sp ts x. split.
  - intros H. inversion H; subst. eexists. split; [eassumption|reflexivity].
  - intros [xs [H ->]]. constructor. exact H.
Qed.

Lemma expands_cat_app : forall sp sp1 sp2 a b x,
  Expands (TCat sp (a ++ b)) x <-> exists xa xb, x = xa ++ xb /\ Expands (TCat sp1 a) xa /\ Expands (TCat sp2 b) xb.
Proof.
  intros sp sp1 sp2 a b x. rewrite expands_cat_inv. split.
  - intros [xs [H ->]]. apply Forall2_app_inv_l in H. destruct H as [xa [xb [Ha [Hb ->]]]].
    exists (concat xa), (concat xb). split; [apply concat_app|]. split; constructor; assumption.
  - intros [xa [xb [-> [Ha Hb]]]]. apply expands_cat_inv in Ha. apply expands_cat_inv in Hb.
    destruct Ha as [xsa [Ha ->]]. destruct Hb as [xsb [Hb ->]]. exists (xsa ++ xsb). split; [apply Forall2_app; assumption|].
    symmetry. apply concat_app.
Qed.

Lemma flatmatch_nonnil : forall f l x w, FlatMatch f l x w -> w <> [] -> x <> [].
Proof. intros f l x w H Hw ->. inversion H; subst. congruence. Qed.

(* ---- the prefix ---------------------------------------------------------------------------------------------------------------- *)
Lemma prefix_split : forall sp pre txt,
  text_fold has_casing (TCat sp pre) = Ok (Some (Inv txt)) ->
  nonempty_branches (TCat sp pre) = true -> classes_plain (TCat sp pre) = true -> text_to_string txt <> [] ->
  forall post w, Lang (TCat sp (pre ++ post)) w <-> exists v, w = text_to_string txt ++ v /\ LangF false (TCat sp post) v.
Proof.
  intros sp pre txt Ht Hne Hcl Hs post w. split.
  - intros [x [Hx Hm]]. apply (expands_cat_app sp sp sp) in Hx. destruct Hx as [xa [xb [-> [Ha Hb]]]].
    apply flatmatch_app in Hm. destruct Hm as [u [v [-> [Hu Hv]]]].
    assert (Eu : u = text_to_string txt) by (eapply (text_unique orbit has_casing caseless_orbit _ Hne txt Ht); eassumption).
    subst u. exists v. split; [reflexivity|]. exists xb. split; [exact Hb|].
    assert (Hxa : xa <> []) by (eapply flatmatch_nonnil; eassumption).
    destruct xa; [congruence|]. exact Hv.
  - intros [v [-> [xb [Hb Hv]]]]. destruct (text_matched orbit has_casing _ Hne Hcl txt Ht) as [xa [Ha Hm]].
    exists (xa ++ xb). split; [apply (expands_cat_app sp sp sp); exists xa, xb; auto|].
    apply flatmatch_app. exists (text_to_string txt), v. split; [reflexivity|]. split; [apply Hm|].
    assert (Hxa : xa <> []) by (eapply flatmatch_nonnil; [apply (Hm true true)|exact Hs]).
    destruct xa; [congruence|]. exact Hv.
Qed.

(* ---- what follows the prefix: insensitive to its position unless it begins with a tree wildcard ------------------------------------- *)
Lemma head_tree_concat : forall xs, Forall (fun x => head_tree x = false) xs -> head_tree (concat xs) = false.
Proof.
  induction xs as [|x xs IH]; intros H; [reflexivity|]. inversion H; subst. cbn [concat]. rewrite head_tree_app.
  destruct (is_nil x); [apply IH; assumption|assumption].
Qed.

Lemma expands_head_tree : forall t x, Expands t x -> starts_tree t = false -> head_tree x = false.
Proof.
  induction t as [sp l0|sp bs IH|sp ts IH|sp b lo hi IH] using tok_ind'; intros x Hx Hs.
  - inversion Hx; subst. destruct l0; try reflexivity. discriminate.
  - inversion Hx as [|sp0 bs0 b x0 Hin Hb| |]; subst. cbn [starts_tree] in Hs. rewrite Forall_forall in IH. apply (IH b Hin); [exact Hb|].
    destruct (starts_tree b) eqn:E; [|reflexivity]. exfalso. assert (existsb starts_tree bs = true) by (apply existsb_exists; exists b; auto). congruence.
  - inversion Hx as [| |sp0 ts0 xs HF|]; subst. change (starts_tree_list ts = false) in Hs. clear Hx.
    induction HF as [|t0 x0 ts' xs' Hx0 _ IHF]; [reflexivity|]. inversion IH as [|? ? IH0 IH']; subst.
    cbn [starts_tree_list] in Hs. apply orb_false_iff in Hs. destruct Hs as [H0 Hr]. cbn [concat]. rewrite head_tree_app.
    destruct x0 as [|a x0']; cbn [is_nil].
    + rewrite (expands_nil_fnull t0 Hx0) in Hr. cbn [andb] in Hr. apply IHF; assumption.
    + apply (IH0 _ Hx0 H0).
  - inversion Hx as [| | |sp0 b0 lo0 hi0 xs Hb HF]; subst. cbn [starts_tree] in Hs. apply head_tree_concat.
    eapply Forall_impl; [|exact HF]. intros a Ha. apply (IH _ Ha Hs).
Qed.

Lemma langF_flag : forall t f f' w, starts_tree t = false -> LangF f t w -> LangF f' t w.
Proof.
  intros t f f' w Hs [x [Hx Hm]]. exists x. split; [exact Hx|]. eapply flatmatch_first_irrelevant; [|exact Hm]. eapply expands_head_tree; eassumption.
Qed.

(* ---- a tree wildcard after the prefix gives up its leading separator ---------------------------------------------------------------- *)
Lemma ends_sep_cons : forall c u, ends_sep (c :: u) = if is_nil u then N.eqb c SEP else ends_sep u.
Proof.
  intros c u. destruct u as [|d u']; [reflexivity|]. cbn [is_nil]. unfold ends_sep. cbn [rev].
  destruct (rev u' ++ [d]) as [|e r] eqn:E; [destruct (rev u'); discriminate|]. reflexivity.
Qed.

Lemma tree_piece_mid_start : forall root last u0,
  tree_piece false last root (SEP :: u0) = tree_piece true last false u0.
Proof.
  intros root last u0. unfold tree_piece. cbn [starts_sep is_nil andb negb orb]. rewrite N.eqb_refl. rewrite ends_sep_cons.
  destruct last, (is_nil u0), (ends_sep u0); reflexivity.
Qed.

Lemma tree_piece_rooted_start : forall last u0, tree_piece true last true (SEP :: u0) = tree_piece true last false u0.
Proof.
  intros last u0. unfold tree_piece. cbn [starts_sep is_nil andb negb orb]. rewrite N.eqb_refl. rewrite ends_sep_cons.
  destruct last, (is_nil u0), (ends_sep u0); reflexivity.
Qed.

Lemma tree_piece_mid_shape : forall root last u, tree_piece false last root u = true ->
  (exists u0, u = SEP :: u0) \/ (u = [] /\ last = true).
Proof.
  intros root last u H. unfold tree_piece in H. destruct u as [|c u0].
  - right. destruct last; [auto|discriminate].
  - left. cbn [starts_sep is_nil andb orb] in H. rewrite andb_false_r in H. cbn [orb] in H.
    destruct (N.eqb_spec c SEP) as [->|]; [eexists; reflexivity|discriminate].
Qed.

Lemma tree_piece_rooted_shape : forall last u, tree_piece true last true u = true -> exists u0, u = SEP :: u0.
Proof.
  intros last u H. unfold tree_piece in H. destruct u as [|c u0].
  - cbn in H. rewrite andb_false_r in H. discriminate.
  - cbn [starts_sep is_nil andb orb negb] in H. rewrite andb_false_r in H. cbn [orb] in H.
    destruct (N.eqb_spec c SEP) as [->|]; [eexists; reflexivity|discriminate].
Qed.

(* in the middle of the sequence (rooted or not: the flag only matters at the beginning) *)
Lemma unroot_mid : forall root l x v,
  FlatMatch false l (LTree root :: x) v <->
  (exists r, v = SEP :: r /\ FlatMatch true l (LTree false :: x) r) \/ (l = true /\ x = [] /\ v = []).
Proof.
  intros root l x v. split.
  - intros H. inversion H as [|f0 l0 a x0 u v' Hp Hrest]; subst. cbn [leaf_piece] in Hp.
    destruct (tree_piece_mid_shape _ _ _ Hp) as [[u0 ->]|[-> Hl]].
    + left. exists (u0 ++ v'). split; [reflexivity|]. constructor; [|exact Hrest]. cbn [leaf_piece].
      rewrite <- (tree_piece_mid_start root). exact Hp.
    + right. apply andb_prop in Hl. destruct Hl as [-> Hx]. destruct x; [|discriminate]. inversion Hrest; subst. auto.
  - intros [[r [-> H]]|[-> [-> ->]]].
    + inversion H as [|f0 l0 a x0 u v' Hp Hrest]; subst. change (SEP :: u ++ v') with ((SEP :: u) ++ v'). constructor; [|exact Hrest].
      cbn [leaf_piece] in *. rewrite tree_piece_mid_start. exact Hp.
    + change (@nil char) with (@nil char ++ []). constructor; [reflexivity|constructor].
Qed.

(* at the very beginning (the glob begins with a rooted tree wildcard) *)
Lemma unroot_start : forall l x v,
  FlatMatch true l (LTree true :: x) v <-> exists r, v = SEP :: r /\ FlatMatch true l (LTree false :: x) r.
Proof.
  intros l x v. split.
  - intros H. inversion H as [|f0 l0 a x0 u v' Hp Hrest]; subst. cbn [leaf_piece] in Hp.
    destruct (tree_piece_rooted_shape _ _ Hp) as [u0 ->].
    exists (u0 ++ v'). split; [reflexivity|]. constructor; [|exact Hrest]. cbn [leaf_piece].
    rewrite <- tree_piece_rooted_start. exact Hp.
  - intros [r [-> H]]. inversion H as [|f0 l0 a x0 u v' Hp Hrest]; subst. change (SEP :: u ++ v') with ((SEP :: u) ++ v'). constructor; [|exact Hrest].
    cbn [leaf_piece] in *. rewrite tree_piece_rooted_start. exact Hp.
Qed.

Lemma expands_tree_cons : forall sp s0 root rest x,
  Expands (TCat sp (TLeaf s0 (LTree root) :: rest)) x <-> exists xr, x = LTree root :: xr /\ Expands (TCat sp rest) xr.
Proof.
  intros sp s0 root rest x. rewrite expands_cat_inv. split.
  - intros [xs [H ->]]. inversion H as [|? x0 ? xs' H0 Hr]; subst. inversion H0; subst. exists (concat xs'). split; [reflexivity|]. constructor. exact Hr.
  - intros [xr [-> Hr]]. apply expands_cat_inv in Hr. destruct Hr as [xs' [Hr ->]]. exists ([LTree root] :: xs'). split; [|reflexivity].
    constructor; [constructor|exact Hr].
Qed.

Lemma langF_unroot_mid : forall sp s0 s1 root rest v,
  LangF false (TCat sp (TLeaf s0 (LTree root) :: rest)) v <->
  (exists r, v = SEP :: r /\ Lang (TCat sp (TLeaf s1 (LTree false) :: rest)) r) \/ (v = [] /\ Expands (TCat sp rest) []).
Proof.
  intros sp s0 s1 root rest v. split.
  - intros [x [Hx Hm]]. apply expands_tree_cons in Hx. destruct Hx as [xr [-> Hr]]. apply unroot_mid in Hm.
    destruct Hm as [[r [-> Hm]]|[_ [-> ->]]].
    + left. exists r. split; [reflexivity|]. exists (LTree false :: xr). split; [|exact Hm]. apply expands_tree_cons. eauto.
    + right. auto.
  - intros [[r [-> [x [Hx Hm]]]]|[-> Hr]].
    + apply expands_tree_cons in Hx. destruct Hx as [xr [-> Hr]]. exists (LTree root :: xr). split; [apply expands_tree_cons; eauto|].
      apply unroot_mid. left. eauto.
    + exists [LTree root]. split; [apply expands_tree_cons; eauto|]. apply unroot_mid. right. auto.
Qed.

Lemma lang_unroot_start : forall sp s0 s1 rest w,
  Lang (TCat sp (TLeaf s0 (LTree true) :: rest)) w <-> exists r, w = SEP :: r /\ Lang (TCat sp (TLeaf s1 (LTree false) :: rest)) r.
Proof.
  intros sp s0 s1 rest w. split.
  - intros [x [Hx Hm]]. apply expands_tree_cons in Hx. destruct Hx as [xr [-> Hr]]. apply unroot_start in Hm. destruct Hm as [r [-> Hm]].
    exists r. split; [reflexivity|]. exists (LTree false :: xr). split; [apply expands_tree_cons; eauto|exact Hm].
  - intros [r [-> [x [Hx Hm]]]]. apply expands_tree_cons in Hx. destruct Hx as [xr [-> Hr]]. exists (LTree true :: xr).
    split; [apply expands_tree_cons; eauto|]. apply unroot_start. eauto.
Qed.

(* ---- annotations do not matter to the language ---------------------------------------------------------------------------------- *)
Lemma expands_respan : forall g t x, Expands (respan g t) x <-> Expands t x.
Proof.
  intros g. induction t as [sp l0|sp bs IH|sp ts IH|sp b lo hi IH] using tok_ind'; intros x; cbn [respan].
  - split; intros H; inversion H; subst; constructor.
  - rewrite !expands_alt. split.
    + intros [b [Hin Hb]]. apply in_map_iff in Hin. destruct Hin as [b0 [<- Hin]]. rewrite Forall_forall in IH. exists b0. split; [exact Hin|]. apply (IH b0 Hin). exact Hb.
    + intros [b [Hin Hb]]. exists (respan g b). split; [apply in_map; exact Hin|]. rewrite Forall_forall in IH. apply (IH b Hin). exact Hb.
  - rewrite !expands_cat_inv. assert (E : forall xs, Forall2 Expands (map (respan g) ts) xs <-> Forall2 Expands ts xs).
    { induction IH as [|t0 ts' H0 _ IH']; intros xs; cbn [map].
      - split; intros H; inversion H; constructor.
      - split; intros H; inversion H; subst; constructor; try (apply H0; assumption); apply IH'; assumption. }
    split; intros [xs [H ->]]; exists xs; (split; [apply E; exact H|reflexivity]).
  - split; intros H; inversion H; subst; constructor; try assumption; (eapply Forall_impl; [|eassumption]); intros a Ha; apply IH; exact Ha.
Qed.

Lemma lang_respan : forall g t w, Lang (respan g t) w <-> Lang t w.
Proof. intros g t w. unfold Spec.Lang. split; intros [x [Hx Hm]]; exists x; (split; [apply (expands_respan g); exact Hx|exact Hm]). Qed.

(* ---- what the prefix loop returns ------------------------------------------------------------------------------------------------ *)
Definition inv_run (ts : list tok) (txts : list text) : Prop := Forall2 (fun t x => text_variance has_casing t = Ok (Inv x)) ts txts.
Definition strs (txts : list text) : str := concat (map text_to_string txts).

Definition good (all : list tok) (o : option (N * str)) : Prop :=
  match o with
  | None => True
  | Some (i, s) => exists txts, inv_run (firstn (S (N.to_nat i)) all) txts /\ s = strs txts /\ (N.to_nat i < length all)%nat
  end.

Lemma strs_snoc : forall txts x, strs (txts ++ [x]) = strs txts ++ text_to_string x.
Proof. intros. unfold strs. rewrite map_app, concat_app. cbn [map concat]. rewrite app_nil_r. reflexivity. Qed.

Lemma firstn_len_app : forall {A} (a b : list A), firstn (length a) (a ++ b) = a.
Proof. intros A a b. rewrite firstn_app, Nat.sub_diag, firstn_all. cbn [firstn]. apply app_nil_r. Qed.

Lemma prefix_loop_good : forall ts done n head chk r,
  n = N.of_nat (length done) ->
  (exists txts, inv_run done txts /\
     match head with None => done = [] | Some (i, s) => (N.to_nat i + 1)%nat = length done /\ s = strs txts end) ->
  good (done ++ ts) chk -> prefix_loop has_casing n ts head chk = Ok r -> good (done ++ ts) r.
Proof.
  induction ts as [|t ts IH]; intros done n head chk r Hn [txts [Hrun Hhead]] Hchk H.
  - cbn [prefix_loop] in H. inversion H; subst r. destruct head as [[i s]|]; [|exact I]. destruct Hhead as [Hi ->].
    exists txts. rewrite app_nil_r. split; [|split; [reflexivity|lia]]. replace (S (N.to_nat i)) with (length done) by lia. rewrite firstn_all. exact Hrun.
  - cbn [prefix_loop] in H. destruct (text_variance has_casing t) as [v|] eqn:Ev; [|discriminate]. cbn [rbind] in H.
    assert (Hgh : good (done ++ t :: ts) head).
    { destruct head as [[i s]|]; [|exact I]. destruct Hhead as [Hi ->]. exists txts. split; [|split; [reflexivity|rewrite app_length; cbn [length]; lia]].
      replace (S (N.to_nat i)) with (length done) by lia. rewrite firstn_len_app. exact Hrun. }
    destruct v as [txt|b].
    + set (s0 := match head with Some (_, s) => s | None => [] end) in *.
      assert (Hs0 : s0 = strs txts).
      { unfold s0. destruct head as [[i s]|]; [exact (proj2 Hhead)|]. subst done. inversion Hrun; subst. reflexivity. }
      assert (Hg' : good (done ++ t :: ts) (Some (n, s0 ++ text_to_string txt))).
      { exists (txts ++ [txt]). split; [|split].
        - subst n. rewrite Nat2N.id. replace (done ++ t :: ts) with ((done ++ [t]) ++ ts) by (rewrite <- app_assoc; reflexivity).
          replace (S (length done)) with (length (done ++ [t])) by (rewrite app_length; cbn [length]; lia). rewrite firstn_len_app.
          apply Forall2_app; [exact Hrun|]. constructor; [exact Ev|constructor].
        - rewrite strs_snoc, Hs0. reflexivity.
        - subst n. rewrite Nat2N.id, app_length. cbn [length]. lia. }
      replace (done ++ t :: ts) with ((done ++ [t]) ++ ts) in * by (rewrite <- app_assoc; reflexivity).
      eapply (IH (done ++ [t]) (n + 1)%N); [rewrite app_length; cbn [length]; lia| | |exact H].
      * exists (txts ++ [txt]). split; [apply Forall2_app; [exact Hrun|constructor; [exact Ev|constructor]]|].
        split; [subst n; rewrite Nat2N.id, app_length; cbn [length]; lia|]. rewrite strs_snoc, Hs0. reflexivity.
      * destruct (is_boundary t); [exact Hg'|exact Hchk].
    + inversion H; subst r. destruct (is_boundary t); [exact Hgh|exact Hchk].
Qed.

Lemma itp_run : forall sp ts n text, invariant_text_prefix has_casing (TCat sp ts) = Ok (n, text) -> (0 < n)%N ->
  exists txts, inv_run (firstn (N.to_nat n) ts) txts /\ text = strs txts /\ (N.to_nat n <= length ts)%nat.
Proof.
  intros sp ts n text H Hn. unfold invariant_text_prefix in H. cbn [concatenation] in H.
  match type of H with rbind ?X _ = _ => destruct X as [rv|] end; [|discriminate]. cbn [rbind] in H.
  destruct rv; [inversion H; subst; lia|].
  destruct (prefix_loop has_casing 0 ts None None) as [r|] eqn:E; [|discriminate]. cbn [rbind] in H.
  assert (Hg : good ([] ++ ts) r).
  { eapply (prefix_loop_good ts [] 0%N None None r); [reflexivity| |exact I|exact E]. exists []. split; [constructor|reflexivity]. }
  destruct r as [[i s]|]; [|inversion H; subst; lia]. inversion H; subst. cbn [app] in Hg. destruct Hg as [txts [Hrun [-> Hlen]]].
  exists txts. replace (N.to_nat (i + 1)) with (S (N.to_nat i)) by lia. split; [exact Hrun|]. split; [reflexivity|lia].
Qed.

Lemma fold_conj_invs : forall xs a, exists a', fold_left tvar_conj (map (fun x => Inv x) xs) (Inv a) = Inv a' /\
  text_to_string a' = text_to_string a ++ strs xs.
Proof.
  induction xs as [|x xs IH]; intros a.
  - exists a. split; [reflexivity|]. unfold strs. cbn. rewrite app_nil_r. reflexivity.
  - cbn [map fold_left tvar_conj]. destruct (IH (text_conj a x)) as [a' [E Hs]]. exists a'. split; [exact E|].
    rewrite Hs, text_conj_string. unfold strs. cbn [map concat]. rewrite app_assoc. reflexivity.
Qed.

Lemma flat_map_single : forall {A B} (f : A -> B) l, flat_map (fun x => [f x]) l = map f l.
Proof. induction l as [|a l IH]; [reflexivity|]. cbn [flat_map map app]. rewrite IH. reflexivity. Qed.

Lemma reduce_conj_invs : forall x xs, exists a',
  reduce_pure tvar_conj (flat_map (fun x0 : text => [@Inv text unit x0]) (x :: xs)) = Some (Inv a') /\ text_to_string a' = strs (x :: xs).
Proof.
  intros x xs. rewrite flat_map_single. cbn [map reduce_pure]. destruct (fold_conj_invs xs x) as [a' [E Hs]]. exists a'. split; [f_equal; exact E|].
  rewrite Hs. reflexivity.
Qed.

Lemma inv_run_fold : forall sp pre txts, inv_run pre txts -> forallb nonempty_branches pre = true -> pre <> [] ->
  exists txt, text_fold has_casing (TCat sp pre) = Ok (Some (Inv txt)) /\ text_to_string txt = strs txts.
Proof.
  intros sp pre txts Hrun Hne Hnil.
  assert (Hm : rmapM (text_fold has_casing) pre = Ok (map (fun x => Some (Inv x)) txts)).
  { induction Hrun as [|t x pre' txts' Ht Hrun' IH]; [reflexivity|]. cbn [forallb] in Hne. apply andb_prop in Hne. destruct Hne as [Hn0 Hne'].
    cbn [rmapM rbind map]. unfold text_variance in Ht. destruct (text_fold has_casing t) as [r|] eqn:E; [|discriminate]. cbn [rbind] in Ht.
    destruct r as [v|]; [|exfalso; apply (text_fold_some has_casing t Hn0 None E); reflexivity]. inversion Ht; subst v. cbn [rbind].
    destruct pre' as [|t1 pre'']; [inversion Hrun'; subst; reflexivity|].
    change ((fix go (l : list tok) : res (list (option tvar)) := match l with [] => Ok [] | a :: l' => do b <- text_fold has_casing a; do bs <- go l'; Ok (b :: bs) end) (t1 :: pre''))
      with (rmapM (text_fold has_casing) (t1 :: pre'')).
    rewrite IH by (assumption || discriminate). reflexivity. }
  cbn [text_fold]. rewrite Hm. cbn [rbind]. rewrite flat_map_concat_map, map_map. cbn [opt_list]. rewrite <- flat_map_concat_map.
  destruct txts as [|x xs]; [inversion Hrun; subst; congruence|].
  destruct (reduce_conj_invs x xs) as [a' [E Hs]]. exists a'. split; [f_equal; exact E|exact Hs].
Qed.

Definition bounds_list (l : list tok) : Prop :=
  (fix go (l : list tok) : Prop := match l with [] => True | x :: l' => tok_bounds_ok x /\ go l' end) l.
Lemma bounds_list_app_r : forall a b, bounds_list (a ++ b) -> bounds_list b.
Proof. induction a as [|x a IH]; intros b H; [exact H|]. destruct H as [_ H]. apply IH. exact H. Qed.

Lemma forallb_firstn : forall {A} (p : A -> bool) n l, forallb p l = true -> forallb p (firstn n l) = true.
Proof.
  intros A p n l H. rewrite forallb_forall in *. intros x Hx. apply H. rewrite <- (firstn_skipn n l). apply in_or_app. left. exact Hx.
Qed.

Lemma unroot_leaf_tree : forall t, is_tree t = true -> exists s1, fst (unroot t) = TLeaf s1 (LTree false).
Proof. intros [sp l| | |]; try discriminate. destruct l; try discriminate. intros _. destruct root, sp; eexists; reflexivity. Qed.

Lemma unroot_other : forall t, starts_tree t = false -> fst (unroot t) = t.
Proof. intros [[a b] l| | |] H; try reflexivity. destruct l; try reflexivity. discriminate. Qed.

(* the shape of a partition that leaves a postfix *)
Lemma partition_shape : forall e sp ts text post e',
  bounds_list ts -> partition has_casing e (TCat sp ts) = Ok (PartSome text post e') ->
  exists n first rest g, invariant_text_prefix has_casing (TCat sp ts) = Ok (n, text) /\
    skipn (N.to_nat n) ts = first :: rest /\ (N.to_nat n < length ts)%nat /\ post = respan g (TCat sp (fst (unroot first) :: rest)).
Proof.
  intros e sp ts text post e' Hb H. unfold partition in H.
  destruct (invariant_text_prefix has_casing (TCat sp ts)) as [[n text0]|] eqn:Ei; [|discriminate]. cbn [rbind] in H.
  destruct (N.leb_spec (N.of_nat (length ts)) n) as [Hle|Hlt]; [discriminate|].
  destruct (skipn (N.to_nat n) ts) as [|first rest] eqn:Es; [discriminate|].
  destruct (unroot first) as [first' u] eqn:Eu.
  match type of H with rbind (fold_map ?g ?p) _ = _ => assert (Ef : fold_map g p = Ok (respan g p)); [|rewrite Ef in H; cbn [rbind] in H] end.
  { apply fold_map_respan. cbn [tok_bounds_ok]. rewrite <- (firstn_skipn (N.to_nat n) ts), Es in Hb. apply bounds_list_app_r in Hb.
    destruct Hb as [Hf Hr]. split; [|exact Hr]. destruct first as [s0 l0| | |]; cbn [unroot] in Eu; try (inversion Eu; subst; exact Hf).
    destruct s0, l0; try (inversion Eu; subst; exact I). destruct root; inversion Eu; subst; exact I. }
  match type of H with match ?d with _ => _ end = _ => destruct d end; [|discriminate]. inversion H; subst.
  match type of Ef with fold_map ?g _ = _ => exists n, first, rest, g end. split; [reflexivity|]. split; [exact Es|]. split; [lia|]. rewrite Eu. reflexivity.
Qed.

(* C08, nothing popped: the glob has no invariant prefix (the postfix is the glob) or begins with a rooted tree wildcard
   (the prefix is the root and the wildcard gives up its separator) *)
Theorem partition_lang_no_prefix : forall e sp ts text post e',
  bounds_list ts -> invariant_text_prefix has_casing (TCat sp ts) = Ok (0%N, text) ->
  partition has_casing e (TCat sp ts) = Ok (PartSome text post e') ->
  forall w, Lang (TCat sp ts) w <->
    match ts with
    | TLeaf _ (LTree true) :: _ => exists r, w = SEP :: r /\ Lang post r
    | _ => Lang post w
    end.
Proof.
  intros e sp ts text post e' Hb Hi H w. destruct (partition_shape _ _ _ _ _ _ Hb H) as [n [first [rest [g [Hi' [Hs [Hlen ->]]]]]]].
  rewrite Hi in Hi'. inversion Hi'; subst n. cbn [N.to_nat skipn] in Hs. subst ts.
  destruct first as [s0 l0|s0 bs|s0 cs|s0 b lo hi]; cbn [unroot fst]; try (rewrite lang_respan; reflexivity).
  destruct s0 as [a b]. destruct l0; cbn [fst]; try (rewrite lang_respan; reflexivity). destruct root; cbn [fst]; [|rewrite lang_respan; reflexivity].
  rewrite (lang_unroot_start sp (a, b) (a + 1, b - 1)%N rest w). split; intros [r [-> Hr]]; exists r; (split; [reflexivity|]); [exact (proj2 (lang_respan g _ r) Hr)|exact (proj1 (lang_respan g _ r) Hr)].
Qed.

(* C08, a prefix was popped *)
Theorem partition_lang_prefix : forall e sp ts n text post e',
  bounds_list ts -> nonempty_branches (TCat sp ts) = true -> classes_plain (TCat sp ts) = true ->
  invariant_text_prefix has_casing (TCat sp ts) = Ok (n, text) -> (0 < n)%N -> text <> [] ->
  partition has_casing e (TCat sp ts) = Ok (PartSome text post e') ->
  forall first rest, skipn (N.to_nat n) ts = first :: rest ->
    (* what follows the prefix cannot begin with a tree wildcard: the texts of the glob are the prefix followed by the texts of the postfix *)
    (starts_tree_list (first :: rest) = false -> forall w, Lang (TCat sp ts) w <-> exists r, w = text ++ r /\ Lang post r) /\
    (* a tree wildcard follows the prefix: it gives up its separator; if nothing need follow it, the prefix alone is matched too *)
    (is_tree first = true -> forall w, Lang (TCat sp ts) w <->
       (exists r, w = text ++ SEP :: r /\ Lang post r) \/ (w = text /\ Expands (TCat sp rest) [])).
Proof.
  intros e sp ts n text post e' Hb Hne Hcl Hi Hn Htext H first rest Hs.
  destruct (partition_shape _ _ _ _ _ _ Hb H) as [n' [first' [rest' [g [Hi' [Hs' [Hlen ->]]]]]]].
  rewrite Hi in Hi'. inversion Hi'; subst n'. rewrite Hs in Hs'. inversion Hs'; subst first' rest'. clear Hi' Hs'.
  destruct (itp_run _ _ _ _ Hi Hn) as [txts [Hrun [Ht Hle]]].
  assert (Hts : ts = firstn (N.to_nat n) ts ++ first :: rest) by (rewrite <- Hs; symmetry; apply firstn_skipn).
  assert (Hfn := forallb_firstn nonempty_branches (N.to_nat n) ts).
  assert (Hfc := forallb_firstn classes_plain (N.to_nat n) ts).
  remember (firstn (N.to_nat n) ts) as pre eqn:Epre.
  cbn [nonempty_branches classes_plain] in Hne, Hcl. apply andb_prop in Hne. destruct Hne as [_ Hne].
  assert (Hpre : pre <> []). { subst pre. destruct ts; [cbn in Hlen; lia|]. destruct (N.to_nat n) eqn:E; [lia|]. discriminate. }
  destruct (inv_run_fold sp pre txts Hrun (Hfn Hne) Hpre) as [txt [Hfold Hstr]].
  assert (Hne' : nonempty_branches (TCat sp pre) = true).
  { cbn [nonempty_branches]. rewrite (Hfn Hne). destruct pre; [congruence|reflexivity]. }
  assert (Hcl' : classes_plain (TCat sp pre) = true) by (cbn [classes_plain]; apply Hfc; exact Hcl).
  assert (Hsplit := prefix_split sp pre txt Hfold Hne' Hcl').
  rewrite Hstr, <- Ht in Hsplit. specialize (Hsplit Htext (first :: rest)). rewrite <- Hts in Hsplit.
  split.
  - intros Hst w. rewrite Hsplit. cbn [starts_tree_list] in Hst. apply orb_false_iff in Hst. rewrite (unroot_other first (proj1 Hst)).
    assert (Hst' : starts_tree (TCat sp (first :: rest)) = false) by (cbn [starts_tree]; apply orb_false_iff; exact Hst).
    split; intros [v [-> Hv]]; exists v; (split; [reflexivity|]).
    + apply lang_respan. apply (langF_flag _ false true _ Hst'). exact Hv.
    + apply (langF_flag _ true false _ Hst'). exact (proj1 (lang_respan g _ v) Hv).
  - intros Htree w. rewrite Hsplit. destruct (unroot_leaf_tree first Htree) as [s1 ->].
    destruct first as [s0 l0| | |]; try discriminate. destruct l0; try discriminate.
    split.
    + intros [v [-> Hv]]. apply (langF_unroot_mid sp s0 s1) in Hv. destruct Hv as [[r [-> Hr]]|[-> Hr]].
      * left. exists r. split; [reflexivity|]. apply lang_respan. exact Hr.
      * right. rewrite app_nil_r. auto.
    + intros [[r [-> Hr]]|[-> Hr]].
      * exists (SEP :: r). split; [reflexivity|]. apply (langF_unroot_mid sp s0 s1). left. exists r. split; [reflexivity|]. exact (proj1 (lang_respan g _ r) Hr).
      * exists []. split; [rewrite app_nil_r; reflexivity|]. apply (langF_unroot_mid sp s0 s1). right. auto.
Qed.

End PartitionLang.

(* ---- for the globs that build ------------------------------------------------------------------------------------------------------- *)
From WaxModel Require Import Parse Glob.
From WaxProofs Require Import BuiltFacts.
From WaxProofs Require Import BuiltNonempty.

Theorem built_partition_no_prefix : forall orbit has_casing e sp ts r text post e',
  build e = BuildOk (TCat sp ts) r -> invariant_text_prefix has_casing (TCat sp ts) = Ok (0%N, text) ->
  partition has_casing e (TCat sp ts) = Ok (PartSome text post e') ->
  forall w, Spec.Lang orbit (TCat sp ts) w <->
    match ts with
    | TLeaf _ (LTree true) :: _ => exists r, w = SEP :: r /\ Spec.Lang orbit post r
    | _ => Spec.Lang orbit post w
    end.
Proof.
  intros orbit hc e sp ts r text post e' Hb. apply partition_lang_no_prefix. exact (built_bounds_ok _ _ _ Hb).
Qed.

Theorem built_partition_prefix : forall orbit has_casing,
  (forall c d, has_casing c = false -> In d (orbit c) -> d = c) ->
  forall e sp ts r n text post e',
  build e = BuildOk (TCat sp ts) r -> classes_plain (TCat sp ts) = true ->
  invariant_text_prefix has_casing (TCat sp ts) = Ok (n, text) -> (0 < n)%N -> text <> [] ->
  partition has_casing e (TCat sp ts) = Ok (PartSome text post e') ->
  forall first rest, skipn (N.to_nat n) ts = first :: rest ->
    (starts_tree_list (first :: rest) = false -> forall w, Spec.Lang orbit (TCat sp ts) w <-> exists r, w = text ++ r /\ Spec.Lang orbit post r) /\
    (is_tree first = true -> forall w, Spec.Lang orbit (TCat sp ts) w <->
       (exists r, w = text ++ SEP :: r /\ Spec.Lang orbit post r) \/ (w = text /\ Spec.Expands (TCat sp rest) [])).
Proof.
  intros orbit hc Hco e sp ts r n text post e' Hb Hcl. apply (partition_lang_prefix orbit hc Hco); [exact (built_bounds_ok _ _ _ Hb)| |exact Hcl].
  exact (built_nonempty_branches _ _ _ Hb).
Qed.

Definition ex1 : str := [97; 47; 42; 42; 47; 98]%N.        (* a/**/b *)
Definition ex2 : str := [97; 47; 98; 47; 42; 46; 99]%N.    (* a/b/*.c *)

(* the premises are satisfiable: `a/**/b` (a tree wildcard follows the prefix `a`) and `a/b/*.c` (the prefix `a/b/` ends at a separator) *)
Example partition_prefix_tree_nonvacuous :
  exists sp ts r post e' first rest,
    build ex1 = BuildOk (TCat sp ts) r /\ classes_plain (TCat sp ts) = true /\
    invariant_text_prefix (fun _ => false) (TCat sp ts) = Ok (1%N, [97%N]) /\
    partition (fun _ => false) ex1 (TCat sp ts) = Ok (PartSome [97%N] post e') /\
    skipn 1 ts = first :: rest /\ is_tree first = true.
Proof. do 7 eexists. repeat split; vm_compute; reflexivity. Qed.

Example partition_prefix_sep_nonvacuous :
  exists sp ts r post e' first rest,
    build ex2 = BuildOk (TCat sp ts) r /\ classes_plain (TCat sp ts) = true /\
    invariant_text_prefix (fun _ => false) (TCat sp ts) = Ok (4%N, [97; 47; 98; 47]%N) /\
    partition (fun _ => false) ex2 (TCat sp ts) = Ok (PartSome [97; 47; 98; 47]%N post e') /\
    skipn 4 ts = first :: rest /\ starts_tree_list (first :: rest) = false.
Proof. do 7 eexists. repeat split; vm_compute; reflexivity. Qed.
