(* ParseShape.v -- the shape of every parsed tree: the members of a concatenation are leaves, alternations or repetitions (never
   concatenations), the branches of an alternation and the body of a repetition are concatenations.  Without repetitions this is the
   shape [shp] on which the rule checker is proved sound for the boundary rule over expansions (RuleAdjFacts). *)
From Coq Require Import Arith Lia.
From WaxModel Require Import Base Token Regex Spec Encode Variance Fold Rule Parse Query Glob.
From WaxProofs Require Import AlgebraFacts OwnedFacts FuelFacts RuleFacts SpecFacts BuiltFacts BuiltNonempty DepthTreeFacts DepthAltFacts.
From WaxProofs Require Import RuleAdjFacts.
Local Open Scope N_scope.

Fixpoint sh (t : tok) : Prop :=
  match t with
  | TLeaf _ _ => True
  | TAlt _ bs => (fix go (l : list tok) : Prop := match l with [] => True | x :: l' => (is_cat x = true /\ sh x) /\ go l' end) bs
  | TCat _ ts => (fix go (l : list tok) : Prop := match l with [] => True | x :: l' => (is_cat x = false /\ sh x) /\ go l' end) ts
  | TRep _ b _ _ => is_cat b = true /\ sh b
  end.
Definition all_mem (l : list tok) : Prop := (fix go (l : list tok) : Prop := match l with [] => True | x :: l' => (is_cat x = false /\ sh x) /\ go l' end) l.
Definition all_br (l : list tok) : Prop := (fix go (l : list tok) : Prop := match l with [] => True | x :: l' => (is_cat x = true /\ sh x) /\ go l' end) l.

Definition tokens_h (f : nat) : Prop := forall tm i ts i', p_tokens f tm i = POk (ts, i') -> all_mem ts.
Definition token_h (f : nat) : Prop := forall tm i t i', p_token f tm i = POk (t, i') -> is_cat t = false /\ sh t.
Definition branches_h (f : nat) : Prop := forall i bs i', p_branches f i = POk (bs, i') -> all_br bs.
Definition glob_h (f : nat) : Prop := forall tm i t i', p_glob f tm i = POk (t, i') -> is_cat t = true /\ sh t.

Ltac leaf_tail_h H :=
  match type of H with context [p_wildcard ?tm ?iF] =>
    destruct (p_wildcard tm iF) as [[? ?]|]; cbn [leaf_tok] in H;
    [ inversion H; subst; split; [reflexivity|exact I]
    | destruct (p_class iF) as [[? ?]|]; cbn [leaf_tok] in H;
      [ inversion H; subst; split; [reflexivity|exact I]
      | match type of H with (match ?T with _ => _ end) = _ =>
          destruct T as [[? ?]|]; [|discriminate]; inversion H; subst; split; [reflexivity|exact I]
        end ] ]
  end.

Lemma step_h : forall f, tokens_h f -> token_h f -> branches_h f -> glob_h f ->
  tokens_h (S f) /\ token_h (S f) /\ branches_h (S f) /\ glob_h (S f).
Proof.
  intros f IHts IHt IHb IHg. split; [|split; [|split]].
  - intros tm i ts i' H. cbn [p_tokens] in H.
    destruct (p_token f tm i) as [[t i1]| |] eqn:Et; [| |discriminate].
    + destruct (p_tokens f tm i1) as [[ts' i2]| |] eqn:Ets; try discriminate. inversion H; subst.
      split; [exact (IHt _ _ _ _ Et)|exact (IHts _ _ _ _ Ets)].
    + inversion H; subst. exact I.
  - intros tm i t i' H. cbn [p_token] in H. set (iF := flags_with_state i) in *.
    destruct (p_literal iF) as [[l1 i1]|] eqn:El; cbn [leaf_tok] in H.
    { inversion H; subst. split; [reflexivity|exact I]. }
    assert (AltTail :
      match
        match (match i_s iF with c :: r => if c =? c_lbrace then Some (c, r) else None | [] => None end) with
        | Some (c, r) =>
            match p_branches f (adv1 iF c r) with
            | PFuel => PFuel
            | PErr => POk None
            | POk (bs, i1) => match tag1 c_rbrace i1 with Some i2 => POk (Some (TAlt (mk_span i i2) bs, i2)) | None => POk None end
            end
        | None => POk None
        end
      with
      | PFuel => PFuel
      | PErr => PErr
      | POk (Some x) => POk x
      | POk None =>
          match leaf_tok i (p_wildcard tm iF) with
          | Some x => POk x
          | None => match leaf_tok i (p_class iF) with
                    | Some x => POk x
                    | None => match (match i_s iF with c :: r => if c =? SEP then Some (c, r) else None | [] => None end) with
                              | Some (c, r) => POk (TLeaf (mk_span i (adv1 iF c r)) LSep, adv1 iF c r)
                              | None => PErr
                              end
                    end
          end
      end = POk (t, i') -> is_cat t = false /\ sh t).
    { intros HA.
      destruct (match i_s iF with c :: r => if c =? c_lbrace then Some (c, r) else None | [] => None end) as [[c r]|] eqn:Elb.
      - destruct (p_branches f (adv1 iF c r)) as [[bs i1]| |] eqn:Eb; [| |discriminate].
        + destruct (tag1 c_rbrace i1) as [i2|] eqn:Etg.
          * inversion HA; subst. split; [reflexivity|]. cbn [sh]. exact (IHb _ _ _ Eb).
          * leaf_tail_h HA.
        + leaf_tail_h HA.
      - leaf_tail_h HA. }
    destruct (match i_s iF with c :: r => if c =? c_lt then Some (c, r) else None | [] => None end) as [[c r]|] eqn:Elt.
    + destruct (p_glob f TermRep (adv1 iF c r)) as [[body i1]| |] eqn:Eg; [| |discriminate].
      * destruct (p_bounds i1) as [[lo hi] i2] eqn:Ebd.
        destruct (tag1 c_gt i2) as [i3|] eqn:Etg.
        -- inversion H; subst. split; [reflexivity|]. cbn [sh]. exact (IHg _ _ _ _ Eg).
        -- apply AltTail. exact H.
      * apply AltTail. exact H.
    + apply AltTail. exact H.
  - intros i bs i' H. cbn [p_branches] in H.
    destruct (p_glob f TermAlt i) as [[b i1]| |] eqn:Eg; try discriminate. pose proof (IHg _ _ _ _ Eg) as Hb.
    destruct (match i_s i1 with c :: r => if c =? c_comma then Some (c, r) else None | [] => None end) as [[c r]|] eqn:Ec.
    + destruct (p_branches f (adv1 i1 c r)) as [[bs' i2]| |] eqn:Eb; [| |discriminate].
      * inversion H; subst. split; [exact Hb|exact (IHb _ _ _ Eb)].
      * inversion H; subst. split; [exact Hb|exact I].
    + inversion H; subst. split; [exact Hb|exact I].
  - intros tm i t i' H. cbn [p_glob] in H.
    destruct (p_tokens f tm (set_sub i)) as [[ts i1]| |] eqn:Ets; try discriminate.
    destruct ts as [|t0 ts']; [discriminate|]. destruct (term_ok tm i1); [|discriminate]. inversion H; subst.
    split; [reflexivity|]. cbn [sh]. exact (IHts _ _ _ _ Ets).
Qed.

Theorem grammar_h : forall f, tokens_h f /\ token_h f /\ branches_h f /\ glob_h f.
Proof.
  induction f as [|f [H1 [H2 [H3 H4]]]].
  - split; [|split; [|split]]; intro; intros; cbn in *; discriminate.
  - apply step_h; assumption.
Qed.

Theorem parse_sh : forall e t, parse e = ParseOk t -> sh t.
Proof.
  intros e t H. unfold parse in H. destruct e as [|c e]; [inversion H; subst; exact I|].
  destruct (p_tokens (parse_fuel (c :: e)) TermTop (set_sub (init_input (c :: e)))) as [[ts i1]| |] eqn:E; try discriminate.
  destruct ts as [|t0 ts]; [discriminate|]. destruct (i_s i1); [|discriminate]. inversion H; subst.
  cbn [sh]. exact (proj1 (grammar_h _) _ _ _ _ E).
Qed.



Lemma sh_shp : forall t, sh t -> rep_free t = true -> shp t = true.
Proof.
  induction t as [sp l|sp bs IH|sp ts IH|sp b lo hi IH] using tok_ind'; intros Hs Hr; try reflexivity; try discriminate; cbn [sh shp rep_free] in *.
  - induction IH as [|x l Hx _ IHl]; [reflexivity|]. destruct Hs as [[Hc Hsx] Hs']. cbn [forallb] in *. apply andb_prop in Hr. destruct Hr as [Hr1 Hr2].
    rewrite Hc, (Hx Hsx Hr1), (IHl Hs' Hr2). reflexivity.
  - induction IH as [|x l Hx _ IHl]; [reflexivity|]. destruct Hs as [[Hc Hsx] Hs']. cbn [forallb] in *. apply andb_prop in Hr. destruct Hr as [Hr1 Hr2].
    rewrite Hc, (Hx Hsx Hr1), (IHl Hs' Hr2). reflexivity.
Qed.

(* C06 / C10: no expansion of a glob that builds and has no repetition holds two adjacent boundaries *)
Theorem built_no_adjacent_boundaries : forall e t r, build e = BuildOk t r -> rep_free t = true ->
  forall x, Expands t x -> chain_ok false x = true.
Proof.
  intros e t r Hb Hr x Hx. unfold build in Hb. destruct (parse e) as [t0| |] eqn:Ep; try discriminate.
  destruct (check t0) as [[[k sp]|]|s] eqn:Ec; try discriminate. destruct (compile_ok (encode t0)) eqn:Eco; [|discriminate]. inversion Hb; subst.
  apply (check_no_adjacent_boundaries t Ec); [apply sh_shp; [eapply parse_sh; exact Ep|exact Hr]| |exact Hx].
  apply (built_nonempty_branches e t (encode t)). unfold build. rewrite Ep, Ec, Eco. reflexivity.
Qed.
