(* NegationFacts.v -- C03: the two programs a negation is compiled into (Token::into_alternatives, the partition by
   exhaustiveness, the `any` of each part) together match exactly what the negated pattern matches: at the level of the
   documented language, (exhaustive part or non-exhaustive part) = the pattern.  Includes the adequacy of the fuel of
   the alternatives queue. *)
From Coq Require Import Arith Lia.
From WaxModel Require Import Base Token Regex Spec Encode Variance Fold Rule Parse Query.
From WaxProofs Require Import AlgebraFacts SemanticFacts ComposeFacts OwnedFacts TextExists.
Local Open Scope nat_scope.

Section Negation.
Variable orbit : char -> list char.
Notation Lang := (Spec.Lang orbit).

(* ---- spans are irrelevant to the language -------------------------------------------------------------------------------- *)
Lemma expands_respan : forall f t x, Expands (respan f t) x <-> Expands t x.
Proof.
  intros f t. induction t as [sp l|sp bs IH|sp ts IH|sp b lo hi IH] using tok_ind'; intros x; cbn [respan].
  - split; intros H; inversion H; subst; constructor.
  - rewrite !expands_alt. split.
    + intros [b [Hin Hb]]. apply in_map_iff in Hin. destruct Hin as [b0 [<- Hin0]]. exists b0. split; [exact Hin0|].
      rewrite Forall_forall in IH. apply (IH b0 Hin0). exact Hb.
    + intros [b [Hin Hb]]. exists (respan f b). split; [apply in_map; exact Hin|]. rewrite Forall_forall in IH. apply (IH b Hin). exact Hb.
  - assert (HF : forall xs, Forall2 Expands (map (respan f) ts) xs <-> Forall2 Expands ts xs).
    { induction IH as [|t ts Ht _ IHts]; intros xs; cbn [map].
      - split; intros H; inversion H; constructor.
      - split; intros H; inversion H; subst; constructor; try (apply Ht; assumption); apply IHts; assumption. }
    split; intros H; inversion H; subst; constructor; apply HF; assumption.
  - assert (HF : forall xs, Forall (Expands (respan f b)) xs <-> Forall (Expands b) xs).
    { intros xs. split; intros H; (eapply Forall_impl; [|exact H]); intros y Hy; apply IH; exact Hy. }
    split; intros H; inversion H; subst; constructor; try assumption; apply HF; assumption.
Qed.

Lemma lang_respan : forall f t w, Lang (respan f t) w <-> Lang t w.
Proof. intros f t w. unfold Spec.Lang. split; intros [x [Hx Hm]]; exists x; (split; [apply (expands_respan f t x); exact Hx|exact Hm]). Qed.

(* ---- trivial branches ---------------------------------------------------------------------------------------------------------- *)
Lemma expands_single_cat : forall sp b x, Expands (TCat sp [b]) x <-> Expands b x.
Proof.
  intros sp b x. split.
  - intros H. inversion H as [| |? ? xs HF|]; subst. inversion HF as [|? y ? ys Hy Hr]; subst. inversion Hr; subst. cbn [concat]. rewrite app_nil_r. exact Hy.
  - intros H. rewrite <- (app_nil_r x). change (x ++ []) with (concat [x]). constructor. constructor; [exact H|constructor].
Qed.

Lemma expands_non_trivial : forall t x, Expands (into_non_trivial t) x <-> Expands t x.
Proof.
  induction t as [sp l|sp bs IH|sp ts IH|sp b lo hi IH] using tok_ind'; intros x; cbn [into_non_trivial].
  - reflexivity.
  - destruct bs as [|b [|b2 bs']]; try reflexivity. inversion IH as [|? ? Hb _]; subst. rewrite Hb. rewrite expands_alt. split.
    + intros H. exists b. split; [left; reflexivity|exact H].
    + intros [b' [[<-|[]] H]]. exact H.
  - destruct ts as [|b [|b2 ts']]; try reflexivity. inversion IH as [|? ? Hb _]; subst. rewrite Hb. symmetry. apply expands_single_cat.
  - destruct (rep_range lo hi) as [n|v] eqn:Er; [|reflexivity]. destruct n as [|p]; [reflexivity|]. destruct p; try reflexivity.
    destruct (rep_range_inv_bounds lo hi 1 Er) as [-> ->]. rewrite IH. split.
    + intros H. rewrite <- (app_nil_r x). change (x ++ []) with (concat [x]). constructor; [cbn; unfold in_bounds; cbn; lia|constructor; [exact H|constructor]].
    + intros H. inversion H as [| | |? ? ? ? xs [Hlo Hhi] HF]; subst. destruct xs as [|y [|y2 ys]]; cbn [length] in *; try lia.
      inversion HF; subst. cbn [concat]. rewrite app_nil_r. assumption.
Qed.

Lemma lang_non_trivial : forall t w, Lang (into_non_trivial t) w <-> Lang t w.
Proof. intros t w. unfold Spec.Lang. split; intros [x [Hx Hm]]; exists x; (split; [apply expands_non_trivial; exact Hx|exact Hm]). Qed.

Lemma tsize_non_trivial : forall t, tsize (into_non_trivial t) <= tsize t.
Proof.
  induction t as [sp l|sp bs IH|sp ts IH|sp b lo hi IH] using tok_ind'; cbn [into_non_trivial]; try lia.
  - destruct bs as [|b [|b2 bs']]; try lia. inversion IH; subst. cbn [tsize fold_right]. lia.
  - destruct ts as [|b [|b2 ts']]; try lia. inversion IH; subst. cbn [tsize fold_right]. lia.
  - destruct (rep_range lo hi) as [n|v]; [|lia]. destruct n as [|p]; [lia|]. destruct p; try lia. cbn [tsize]. lia.
Qed.

(* ---- the alternatives queue ------------------------------------------------------------------------------------------------------ *)
Lemma csize_filter_le : forall (p : tok -> bool) l, csize (filter p l) <= csize l.
Proof. intros p l. induction l as [|t l IH]; [cbn; lia|]. cbn [filter]. destruct (p t); cbn [csize fold_right] in *; fold (csize l) (csize (filter p l)); lia. Qed.

Lemma csize_map_non_trivial : forall l, csize (map into_non_trivial l) <= csize l.
Proof. induction l as [|t l IH]; [cbn; lia|]. cbn [map csize fold_right]. fold (csize l) (csize (map into_non_trivial l)). pose proof (tsize_non_trivial t). lia. Qed.

Lemma alternatives_spec : forall fuel queue w, csize queue < fuel ->
  ((exists a, In a (alternatives_loop fuel queue) /\ Lang a w) <-> (exists t, In t queue /\ Lang t w)).
Proof.
  induction fuel as [|f IH]; intros queue w Hf; [lia|]. cbn [alternatives_loop]. destruct queue as [|t rest].
  - split; intros [a [[] _]].
  - cbn [csize fold_right] in Hf. fold (csize rest) in Hf.
    assert (Hother : csize rest < f ->
              ((exists a, In a (t :: alternatives_loop f rest) /\ Lang a w) <-> (exists t0, In t0 (t :: rest) /\ Lang t0 w))).
    { intros Hr. split.
      - intros [a [[<-|Hin] Ha]]; [exists t; split; [left; reflexivity|exact Ha]|].
        destruct (proj1 (IH rest w Hr) (ex_intro _ a (conj Hin Ha))) as [t0 [Hin0 H0]]. exists t0. split; [right; exact Hin0|exact H0].
      - intros [t0 [[<-|Hin] H0]]; [exists t; split; [left; reflexivity|exact H0]|].
        destruct (proj2 (IH rest w Hr) (ex_intro _ t0 (conj Hin H0))) as [a [Hina Ha]]. exists a. split; [right; exact Hina|exact Ha]. }
    pose proof (tsize_pos t) as Hpos.
    destruct t as [sp l|sp bs|sp ts|sp b lo hi]; try (apply Hother; lia).
    (* an alternation: its branches, made non-trivial, are output or queued *)
    set (bs' := map into_non_trivial bs).
    assert (Hq : csize (rest ++ filter is_disjunctive bs') < f).
    { rewrite csize_app. pose proof (csize_filter_le is_disjunctive bs'). pose proof (csize_map_non_trivial bs). subst bs'.
      cbn [tsize] in Hf. fold (csize bs) in Hf. lia. }
    assert (Hbs : (exists b', In b' bs' /\ Lang b' w) <-> Lang (TAlt sp bs) w).
    { rewrite lang_alt. subst bs'. split.
      - intros [b' [Hin Hb]]. apply in_map_iff in Hin. destruct Hin as [b [<- Hin]]. exists b. split; [exact Hin|apply lang_non_trivial; exact Hb].
      - intros [b [Hin Hb]]. exists (into_non_trivial b). split; [apply in_map; exact Hin|apply lang_non_trivial; exact Hb]. }
    split.
    + intros [a [Hin Ha]]. apply in_app_or in Hin. destruct Hin as [Hin|Hin].
      * apply filter_In in Hin. exists (TAlt sp bs). split; [left; reflexivity|]. apply Hbs. exists a. split; [exact (proj1 Hin)|exact Ha].
      * destruct (proj1 (IH _ w Hq) (ex_intro _ a (conj Hin Ha))) as [t0 [Hin0 H0]]. apply in_app_or in Hin0. destruct Hin0 as [Hr|Hd].
        -- exists t0. split; [right; exact Hr|exact H0].
        -- apply filter_In in Hd. exists (TAlt sp bs). split; [left; reflexivity|]. apply Hbs. exists t0. split; [exact (proj1 Hd)|exact H0].
    + intros [t0 [[<-|Hin] H0]].
      * apply Hbs in H0. destruct H0 as [b' [Hin' Hb']]. destruct (is_disjunctive b') eqn:Ed.
        -- destruct (proj2 (IH _ w Hq)) as [a [Hina Ha]].
           { exists b'. split; [apply in_or_app; right; apply filter_In; split; assumption|exact Hb']. }
           exists a. split; [apply in_or_app; right; exact Hina|exact Ha].
        -- exists b'. split; [apply in_or_app; left; apply filter_In; split; [exact Hin'|rewrite Ed; reflexivity]|exact Hb'].
      * destruct (proj2 (IH _ w Hq)) as [a [Hina Ha]].
        { exists t0. split; [apply in_or_app; left; exact Hin|exact H0]. }
        exists a. split; [apply in_or_app; right; exact Hina|exact Ha].
Qed.

Theorem into_alternatives_lang : forall t w, (exists a, In a (into_alternatives t) /\ Lang a w) <-> Lang t w.
Proof.
  intros t w. unfold into_alternatives. rewrite alternatives_spec.
  - split.
    + intros [t0 [[<-|[]] H]]. apply lang_non_trivial. exact H.
    + intros H. exists (into_non_trivial t). split; [left; reflexivity|apply lang_non_trivial; exact H].
  - cbn [csize fold_right]. pose proof (tsize_non_trivial t). lia.
Qed.


(* ---- the partition into an exhaustive and a non-exhaustive combinator ------------------------------------------------------------ *)
Definition opt_lang (o : option tok) (w : str) : Prop := match o with Some t => Lang t w | None => False end.

Lemma any_tree_lang : forall ts t w, Forall tok_bounds_ok ts -> any_tree ts = Ok t ->
  (Lang t w <-> exists a, In a ts /\ Lang a w).
Proof.
  intros ts t w Hb H. unfold any_tree in H.
  assert (Hm : rmapM (fold_map (fun _ => (0%N, 0%N))) ts = Ok (map (respan (fun _ => (0%N, 0%N))) ts)).
  { clear H. induction Hb as [|a ts Ha _ IH]; [reflexivity|]. cbn [rmapM map]. rewrite (fold_map_respan _ a Ha). cbn [rbind]. rewrite IH. reflexivity. }
  rewrite Hm in H. cbn [rbind] in H. inversion H; subst. rewrite lang_alt. split.
  - intros [b [Hin Hl]]. apply in_map_iff in Hin. destruct Hin as [a [<- Hin]]. exists a. split; [exact Hin|apply (lang_respan (fun _ => (0%N, 0%N)) a w); exact Hl].
  - intros [a [Hin Hl]]. exists (respan (fun _ => (0%N, 0%N)) a). split; [apply in_map; exact Hin|apply lang_respan; exact Hl].
Qed.

(* C03: what the two programs of a negation match together is what the negated pattern matches *)
Theorem not_partition_lang : forall t ext nxt w,
  Forall tok_bounds_ok (into_alternatives t) -> not_partition t = Ok (ext, nxt) ->
  ((opt_lang ext w \/ opt_lang nxt w) <-> Lang t w).
Proof.
  intros t ext nxt w Hb H. unfold not_partition in H.
  destruct (rmapM (fun a => do w0 <- is_exhaustive a; Ok (match w0 with Always => true | _ => false end)) (into_alternatives t)) as [flags|] eqn:Ef; [|discriminate].
  cbn [rbind] in H.
  set (alts := into_alternatives t) in *. set (tagged := combine alts flags) in *.
  set (ex := map fst (filter (fun p => snd p) tagged)) in *. set (nx := map fst (filter (fun p => negb (snd p)) tagged)) in *.
  assert (Hlen : length flags = length alts).
  { clear -Ef. revert flags Ef. induction alts as [|a l IH]; intros flags Ef; cbn [rmapM] in Ef; [inversion Ef; reflexivity|].
    destruct (is_exhaustive a); [|discriminate]. cbn [rbind] in Ef. destruct (rmapM _ l) as [fl|] eqn:E; [|discriminate]. cbn [rbind] in Ef.
    inversion Ef; subst. cbn [length]. rewrite (IH fl eq_refl). reflexivity. }
  assert (Hcover : forall a, In a alts <-> In a ex \/ In a nx).
  { intros a. subst ex nx. rewrite !in_map_iff. split.
    - intros Hin. assert (Hp : exists fl, In (a, fl) tagged).
      { subst tagged. clear -Hin Hlen. revert flags Hlen. induction alts as [|x l IH]; intros flags Hlen; [contradiction|].
        destruct flags as [|fl0 fls]; [discriminate|]. cbn [combine]. destruct Hin as [->|Hin]; [exists fl0; left; reflexivity|].
        destruct (IH Hin fls ltac:(cbn in Hlen; lia)) as [fl Hfl]. exists fl. right. exact Hfl. }
      destruct Hp as [fl Hp]. destruct fl; [left; exists (a, true)|right; exists (a, false)]; (split; [reflexivity|apply filter_In; split; [exact Hp|reflexivity]]).
    - intros [[[a' fl] [<- Hin]]|[[a' fl] [<- Hin]]]; apply filter_In in Hin; destruct Hin as [Hin _]; apply in_combine_l in Hin; exact Hin. }
  assert (Hbex : Forall tok_bounds_ok ex) by (apply Forall_forall; intros a Ha; rewrite Forall_forall in Hb; apply Hb, Hcover; left; exact Ha).
  assert (Hbnx : Forall tok_bounds_ok nx) by (apply Forall_forall; intros a Ha; rewrite Forall_forall in Hb; apply Hb, Hcover; right; exact Ha).
  assert (Hex : forall o, match ex with [] => Ok None | _ => rmap Some (any_tree ex) end = Ok o -> (opt_lang o w <-> exists a, In a ex /\ Lang a w)).
  { intros o Ho. destruct ex as [|e0 ex'] eqn:Ee.
    - inversion Ho; subst. cbn. split; [contradiction|intros [a [[] _]]].
    - destruct (any_tree (e0 :: ex')) as [tx|] eqn:Et; [|discriminate]. inversion Ho; subst. cbn [opt_lang]. apply any_tree_lang; assumption. }
  assert (Hnx : forall o, match nx with [] => Ok None | _ => rmap Some (any_tree nx) end = Ok o -> (opt_lang o w <-> exists a, In a nx /\ Lang a w)).
  { intros o Ho. destruct nx as [|e0 nx'] eqn:Ee.
    - inversion Ho; subst. cbn. split; [contradiction|intros [a [[] _]]].
    - destruct (any_tree (e0 :: nx')) as [tx|] eqn:Et; [|discriminate]. inversion Ho; subst. cbn [opt_lang]. apply any_tree_lang; assumption. }
  destruct (match ex with [] => Ok None | _ => rmap Some (any_tree ex) end) as [oe|] eqn:Eoe; [|discriminate]. cbn [rbind] in H.
  destruct (match nx with [] => Ok None | _ => rmap Some (any_tree nx) end) as [on|] eqn:Eon; [|discriminate]. cbn [rbind] in H.
  inversion H; subst. rewrite (Hex _ eq_refl), (Hnx _ eq_refl). rewrite <- (into_alternatives_lang t w). fold alts. split.
  - intros [[a [Hin Ha]]|[a [Hin Ha]]]; exists a; (split; [apply Hcover; auto|exact Ha]).
  - intros [a [Hin Ha]]. apply Hcover in Hin. destruct Hin as [Hin|Hin]; [left|right]; exists a; split; assumption.
Qed.

End Negation.
