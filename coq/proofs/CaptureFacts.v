(* CaptureFacts.v -- C04: what the matching engine records in capture groups.  For any continuation (hence for the
   leftmost-first parse and for every other parse the search of the correspondence check can select): the groups of a
   sub-expression are only set inside the text that sub-expression matched, groups of other sub-expressions are left
   alone, and a capturing group that wraps a sub-expression records exactly the text that sub-expression matched. *)
From Coq Require Import Arith Lia.
From WaxModel Require Import Base Token Regex Encode.
From WaxProofs Require Import MatcherFacts EncodeFacts.
Local Open Scope nat_scope.

Lemma get_cap_filter : forall j g c, j <> g -> get_cap j (filter (fun x => negb (Nat.eqb (fst x) g)) c) = get_cap j c.
Proof.
  intros j g c H. induction c as [|[g' se] c IH]; [reflexivity|]. cbn [filter fst]. destruct (Nat.eqb_spec g' g) as [->|Hn]; cbn [negb get_cap].
  - destruct (Nat.eqb_spec j g); [congruence|exact IH].
  - destruct (Nat.eqb j g'); [reflexivity|exact IH].
Qed.

Lemma get_cap_set : forall j g se c, get_cap j (set_cap g se c) = if Nat.eqb j g then Some se else get_cap j c.
Proof.
  intros j g se c. unfold set_cap. cbn [get_cap]. destruct (Nat.eqb_spec j g) as [->|Hn]; [reflexivity|]. apply get_cap_filter. exact Hn.
Qed.

(* [eff g n p0 p1 c c']: going from c to c', only groups g .. g+n-1 changed, and each changed group now holds a span
   within [p0, p1] *)
Definition eff (g n p0 p1 : nat) (c c' : caps) : Prop :=
  forall j, get_cap j c' = get_cap j c \/
            (g <= j < g + n /\ exists s e, get_cap j c' = Some (s, e) /\ p0 <= s /\ s <= e /\ e <= p1).

Lemma eff_refl : forall g n p0 p1 c, eff g n p0 p1 c c.
Proof. intros g n p0 p1 c j. left. reflexivity. Qed.

Lemma eff_mono : forall g n p0 p1 g' n' q0 q1 c c', eff g n p0 p1 c c' -> g' <= g -> g + n <= g' + n' -> q0 <= p0 -> p1 <= q1 ->
  eff g' n' q0 q1 c c'.
Proof.
  intros g n p0 p1 g' n' q0 q1 c c' H Hg Hn H0 H1 j. destruct (H j) as [E|[Hj [s [e [E [A [B C]]]]]]]; [left; exact E|].
  right. split; [lia|]. exists s, e. repeat split; try assumption; lia.
Qed.

Lemma eff_trans : forall g n p0 p1 c c1 c2, eff g n p0 p1 c c1 -> eff g n p0 p1 c1 c2 -> eff g n p0 p1 c c2.
Proof.
  intros g n p0 p1 c c1 c2 H1 H2 j. destruct (H2 j) as [E|R]; [|right; exact R]. rewrite E. apply H1.
Qed.

Lemma eff_set : forall g n p0 p1 c j0 s e, g <= j0 < g + n -> p0 <= s -> s <= e -> e <= p1 -> eff g n p0 p1 c (set_cap j0 (s, e) c).
Proof.
  intros g n p0 p1 c j0 s e Hj A B C j. rewrite get_cap_set. destruct (Nat.eqb_spec j j0) as [->|]; [|left; reflexivity].
  right. split; [exact Hj|]. exists s, e. repeat split; assumption.
Qed.

Section Captures.
Variable orbit : char -> list char.
Notation sem := (sem orbit).
Notation m := (m orbit).

Theorem m_caps : forall fuel total r g w c k x, length w <= total -> m total fuel r g w c k = Some x ->
  exists u v c', w = u ++ v /\ sem r u /\ k v c' = Some x /\
    eff g (ngroups r) (total - length w) (total - length v) c c' /\
    (forall a, r = RGroup true a -> get_cap g c' = Some (total - length w, total - length v)).
Proof.
  induction fuel as [|f IH]; intros total r g w c k x Hlen H; [discriminate|]. cbn [Regex.m] in H.
  (* the leaf cases: no group, nothing changes *)
  assert (Leaf : forall u v, w = u ++ v -> sem r u -> k v c = Some x -> ngroups r = 0 -> (forall a, r <> RGroup true a) ->
            exists u v c', w = u ++ v /\ sem r u /\ k v c' = Some x /\
              eff g (ngroups r) (total - length w) (total - length v) c c' /\
              (forall a, r = RGroup true a -> get_cap g c' = Some (total - length w, total - length v))).
  { intros u v Hw Hs Hk _ Hng. exists u, v, c. split; [exact Hw|]. split; [exact Hs|]. split; [exact Hk|]. split; [apply eff_refl|].
    intros a Ha. exfalso. exact (Hng a Ha). }
  destruct r as [ci s| | |neg a| | | |a b|a b|a|lz a|a lo hi|cap a].
  - destruct (Regex.lit_match orbit ci s w) as [w'|] eqn:E; [|discriminate]. destruct (lit_match_sound orbit _ _ _ _ E) as [u [-> Hu]].
    apply (Leaf u w'); try reflexivity; try assumption; discriminate.
  - destruct w as [|d w']; [discriminate|]. destruct (N.eqb_spec d SEP) as [->|]; [|discriminate].
    apply (Leaf [SEP] w'); try reflexivity; try assumption; discriminate.
  - destruct w as [|d w']; [discriminate|]. destruct (N.eqb_spec d SEP) as [|Hd]; [discriminate|].
    apply (Leaf [d] w'); try reflexivity; try assumption; [exists d; split; [reflexivity|exact Hd]|discriminate].
  - destruct w as [|d w']; [discriminate|]. destruct (class_match neg a d) eqn:E; [|discriminate].
    apply (Leaf [d] w'); try reflexivity; try assumption; [exists d; split; [reflexivity|exact E]|discriminate].
  - discriminate.
  - apply first_some_sound in H. destruct H as [w' [Hin Hk]]. apply in_rev, suffixes_spec in Hin. destruct Hin as [u ->].
    apply (Leaf u w'); try reflexivity; try assumption; try exact I; discriminate.
  - apply (Leaf [] w); try reflexivity; try assumption; discriminate.
  - (* concatenation *)
    apply IH in H; [|exact Hlen]. destruct H as [u [v [c1 [-> [Hu [Hk [E1 _]]]]]]].
    assert (Hlv : length v <= total) by (rewrite app_length in Hlen; lia).
    apply IH in Hk; [|exact Hlv]. destruct Hk as [u2 [v2 [c2 [-> [Hu2 [Hk2 [E2 _]]]]]]].
    exists (u ++ u2), v2, c2. split; [apply app_assoc|]. split; [exists u, u2; split; [reflexivity|split; assumption]|]. split; [exact Hk2|].
    split; [|discriminate]. cbn [ngroups]. rewrite !app_length in *.
    eapply eff_trans; [eapply eff_mono; [exact E1|..]|eapply eff_mono; [exact E2|..]]; lia.
  - (* alternation *)
    destruct (m total f a g w c k) eqn:E.
    + inversion H; subst. apply IH in E; [|exact Hlen]. destruct E as [u [v [c' [-> [Hu [Hk [E1 _]]]]]]].
      exists u, v, c'. split; [reflexivity|]. split; [left; exact Hu|]. split; [exact Hk|]. split; [|discriminate].
      cbn [ngroups]. eapply eff_mono; [exact E1|..]; lia.
    + apply IH in H; [|exact Hlen]. destruct H as [u [v [c' [-> [Hu [Hk [E1 _]]]]]]].
      exists u, v, c'. split; [reflexivity|]. split; [right; exact Hu|]. split; [exact Hk|]. split; [|discriminate].
      cbn [ngroups]. eapply eff_mono; [exact E1|..]; lia.
  - (* option *)
    destruct (m total f a g w c k) eqn:E.
    + inversion H; subst. apply IH in E; [|exact Hlen]. destruct E as [u [v [c' [-> [Hu [Hk [E1 _]]]]]]].
      exists u, v, c'. split; [reflexivity|]. split; [right; exact Hu|]. split; [exact Hk|]. split; [exact E1|discriminate].
    + exists [], w, c. split; [reflexivity|]. split; [left; reflexivity|]. split; [exact H|]. split; [apply eff_refl|discriminate].
  - (* star *)
    assert (Hmore : forall kk, kk = (fun w' c' => if Nat.ltb (length w') (length w) then m total f (RStar lz a) g w' c' k else None) ->
              forall y, m total f a g w c kk = Some y ->
              exists u v c', w = u ++ v /\ sem (RStar lz a) u /\ k v c' = Some y /\
                eff g (ngroups (RStar lz a)) (total - length w) (total - length v) c c' /\
                (forall a0, RStar lz a = RGroup true a0 -> get_cap g c' = Some (total - length w, total - length v))).
    { intros kk -> y Hy. apply IH in Hy; [|exact Hlen]. destruct Hy as [u [v [c1 [-> [Hu [Hk [E1 _]]]]]]].
      destruct (Nat.ltb (length v) (length (u ++ v))); [|discriminate].
      assert (Hlv : length v <= total) by (rewrite app_length in Hlen; lia).
      apply IH in Hk; [|exact Hlv]. destruct Hk as [u2 [v2 [c2 [-> [[n Hn] [Hk2 [E2 _]]]]]]].
      exists (u ++ u2), v2, c2. split; [apply app_assoc|]. split; [exists (S n); constructor; assumption|]. split; [exact Hk2|].
      split; [|discriminate]. cbn [ngroups] in *. rewrite !app_length in *.
      eapply eff_trans; [eapply eff_mono; [exact E1|..]|eapply eff_mono; [exact E2|..]]; lia. }
    destruct lz.
    + destruct (k w c) eqn:Ek; [|eapply Hmore; [reflexivity|exact H]]. inversion H; subst.
      exists [], w, c. split; [reflexivity|]. split; [exists 0; constructor|]. split; [exact Ek|]. split; [apply eff_refl|discriminate].
    + match type of H with match ?M with _ => _ end = _ => destruct M eqn:Em end; [inversion H; subst; eapply Hmore; [reflexivity|exact Em]|].
      exists [], w, c. split; [reflexivity|]. split; [exists 0; constructor|]. split; [exact H|]. split; [apply eff_refl|discriminate].
  - (* counted repetition *)
    set (can_stop := (lo =? 0)%N) in *. set (can_more := match hi with Some h => (0 <? h)%N | None => true end) in *.
    set (lo' := N.pred lo) in *. set (hi' := match hi with Some h => Some (N.pred h) | None => None end) in *.
    match type of H with match ?M with _ => _ end = _ => destruct M as [y|] eqn:Em end.
    + inversion H; subst y. destruct can_more eqn:Ecm; [|discriminate]. apply IH in Em; [|exact Hlen].
      destruct Em as [u [v [c1 [-> [Hu [Hk [E1 _]]]]]]].
      destruct (Nat.ltb (length v) (length (u ++ v)) || negb can_stop); [|discriminate].
      assert (Hlv : length v <= total) by (rewrite app_length in Hlen; lia).
      apply IH in Hk; [|exact Hlv]. destruct Hk as [u2 [v2 [c2 [-> [[n [Hb Hn]] [Hk2 [E2 _]]]]]]].
      exists (u ++ u2), v2, c2. split; [apply app_assoc|]. split; [exists (S n); split; [apply in_bounds_succ; [exact Hb|exact Ecm]|constructor; assumption]|].
      split; [exact Hk2|]. split; [|discriminate]. cbn [ngroups] in *. rewrite !app_length in *.
      eapply eff_trans; [eapply eff_mono; [exact E1|..]|eapply eff_mono; [exact E2|..]]; lia.
    + destruct can_stop eqn:Ecs; [|discriminate]. exists [], w, c. split; [reflexivity|]. split; [|split; [exact H|split; [apply eff_refl|discriminate]]].
      exists 0. split; [|constructor]. subst can_stop. apply N.eqb_eq in Ecs. subst lo. unfold in_bounds. split; [lia|]. destruct hi; [lia|exact I].
  - (* group *)
    destruct cap.
    + apply IH in H; [|exact Hlen]. destruct H as [u [v [c1 [-> [Hu [Hk [E1 _]]]]]]].
      eexists u, v, _. split; [reflexivity|]. split; [exact Hu|]. split; [exact Hk|]. rewrite app_length in *. split.
      * cbn [ngroups]. eapply eff_trans; [eapply eff_mono; [exact E1|..]; lia|]. apply eff_set; lia.
      * intros a0 _. rewrite get_cap_set, Nat.eqb_refl. reflexivity.
    + apply IH in H; [|exact Hlen]. destruct H as [u [v [c1 [-> [Hu [Hk [E1 _]]]]]]].
      exists u, v, c1. split; [reflexivity|]. split; [exact Hu|]. split; [exact Hk|]. split; [exact E1|discriminate].
Qed.

End Captures.

(* ---- the top-level sequence of a glob -------------------------------------------------------------------------------------- *)
Definition whole_group (t : tok) : bool := is_capturing t && negb (is_tree t).

(* [assigned ts g pos us c]: token by token, with [us] the texts the tokens matched from offset [pos]: a capturing token
   other than a tree wildcard recorded exactly its text in its own group; a tree wildcard recorded nothing or a span inside
   its text; groups are numbered in token order *)
Fixpoint assigned (ts : list tok) (g pos : nat) (us : list str) (c : caps) : Prop :=
  match ts, us with
  | [], [] => True
  | t :: ts', u :: us' =>
      (whole_group t = true -> get_cap g c = Some (pos, pos + length u)) /\
      (is_tree t = true -> get_cap g c = None \/
                           exists s e, get_cap g c = Some (s, e) /\ pos <= s /\ s <= e /\ e <= pos + length u) /\
      assigned ts' (g + cap_count t) (pos + length u) us' c
  | _, _ => False
  end.

Lemma assigned_frame : forall ts g pos us c c', (forall j, g <= j -> get_cap j c' = get_cap j c) -> assigned ts g pos us c -> assigned ts g pos us c'.
Proof.
  induction ts as [|t ts IH]; intros g pos us c c' Hf H; destruct us as [|u us]; try exact H. cbn [assigned] in *.
  destruct H as [H1 [H2 H3]]. rewrite (Hf g (le_n g)). split; [exact H1|]. split; [exact H2|].
  apply (IH _ _ _ c); [|exact H3]. intros j Hj. apply Hf. lia.
Qed.

Lemma whole_group_enc : forall t s e, is_cat t = false -> whole_group t = true -> exists a, enc_tok true t s e = RGroup true a.
Proof.
  intros t s e Hc Hw. destruct t as [sp l|sp bs|sp ts|sp b lo hi]; [| |discriminate|].
  - destruct l; cbn in Hw; try discriminate; cbn [enc_tok enc_leaf grp]; eexists; reflexivity.
  - cbn [enc_tok grp]. eexists; reflexivity.
  - cbn [enc_tok]. destruct (norm_bounds lo hi). cbn [grp]. eexists; reflexivity.
Qed.

Section Sequence.
Variable orbit : char -> list char.
Notation sem := (sem orbit).
Notation m := (m orbit).

Lemma token_caps : forall t s e fuel total g w c k x, is_cat t = false -> length w <= total ->
  (forall j, g <= j -> get_cap j c = None) ->
  m total fuel (enc_tok true t s e) g w c k = Some x ->
  exists u v c1, w = u ++ v /\ sem (enc_tok true t s e) u /\ k v c1 = Some x /\
    (forall j, j < g -> get_cap j c1 = get_cap j c) /\ (forall j, g + cap_count t <= j -> get_cap j c1 = None) /\
    (whole_group t = true -> get_cap g c1 = Some (total - length w, total - length v)) /\
    (is_tree t = true -> get_cap g c1 = None \/
        exists s0 e0, get_cap g c1 = Some (s0, e0) /\ total - length w <= s0 /\ s0 <= e0 /\ e0 <= total - length v).
Proof.
  intros t s e fuel total g w c k x Hc Hlen Hnone H. apply m_caps in H; [|exact Hlen].
  destruct H as [u [v [c1 [-> [Hu [Hk [E Hg]]]]]]]. rewrite (ngroups_enc_true_noncat t s e Hc) in E.
  exists u, v, c1. split; [reflexivity|]. split; [exact Hu|]. split; [exact Hk|]. split; [|split; [|split]].
  - intros j Hj. destruct (E j) as [Ej|[Hr _]]; [exact Ej|lia].
  - intros j Hj. destruct (E j) as [Ej|[Hr _]]; [rewrite Ej; apply Hnone; lia|lia].
  - intros Hw. destruct (whole_group_enc t s e Hc Hw) as [a Ha]. exact (Hg a Ha).
  - intros Ht. destruct (E g) as [Ej|[_ [s0 [e0 [Es [A [B C]]]]]]]; [left; rewrite Ej; apply Hnone; apply le_n|].
    right. exists s0, e0. repeat split; assumption.
Qed.

Theorem sequence_caps : forall ts first s e fuel total g w c k x,
  Forall (fun t => is_cat t = false) ts -> length w <= total -> (forall j, g <= j -> get_cap j c = None) ->
  m total fuel (seq_edges_aux first (map (enc_tok true) ts) s e) g w c k = Some x ->
  exists us v c', w = concat us ++ v /\ Forall2 (fun t u => exists s' e', sem (enc_tok true t s' e') u) ts us /\
    k v c' = Some x /\ (forall j, j < g -> get_cap j c' = get_cap j c) /\ assigned ts g (total - length w) us c'.
Proof.
  induction ts as [|t ts IH]; intros first s e fuel total g w c k x Hf Hlen Hnone H.
  - cbn [map seq_edges_aux] in H. destruct fuel as [|f0]; [discriminate|]. cbn [Regex.m] in H.
    exists [], w, c. split; [reflexivity|]. split; [constructor|]. split; [exact H|]. split; [intros; reflexivity|exact I].
  - inversion Hf as [|? ? Hc Hf']; subst. cbn [map seq_edges_aux] in H. destruct ts as [|t2 ts'].
    + cbn [map] in H. destruct (token_caps t _ _ _ _ _ _ _ _ _ Hc Hlen Hnone H) as [u [v [c1 [-> [Hu [Hk [Hlow [Hhigh [Hw Ht]]]]]]]]].
      exists [u], v, c1. split; [cbn [concat]; rewrite app_nil_r; reflexivity|]. split; [constructor; [eexists _, _; exact Hu|constructor]|].
      split; [exact Hk|]. split; [exact Hlow|]. cbn [assigned]. rewrite app_length in *.
      replace (total - (length u + length v) + length u) with (total - length v) by lia.
      split; [exact Hw|]. split; [exact Ht|exact I].
    + change (map (enc_tok true) (t2 :: ts')) with (enc_tok true t2 :: map (enc_tok true) ts') in H.
      change (enc_tok true t2 :: map (enc_tok true) ts') with (map (enc_tok true) (t2 :: ts')) in H.
      destruct fuel as [|f0]; [discriminate|]. cbn [Regex.m] in H.
      destruct (token_caps t _ _ _ _ _ _ _ _ _ Hc Hlen Hnone H) as [u [v [c1 [-> [Hu [Hk [Hlow [Hhigh [Hw Ht]]]]]]]]].
      rewrite (ngroups_enc_true_noncat t _ _ Hc) in Hk.
      assert (Hlv : length v <= total) by (rewrite app_length in Hlen; lia).
      destruct (IH false s e f0 total (g + cap_count t) v c1 k x Hf' Hlv Hhigh Hk) as [us [v2 [c2 [-> [HF [Hk2 [Hlow2 Has]]]]]]].
      exists (u :: us), v2, c2. split; [cbn [concat]; rewrite app_assoc; reflexivity|]. split; [constructor; [eexists _, _; exact Hu|exact HF]|].
      split; [exact Hk2|]. split; [intros j Hj; rewrite Hlow2 by lia; apply Hlow; exact Hj|].
      cbn [assigned]. rewrite !app_length in *.
      assert (Hcap : is_capturing t = true -> get_cap g c2 = get_cap g c1).
      { intros Hic. apply Hlow2. unfold cap_count. rewrite Hic. lia. }
      replace (total - (length u + (length (concat us) + length v2)) + length u) with (total - (length (concat us) + length v2)) by lia.
      split; [|split; [|exact Has]].
      * intros Hwg. rewrite Hcap; [|unfold whole_group in Hwg; apply andb_prop in Hwg; exact (proj1 Hwg)].
        rewrite (Hw Hwg). reflexivity.
      * intros Htr. rewrite Hcap; [|destruct t as [? []| | |]; try discriminate; reflexivity].
        destruct (Ht Htr) as [Hn|[s0 [e0 [Es [A [B C]]]]]]; [left; exact Hn|]. right. exists s0, e0. repeat split; try assumption; lia.
Qed.

(* C04: whatever parse of the path the engine (or the search of the correspondence check) ends with - any continuation -
   the capture groups hold a consistent assignment: the path splits into one text per top-level token, each text matched by
   its own token; a capturing token other than a tree wildcard recorded exactly its text, a tree wildcard nothing or a span
   inside its text; groups are numbered in token order, so the captures are ordered and disjoint *)
Theorem glob_captures_valid : forall t fuel w k x, flat_top t ->
  m (length w) fuel (encode t) 0 w [] k = Some x ->
  exists us v c', w = concat us ++ v /\
    Forall2 (fun t u => exists s' e', sem (enc_tok true t s' e') u) (concatenation t) us /\
    k v c' = Some x /\ assigned (concatenation t) 0 0 us c'.
Proof.
  intros t fuel w k x Hf H.
  assert (Hseq : encode t = seq_edges_aux true (map (enc_tok true) (concatenation t)) true true).
  { unfold encode. destruct t; reflexivity. }
  rewrite Hseq in H. apply sequence_caps in H; [|exact Hf|apply le_n|intros; reflexivity].
  destruct H as [us [v [c' [Hw [HF [Hk [_ Has]]]]]]]. rewrite Nat.sub_diag in Has. exists us, v, c'. repeat split; assumption.
Qed.

End Sequence.
