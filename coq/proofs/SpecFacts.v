(* SpecFacts.v -- facts about the documented language (Spec.v) and the queries (Fold.v). *)
From Coq Require Import Arith.
From WaxModel Require Import Base Token Regex Spec Encode Variance Fold.

(* [ends_tree t]: every expansion of t is non-empty and ends with a tree wildcard *)
Fixpoint ends_tree (t : tok) : bool :=
  match t with
  | TLeaf _ (LTree _) => true
  | TLeaf _ _ => false
  | TAlt _ bs => forallb ends_tree bs
  | TCat _ ts =>
      (fix go (l : list tok) : bool :=
         match l with
         | [] => false
         | [x] => ends_tree x
         | _ :: l' => go l'
         end) ts
  | TRep _ b lo _ => ends_tree b && (1 <=? lo)
  end.

Lemma ends_tree_cat : forall sp ts,
  ends_tree (TCat sp ts) = match last_opt ts with Some x => ends_tree x | None => false end.
Proof.
  intros sp ts. cbn [ends_tree]. induction ts as [|t ts IH]; [reflexivity|].
  destruct ts as [|t' ts']; [reflexivity|]. exact IH.
Qed.

Section Facts.
Variable orbit : char -> list char.
Notation FlatMatch := (FlatMatch orbit).
Notation Lang := (Lang orbit).
Notation leaf_piece := (leaf_piece orbit).

(* ---- strings ---------------------------------------------------------------------------------- *)
Lemma starts_sep_app : forall u v, starts_sep u = true -> starts_sep (u ++ v) = true.
Proof. intros [|c u] v H; [discriminate|exact H]. Qed.

Lemma ends_sep_snoc_irrelevant : forall u c, ends_sep (u ++ [c]) = N.eqb c SEP.
Proof. intros u c. unfold ends_sep. rewrite rev_app_distr. reflexivity. Qed.

(* ---- C09: patterns that always end in a tree wildcard ---------------------------------------------- *)
(* extending a piece matched by a tree wildcard in last position by `/` and anything *)
Lemma tree_piece_extend :
  forall f root u z, tree_piece f true root u = true -> tree_piece f true root (u ++ SEP :: z) = true.
Proof.
  intros f root u z H. unfold tree_piece in *.
  destruct u as [|c u]; cbn [app starts_sep is_nil] in *.
  - destruct f, root; cbn in *; try discriminate; reflexivity.
  - destruct f, root, (c =? SEP); cbn in *; try discriminate; reflexivity.
Qed.

Lemma flatmatch_extend_last_tree :
  forall x f r w z, FlatMatch f true (x ++ [LTree r]) w -> FlatMatch f true (x ++ [LTree r]) (w ++ SEP :: z).
Proof.
  induction x as [|a x IH]; intros f r w z H.
  - cbn [app] in *. inversion H as [|f0 l0 a0 x0 u v Hp Hrest]; subst.
    inversion Hrest; subst. rewrite app_nil_r.
    rewrite <- (app_nil_r (u ++ SEP :: z)). constructor; [|constructor].
    cbn [leaf_piece is_nil andb] in *. apply tree_piece_extend. exact Hp.
  - cbn [app] in *. inversion H as [|f0 l0 a0 x0 u v Hp Hrest]; subst.
    rewrite <- app_assoc. constructor; [exact Hp|]. apply IH. exact Hrest.
Qed.

Lemma last_opt_app : forall {A} (l : list A) a, last_opt (l ++ [a]) = Some a.
Proof.
  induction l as [|b l IH]; intros a; [reflexivity|].
  cbn [app]. destruct (l ++ [a]) eqn:E; [destruct l; discriminate|].
  change (last_opt (b :: a0 :: l0)) with (last_opt (a0 :: l0)). rewrite <- E. apply IH.
Qed.

Lemma last_opt_some : forall {A} (l : list A) a, last_opt l = Some a -> exists l', l = l' ++ [a].
Proof.
  induction l as [|b l IH]; intros a H; [discriminate|].
  destruct l as [|c l'].
  - cbn in H. inversion H; subst. exists []. reflexivity.
  - change (last_opt (b :: c :: l')) with (last_opt (c :: l')) in H.
    destruct (IH a H) as [l'' E]. exists (b :: l''). cbn [app]. rewrite <- E. reflexivity.
Qed.

Lemma concat_snoc : forall {A} (xs : list (list A)) x, concat (xs ++ [x]) = concat xs ++ x.
Proof. intros. rewrite concat_app. cbn [concat]. rewrite app_nil_r. reflexivity. Qed.

Lemma expands_ends_tree :
  forall t x, Expands t x -> ends_tree t = true -> exists x' r, x = x' ++ [LTree r].
Proof.
  induction t as [sp l|sp bs IH|sp ts IH|sp b lo hi IH] using tok_ind'; intros x Hx He.
  - inversion Hx; subst. destruct l; try discriminate. exists [], root. reflexivity.
  - inversion Hx as [|sp0 bs0 b x0 Hin Hb| |]; subst. cbn [ends_tree] in He.
    rewrite forallb_forall in He. rewrite Forall_forall in IH. apply (IH b Hin x Hb). apply He. exact Hin.
  - inversion Hx as [| |sp0 ts0 xs HF|]; subst. rewrite ends_tree_cat in He.
    destruct (last_opt ts) as [tl|] eqn:El; [|discriminate].
    destruct (last_opt_some ts tl El) as [ts' ->].
    apply Forall2_app_inv_l in HF. destruct HF as [xs1 [xs2 [H1 [H2 ->]]]].
    inversion H2 as [|? xl ? ? Hxl Hnil]; subst. inversion Hnil; subst.
    rewrite Forall_forall in IH.
    assert (Hin : In tl (ts' ++ [tl])) by (apply in_or_app; right; left; reflexivity).
    destruct (IH tl Hin xl Hxl He) as [x' [r ->]].
    exists (concat xs1 ++ x'), r. rewrite concat_snoc. rewrite app_assoc. reflexivity.
  - inversion Hx as [| | |sp0 b0 lo0 hi0 xs Hb HF]; subst. cbn [ends_tree] in He.
    apply andb_prop in He. destruct He as [He Hlo].
    destruct Hb as [Hlo' _]. apply N.leb_le in Hlo.
    destruct xs as [|x0 xs] using rev_ind.
    + cbn [length] in Hlo'. exfalso. cbn in Hlo'. lia.
    + clear IHxs. apply Forall_app in HF. destruct HF as [_ HF]. inversion HF as [|? ? Hx0 _]; subst.
      destruct (IH x0 Hx0 He) as [x' [r ->]].
      exists (concat xs ++ x'), r. rewrite concat_snoc. rewrite app_assoc. reflexivity.
Qed.

Lemma ends_tree_exhaustive :
  forall t p z, ends_tree t = true -> Lang t p -> Lang t (p ++ SEP :: z).
Proof.
  intros t p z He [x [Hx Hm]]. destruct (expands_ends_tree t x Hx He) as [x' [r ->]].
  exists (x' ++ [LTree r]). split; [exact Hx|]. apply flatmatch_extend_last_tree. exact Hm.
Qed.

(* ---- C12: a pattern that reports "always rooted" only matches paths that begin with a separator ---- *)
Definition first_rooting (x : list leaf) : bool :=
  match x with
  | LSep :: _ => true
  | LTree true :: _ => true
  | _ => false
  end.

Lemma first_rooting_app : forall x y, first_rooting x = true -> first_rooting (x ++ y) = true.
Proof. intros [|a x] y H; [discriminate|exact H]. Qed.

Lemma flatmatch_first_rooting :
  forall x l w, FlatMatch true l x w -> first_rooting x = true -> starts_sep w = true.
Proof.
  intros x l w H Hr. inversion H as [|f0 l0 a x0 u v Hp Hrest]; subst; [discriminate|].
  destruct a; try discriminate.
  - cbn [leaf_piece] in Hp. subst u. reflexivity.
  - destruct root; [|discriminate]. cbn [leaf_piece] in Hp. unfold tree_piece in Hp.
    cbn [andb negb orb] in Hp. rewrite andb_false_r in Hp. cbn [andb orb] in Hp.
    apply andb_prop in Hp. destruct Hp as [Hs _]. rewrite orb_false_r in Hs. apply starts_sep_app. exact Hs.
Qed.

Lemma reduce_certainty_always :
  forall ws, reduce_pure when_certainty ws = Some Always -> Forall (fun w => w = Always) ws.
Proof.
  intros [|w ws]; [discriminate|]. cbn [reduce_pure]. revert w.
  induction ws as [|w' ws IH]; intros w H.
  - cbn in H. inversion H; subst. constructor; [reflexivity|constructor].
  - cbn [fold_left] in H. assert (Hacc: when_certainty w w' = Always).
    { destruct (when_certainty w w') eqn:E; [reflexivity| |];
      exfalso; revert H; clear; generalize dependent ws;
      [ induction ws as [|a ws IH]; cbn; [discriminate|]; destruct a; exact IH
      | induction ws as [|a ws IH]; cbn; [discriminate|]; destruct a; cbn; try exact IH ].
      all: intros H; clear IH; revert H; induction ws as [|b ws IH2]; cbn; [discriminate|]; destruct b; exact IH2. }
    rewrite Hacc in H. destruct w, w'; try discriminate.
    constructor; [reflexivity|]. apply IH. exact H.
Qed.

(* every concatenation and alternation of the tree has at least one element (true of parsed trees) *)
Fixpoint nonempty_branches (t : tok) : bool :=
  match t with
  | TLeaf _ _ => true
  | TAlt _ bs => negb (is_nil bs) && forallb nonempty_branches bs
  | TCat _ ts => negb (is_nil ts) && forallb nonempty_branches ts
  | TRep _ b lo hi =>
      nonempty_branches b && negb ((lo =? 0) && match hi with Some h => h =? 0 | None => false end)
  end.

Lemma nr_lower_zero : forall lo hi, nr_lower (rep_range lo hi) = NBZero -> lo = 0 /\ hi = Some 0.
Proof.
  intros lo hi. unfold rep_range, from_closed_open. destruct hi as [h|].
  - destruct (h <? lo) eqn:E; destruct h as [|ph], lo as [|pl]; cbn; try discriminate;
      try (intros _; split; reflexivity).
    all: try (rewrite E; cbn; discriminate).
    all: try (apply N.ltb_lt in E; lia).
    all: try (destruct (N.pos pl <? N.pos ph); cbn; discriminate).
  - destruct lo; cbn; discriminate.
Qed.

Lemma has_root_fold_some : forall t, nonempty_branches t = true -> exists w, has_root_fold t = Some w.
Proof.
  induction t as [sp l|sp bs IH|sp ts IH|sp b lo hi IH] using tok_ind'; intros Hn.
  - eexists. reflexivity.
  - cbn [nonempty_branches] in Hn. apply andb_prop in Hn. destruct Hn as [Hne Hall].
    destruct bs as [|b bs]; [discriminate|]. cbn [has_root_fold flat_map].
    inversion IH as [|? ? Hb _]; subst. cbn [forallb] in Hall. apply andb_prop in Hall.
    destruct (Hb (proj1 Hall)) as [w ->]. cbn [opt_list app reduce_pure]. eexists. reflexivity.
  - cbn [nonempty_branches] in Hn. apply andb_prop in Hn. destruct Hn as [Hne Hall].
    destruct ts as [|t0 ts]; [discriminate|]. cbn [has_root_fold].
    inversion IH as [|? ? Hb _]; subst. cbn [forallb] in Hall. apply andb_prop in Hall.
    destruct (Hb (proj1 Hall)) as [w ->]. cbn. eexists. reflexivity.
  - cbn [nonempty_branches] in Hn. apply andb_prop in Hn. destruct Hn as [Hn _].
    cbn [has_root_fold]. destruct (IH Hn) as [w ->].
    destruct (nr_lower (rep_range lo hi)); eexists; reflexivity.
Qed.

Lemma always_root_first_rooting :
  forall t x, nonempty_branches t = true -> has_root_fold t = Some Always -> Expands t x -> first_rooting x = true.
Proof.
  induction t as [sp l|sp bs IH|sp ts IH|sp b lo hi IH] using tok_ind'; intros x Hn Hr Hx.
  - inversion Hx; subst. cbn [has_root_fold] in Hr. destruct l; try discriminate; try reflexivity.
    destruct root; [reflexivity|discriminate].
  - inversion Hx as [|sp0 bs0 b x0 Hin Hb| |]; subst.
    cbn [nonempty_branches] in Hn. apply andb_prop in Hn. destruct Hn as [_ Hall].
    cbn [has_root_fold] in Hr. apply reduce_certainty_always in Hr.
    rewrite forallb_forall in Hall. rewrite Forall_forall in IH, Hr.
    destruct (has_root_fold_some b (Hall b Hin)) as [w Hw].
    apply (IH b Hin x (Hall b Hin)); [|exact Hb].
    rewrite Hw. f_equal. apply Hr. apply in_flat_map. exists b. split; [exact Hin|]. rewrite Hw. left. reflexivity.
  - inversion Hx as [| |sp0 ts0 xs HF|]; subst.
    cbn [nonempty_branches] in Hn. apply andb_prop in Hn. destruct Hn as [_ Hall].
    destruct ts as [|t0 ts]; [discriminate|]. inversion HF as [|? x0 ? xs' Hx0 _]; subst.
    cbn [has_root_fold] in Hr. cbn [forallb] in Hall. apply andb_prop in Hall. destruct Hall as [Hn0 _].
    destruct (has_root_fold_some t0 Hn0) as [w Hw]. rewrite Hw in Hr. cbn in Hr. inversion Hr; subst.
    cbn [concat]. apply first_rooting_app. inversion IH as [|? ? H0 _]; subst. apply (H0 x0 Hn0 Hw Hx0).
  - inversion Hx as [| | |sp0 b0 lo0 hi0 xs Hb HF]; subst.
    cbn [nonempty_branches] in Hn. cbn [has_root_fold] in Hr.
    destruct (has_root_fold b) as [w|] eqn:Hw; [|discriminate].
    destruct (nr_lower (rep_range lo hi)) eqn:El.
    + (* the lower bound is zero only for the degenerate bounds 0,0 *)
      exfalso. apply nr_lower_zero in El. destruct El as [-> ->].
      apply andb_prop in Hn. destruct Hn as [_ Hn]. discriminate.
    + destruct w; discriminate.
    + inversion Hr; subst.
      (* lower bound >= 1: there is a first iteration *)
      destruct xs as [|x0 xs].
      * exfalso. destruct Hb as [Hlo _]. cbn [length] in Hlo.
        assert (lo = 0) by (cbn in Hlo; lia). subst lo.
        revert El. clear. unfold rep_range, from_closed_open.
        destruct hi as [h|]; cbn; [|discriminate].
        destruct h; cbn; discriminate.
      * inversion HF as [|? ? Hx0 _]; subst. cbn [concat]. apply first_rooting_app.
        apply andb_prop in Hn. destruct Hn as [Hn _]. apply (IH x0 Hn eq_refl Hx0).
Qed.

Lemma root_sound :
  forall t p, nonempty_branches t = true -> has_root t = Always -> Lang t p -> starts_sep p = true.
Proof.
  intros t p Hn Hr [x [Hx Hm]]. unfold has_root in Hr.
  destruct (has_root_fold t) as [w|] eqn:Hw; [|discriminate]. subst w.
  eapply flatmatch_first_rooting; [exact Hm|]. eapply always_root_first_rooting; eassumption.
Qed.

(* ---- C11: a case sensitive literal matches exactly its own text --------------------------------------- *)
Lemma lit_sem_exact : forall s w, lit_sem orbit false s w -> w = s.
Proof.
  intros s w H. induction H as [|c d s w Hc _ IH]; [reflexivity|].
  unfold lit_char_match in Hc. cbn [andb] in Hc. rewrite orb_false_r in Hc. apply N.eqb_eq in Hc. subst. reflexivity.
Qed.

Lemma lit_sem_refl : forall ci s, lit_sem orbit ci s s.
Proof.
  induction s as [|c s IH]; constructor; [|exact IH]. unfold lit_char_match. rewrite N.eqb_refl. reflexivity.
Qed.

End Facts.
