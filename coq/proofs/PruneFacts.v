(* PruneFacts.v -- C02: pruning soundness of the component programs of a walk (WalkProgram::compile): whatever path the
   complete program of a glob accepts, every component program accepts the component of that path at its own position.
   This discharges the hypothesis `Hprune` of WalkFacts.GlobWalk for the programs the model (and, by the tie, the code)
   builds. *)
From Coq Require Import Arith Lia Wf_nat.
From WaxModel Require Import Base Token Regex Spec Encode Variance Fold Rule Parse Query Walk.
From WaxProofs Require Import EncodeFacts DepthFacts.
Local Open Scope nat_scope.

(* every literal of the tree is separator-free (the parser never reads `/` into a literal) *)
Fixpoint lits_nosep (t : tok) : bool :=
  match t with
  | TLeaf _ (LLit _ s) => nosep s
  | TLeaf _ _ => true
  | TAlt _ bs => forallb lits_nosep bs
  | TCat _ ts => forallb lits_nosep ts
  | TRep _ b _ _ => lits_nosep b
  end.

(* a name of a directory entry: non-empty and separator-free *)
Definition valid_name (n : str) : Prop := n <> [] /\ nosep n = true.

Lemma nosep_app : forall u v, nosep (u ++ v) = nosep u && nosep v.
Proof. intros. unfold nosep. apply forallb_app. Qed.

(* ---- tokens without boundaries: the edges are irrelevant and the language is separator-free -------------- *)
Lemma seq_aux_indep : forall fs first first' s e s' e',
  Forall (fun f : bool -> bool -> re => forall a b a' b', f a b = f a' b') fs ->
  seq_edges_aux first fs s e = seq_edges_aux first' fs s' e'.
Proof.
  induction fs as [|f fs IH]; intros first first' s e s' e' H; [reflexivity|].
  inversion H as [|? ? Hf Hfs]; subst. cbn [seq_edges_aux]. destruct fs as [|g fs']; [apply Hf|].
  rewrite (Hf (s && first) false (s' && first') false). f_equal. apply IH. exact Hfs.
Qed.

Lemma nb_edges : forall t cap, has_boundary t = false -> forall s e s' e', enc_tok cap t s e = enc_tok cap t s' e'.
Proof.
  induction t as [sp l|sp bs IH|sp ts IH|sp b lo hi IH] using tok_ind'; intros cap Hb s e s' e'.
  - destruct l; cbn in Hb |- *; try reflexivity; discriminate.
  - cbn [enc_tok]. f_equal. f_equal. cbn [has_boundary] in Hb.
    induction IH as [|b bs Hh _ IHbs]; [reflexivity|]. cbn [existsb] in Hb. apply orb_false_iff in Hb. destruct Hb as [Hb1 Hb2].
    cbn [map]. rewrite (Hh false Hb1 s e s' e'). f_equal. apply IHbs. exact Hb2.
  - cbn [enc_tok]. unfold seq_edges. apply seq_aux_indep. cbn [has_boundary] in Hb.
    induction IH as [|t ts Hh _ IHts]; [constructor|]. cbn [existsb] in Hb. apply orb_false_iff in Hb. destruct Hb as [Hb1 Hb2].
    cbn [map]. constructor; [intros; apply Hh; exact Hb1|apply IHts; exact Hb2].
  - cbn [enc_tok]. cbn [has_boundary] in Hb. rewrite (IH false Hb s e s' e'). reflexivity.
Qed.

Section Prune.
Variable orbit : char -> list char.
Hypothesis orbit_nosep : forall c d, In d (orbit c) -> d <> SEP.
Notation sem := (sem orbit).

Lemma iter_nosep : forall (L : str -> Prop) k w, (forall u, L u -> nosep u = true) -> iter_sem L k w -> nosep w = true.
Proof.
  intros L k w HL H. induction H as [|n u v Hu _ IH]; [reflexivity|]. rewrite nosep_app, (HL u Hu), IH. reflexivity.
Qed.

Lemma seq_aux_nosep : forall fs first s e w,
  Forall (fun f : bool -> bool -> re => forall a b u, sem (f a b) u -> nosep u = true) fs ->
  sem (seq_edges_aux first fs s e) w -> nosep w = true.
Proof.
  induction fs as [|f fs IH]; intros first s e w H Hs.
  - cbn in Hs. subst w. reflexivity.
  - inversion H as [|? ? Hf Hfs]; subst. cbn [seq_edges_aux] in Hs. destruct fs as [|g fs'].
    + eapply Hf. exact Hs.
    + cbn [Regex.sem] in Hs. destruct Hs as [u [v [-> [Hu Hv]]]]. rewrite nosep_app, (Hf _ _ _ Hu), (IH _ _ _ _ Hfs Hv). reflexivity.
Qed.

Lemma nb_nosep : forall t cap s e w,
  has_boundary t = false -> lits_nosep t = true -> sem (enc_tok cap t s e) w -> nosep w = true.
Proof.
  induction t as [sp l|sp bs IH|sp ts IH|sp b lo hi IH] using tok_ind'; intros cap s e w Hb Hl Hs.
  - destruct l as [ci x| |neg a| |lz|root]; cbn in Hb; try discriminate.
    + cbn [enc_tok enc_leaf Regex.sem] in Hs. cbn [lits_nosep] in Hl. eapply lit_sem_nosep; eassumption.
    + cbn [enc_tok] in Hs. apply class_sem_nosep in Hs. destruct Hs as [c [-> Hc]]. cbn. apply N.eqb_neq in Hc. rewrite Hc. reflexivity.
    + cbn [enc_tok] in Hs. apply (proj1 (one_sem _ _ _ _ _)) in Hs. destruct Hs as [c [-> Hc]]. cbn. apply N.eqb_neq in Hc. rewrite Hc. reflexivity.
    + cbn [enc_tok] in Hs. apply (proj1 (zom_sem _ _ _ _ _ _)) in Hs. exact Hs.
  - cbn [enc_tok] in Hs. unfold grp in Hs. cbn [Regex.sem] in Hs. cbn [has_boundary] in Hb. cbn [lits_nosep] in Hl.
    destruct bs as [|b0 bs0]; [cbn in Hs; subst w; reflexivity|].
    apply sem_ralt_list in Hs; [|discriminate]. destruct Hs as [r [Hin Hr]]. apply in_map_iff in Hin. destruct Hin as [b [<- Hinb]].
    cbn [Regex.sem] in Hr. rewrite Forall_forall in IH. eapply (IH b Hinb); [| |exact Hr].
    + destruct (has_boundary b) eqn:E; [|reflexivity]. assert (existsb has_boundary (b0 :: bs0) = true) by (apply existsb_exists; exists b; split; assumption). congruence.
    + rewrite forallb_forall in Hl. apply Hl. exact Hinb.
  - cbn [enc_tok] in Hs. unfold seq_edges in Hs. eapply seq_aux_nosep; [|exact Hs]. clear Hs.
    cbn [has_boundary] in Hb. cbn [lits_nosep] in Hl.
    induction IH as [|t ts Hh _ IHts]; [constructor|]. cbn [existsb] in Hb. apply orb_false_iff in Hb. destruct Hb as [Hb1 Hb2].
    cbn [forallb] in Hl. apply andb_prop in Hl. destruct Hl as [Hl1 Hl2]. cbn [map]. constructor.
    + intros a b u Hu. eapply Hh; eassumption.
    + apply IHts; assumption.
  - cbn [enc_tok] in Hs. destruct (norm_bounds lo hi) as [lo' hi']. unfold grp in Hs. cbn [Regex.sem] in Hs.
    destruct Hs as [k [_ Hk]]. eapply iter_nosep; [|exact Hk]. intros u Hu. cbn [Regex.sem] in Hu.
    cbn [has_boundary] in Hb. cbn [lits_nosep] in Hl. eapply IH; eassumption.
Qed.

(* ---- strings and paths -------------------------------------------------------------------------------------- *)
Lemma first_sep_unique : forall u n x y, nosep u = true -> nosep n = true -> u ++ SEP :: x = n ++ SEP :: y -> u = n /\ x = y.
Proof.
  induction u as [|c u IH]; intros n x y Hu Hn H.
  - destruct n as [|d n]; [cbn in H; inversion H; split; reflexivity|].
    cbn in H. inversion H; subst. cbn [nosep forallb] in Hn. rewrite N.eqb_refl in Hn. discriminate.
  - destruct n as [|d n].
    + cbn in H. inversion H; subst. cbn [nosep forallb] in Hu. rewrite N.eqb_refl in Hu. discriminate.
    + cbn in H. inversion H; subst. cbn [nosep forallb] in Hu, Hn. apply andb_prop in Hu. apply andb_prop in Hn.
      destruct (IH n x y (proj2 Hu) (proj2 Hn) H2) as [-> ->]. split; reflexivity.
Qed.

Lemma nosep_no_sep : forall u x y, nosep u = true -> u <> x ++ SEP :: y.
Proof.
  intros u x y Hu ->. rewrite nosep_app in Hu. apply andb_prop in Hu. destruct Hu as [_ Hu]. cbn [nosep forallb] in Hu.
  rewrite N.eqb_refl in Hu. discriminate.
Qed.

Lemma join_cons : forall n rel, rel <> [] -> join_path (n :: rel) = n ++ SEP :: join_path rel.
Proof. intros n [|m rel] H; [congruence|reflexivity]. Qed.

Lemma join_nonempty : forall rel, rel <> [] -> Forall valid_name rel -> join_path rel <> [].
Proof.
  intros [|n rel] H Hv; [congruence|]. inversion Hv as [|? ? [Hn _] _]; subst. destruct rel as [|m rel].
  - exact Hn.
  - rewrite join_cons by discriminate. destruct n; [congruence|discriminate].
Qed.

Lemma join_not_sep_first : forall rel x, Forall valid_name rel -> join_path rel <> SEP :: x.
Proof.
  intros [|n rel] x Hv; [discriminate|]. inversion Hv as [|? ? [Hn Hs] _]; subst.
  destruct n as [|c n]; [congruence|]. cbn [nosep forallb] in Hs. apply andb_prop in Hs. destruct Hs as [Hc _].
  destruct rel as [|m rel]; [cbn [join_path]|rewrite join_cons by discriminate; cbn [app]];
    intros E; inversion E; subst; rewrite N.eqb_refl in Hc; discriminate.
Qed.

(* a path whose first part [u] is separator-free and is followed by nothing or by a separator: [u] is its first component *)
Lemma first_component : forall u v n rel,
  Forall valid_name (n :: rel) -> nosep u = true -> join_path (n :: rel) = u ++ v ->
  (v = [] \/ exists x, v = SEP :: x) ->
  u = n /\ ((v = [] /\ rel = []) \/ (rel <> [] /\ v = SEP :: join_path rel)).
Proof.
  intros u v n rel Hv Hu E Hvv. inversion Hv as [|? ? [Hn Hs] Hrel]; subst. destruct rel as [|m rel].
  - cbn [join_path] in E. destruct Hvv as [->|[x ->]].
    + rewrite app_nil_r in E. split; [symmetry; exact E|left; split; reflexivity].
    + exfalso. eapply nosep_no_sep; [exact Hs|exact E].
  - rewrite join_cons in E by discriminate. destruct Hvv as [->|[x ->]].
    + rewrite app_nil_r in E. exfalso. eapply nosep_no_sep; [exact Hu|symmetry; exact E].
    + symmetry in E. destruct (first_sep_unique _ _ _ _ Hu Hs E) as [-> ->]. split; [reflexivity|right; split; [discriminate|reflexivity]].
Qed.

(* ---- sequences ---------------------------------------------------------------------------------------------- *)
Lemma seq_aux_app : forall fs1 fs2 first s e w, fs1 <> [] -> fs2 <> [] ->
  sem (seq_edges_aux first (fs1 ++ fs2) s e) w ->
  exists u v, w = u ++ v /\ sem (seq_edges_aux first fs1 s false) u /\ sem (seq_edges_aux false fs2 s e) v.
Proof.
  induction fs1 as [|f fs1 IH]; intros fs2 first s e w H1 H2 Hs; [congruence|].
  destruct fs1 as [|g fs1'].
  - cbn [app] in Hs. destruct fs2 as [|h fs2']; [congruence|]. cbn [seq_edges_aux] in Hs. cbn [Regex.sem] in Hs.
    destruct Hs as [u [v [-> [Hu Hv]]]]. exists u, v. split; [reflexivity|]. split; [exact Hu|exact Hv].
  - cbn [app seq_edges_aux] in Hs. cbn [Regex.sem] in Hs. destruct Hs as [u [v [-> [Hu Hv]]]].
    destruct (IH fs2 false s e v ltac:(discriminate) H2 Hv) as [u' [v' [-> [Hu' Hv']]]].
    exists (u ++ u'), v'. split; [apply app_assoc|]. split; [|exact Hv'].
    cbn [seq_edges_aux]. cbn [Regex.sem]. exists u, u'. split; [reflexivity|]. split; [exact Hu|exact Hu'].
Qed.

Lemma take_nonboundary_spec : forall ts a b, take_nonboundary ts = (a, b) ->
  ts = a ++ b /\ Forall (fun t => is_boundary t = false) a /\ (b = [] \/ exists tb b', b = tb :: b' /\ is_boundary tb = true).
Proof.
  induction ts as [|t ts IH]; intros a b H; cbn [take_nonboundary] in H.
  - inversion H; subst. split; [reflexivity|]. split; [constructor|left; reflexivity].
  - destruct (is_boundary t) eqn:Et.
    + inversion H; subst. split; [reflexivity|]. split; [constructor|]. right. exists t, ts. split; [reflexivity|exact Et].
    + destruct (take_nonboundary ts) as [a' b'] eqn:E. inversion H; subst. destruct (IH _ _ eq_refl) as [-> [Ha Hb]].
      split; [reflexivity|]. split; [constructor; assumption|exact Hb].
Qed.

(* a tree wildcard that does not begin the expression matches nothing (only when it ends the expression) or begins
   with a separator *)
Lemma tree_nonstart : forall cap e root v, sem (enc_tree cap false e root) v -> (v = [] /\ e = true) \/ exists x, v = SEP :: x.
Proof.
  intros cap e root v H. destruct e; cbn [enc_tree enc_tree_mid grp Regex.sem] in H.
  - destruct H as [[-> | ->] | [u [v' [-> [-> _]]]]]; [left; split; reflexivity|right; eexists; reflexivity|right; eexists; reflexivity].
  - destruct H as [-> | [u [v' [-> [-> _]]]]]; right; eexists; reflexivity.
Qed.

Definition nb_comp (c : list tok) : Prop := existsb has_boundary c = false.

Lemma comp_indep : forall c first s e, nb_comp c ->
  seq_edges_aux first (map (enc_tok true) c) s e = enc_component c.
Proof.
  intros c first s e H. unfold enc_component, seq_edges. apply seq_aux_indep. unfold nb_comp in H.
  induction c as [|t c IH]; [constructor|]. cbn [existsb] in H. apply orb_false_iff in H. destruct H as [H1 H2].
  cbn [map]. constructor; [intros; apply nb_edges; exact H1|apply IH; exact H2].
Qed.

Lemma comp_nosep : forall c w, nb_comp c -> forallb lits_nosep c = true -> sem (enc_component c) w -> nosep w = true.
Proof.
  intros c w H Hl Hs. unfold enc_component, seq_edges in Hs. eapply seq_aux_nosep; [|exact Hs]. clear Hs. unfold nb_comp in H.
  induction c as [|t c IH]; [constructor|]. cbn [existsb] in H. apply orb_false_iff in H. destruct H as [H1 H2].
  cbn [forallb] in Hl. apply andb_prop in Hl. destruct Hl as [Hl1 Hl2].
  cbn [map]. constructor; [intros a b u Hu; eapply nb_nosep; eassumption|apply IH; assumption].
Qed.

(* ---- the main induction: along the components of the pattern and of the path ------------------------------------ *)
Lemma prune_aux : forall fuel ts first rel,
  length ts < fuel -> forallb lits_nosep ts = true -> Forall valid_name rel ->
  sem (seq_edges_aux first (map (enc_tok true) ts) true true) (join_path rel) ->
  forall i c comp, nth_error rel i = Some c ->
    nth_error (take_until_boundary (components_f fuel ts)) i = Some comp -> sem (enc_component comp) c.
Proof.
  induction fuel as [fuel IH] using lt_wf_ind. intros ts first rel Hlen Hl Hv Hs i c comp Hc Hcomp.
  destruct fuel as [|f]; [lia|]. cbn [components_f] in Hcomp.
  destruct ts as [|t r]; [cbn in Hcomp; destruct i; discriminate|].
  cbn [forallb] in Hl. apply andb_prop in Hl. destruct Hl as [Hlt Hlr].
  destruct (is_sep t) eqn:Esep.
  { (* a separator where a component of the path begins: no path of valid names is accepted *)
    exfalso. destruct t as [sp [| | | | |]| | |]; try discriminate. cbn [map seq_edges_aux] in Hs. destruct r as [|t' r'].
    - cbn [map enc_tok enc_leaf Regex.sem] in Hs. eapply join_not_sep_first; eassumption.
    - cbn [map enc_tok enc_leaf Regex.sem] in Hs. destruct Hs as [u [v [E [-> _]]]]. eapply join_not_sep_first; eassumption. }
  destruct (is_tree t) eqn:Etree.
  { cbn [take_until_boundary existsb] in Hcomp. destruct t as [sp [| | | | |]| | |]; try discriminate. cbn in Hcomp. destruct i; discriminate. }
  destruct (take_nonboundary r) as [a b] eqn:Etake. cbn [take_until_boundary] in Hcomp.
  destruct (existsb has_boundary (t :: a)) eqn:Enb; [destruct i; discriminate|].
  destruct (take_nonboundary_spec _ _ _ Etake) as [-> [Ha Hb]].
  rewrite forallb_app in Hlr. apply andb_prop in Hlr. destruct Hlr as [Hla Hlb].
  assert (Hlc : forallb lits_nosep (t :: a) = true) by (cbn [forallb]; rewrite Hlt, Hla; reflexivity).
  destruct rel as [|n rel]; [destruct i; discriminate|].
  (* the first component of the pattern matches a separator-free first part [u] of the path *)
  assert (Hsplit : exists u v, join_path (n :: rel) = u ++ v /\ sem (enc_component (t :: a)) u /\
            ((b = [] /\ v = []) \/ (b <> [] /\ sem (seq_edges_aux false (map (enc_tok true) b) true true) v))).
  { destruct b as [|tb b'].
    - rewrite app_nil_r in Hs. rewrite (comp_indep (t :: a) first true true Enb) in Hs.
      exists (join_path (n :: rel)), []. split; [symmetry; apply app_nil_r|]. split; [exact Hs|left; split; reflexivity].
    - change (t :: a ++ tb :: b') with ((t :: a) ++ tb :: b') in Hs. rewrite map_app in Hs.
      apply seq_aux_app in Hs; [|discriminate|discriminate]. destruct Hs as [u [v [E [Hu Hv0]]]].
      rewrite (comp_indep (t :: a) first true false Enb) in Hu. exists u, v. split; [exact E|]. split; [exact Hu|].
      right. split; [discriminate|exact Hv0]. }
  destruct Hsplit as [u [v [E [Hu Hrest]]]]. pose proof (comp_nosep _ _ Enb Hlc Hu) as Hnu.
  destruct Hrest as [[-> ->]|[Hbne Hv0]].
  - (* the pattern ends here *)
    destruct (first_component u [] n rel Hv Hnu E (or_introl eq_refl)) as [-> [[_ ->]|[_ Habs]]]; [|discriminate].
    destruct i as [|i]; [|destruct i; discriminate]. cbn in Hc, Hcomp. inversion Hc; inversion Hcomp; subst. exact Hu.
  - destruct Hb as [->|[tb [b' [-> Htb]]]]; [congruence|].
    destruct tb as [sp [ci x| |neg cl| |lz|root]|sp bs|sp ts'|sp bd lo hi]; try discriminate.
    + (* a separator follows: the walk continues with the next component of both *)
      assert (Hv' : exists v2, v = SEP :: v2 /\ (b' = [] /\ v2 = [] \/ b' <> [] /\ sem (seq_edges_aux false (map (enc_tok true) b') true true) v2)).
      { cbn [map seq_edges_aux] in Hv0. destruct b' as [|t' b''].
        - cbn [map enc_tok enc_leaf Regex.sem] in Hv0. subst v. exists []. split; [reflexivity|left; split; reflexivity].
        - cbn [map enc_tok enc_leaf Regex.sem] in Hv0. destruct Hv0 as [u1 [v2 [-> [-> Hv2]]]]. exists v2. split; [reflexivity|].
          right. split; [discriminate|exact Hv2]. }
      destruct Hv' as [v2 [-> Hv2]].
      destruct (first_component u (SEP :: v2) n rel Hv Hnu E (or_intror (ex_intro _ v2 eq_refl))) as [-> [[Habs _]|[Hrel Ev]]]; [discriminate|].
      inversion Ev as [Ev2]. inversion Hv as [|? ? _ Hvrel]; subst.
      destruct i as [|i]; [cbn in Hc, Hcomp; inversion Hc; inversion Hcomp; subst; exact Hu|].
      cbn [nth_error] in Hc, Hcomp. destruct f as [|f']; [cbn [length] in Hlen; rewrite app_length in Hlen; cbn [length] in Hlen; lia|].
      cbn [components_f is_sep] in Hcomp.
      destruct Hv2 as [[-> Hj]|[Hb' Hv2]]; [exfalso; eapply join_nonempty; eassumption|].
      cbn [forallb] in Hlb. apply andb_prop in Hlb. destruct Hlb as [_ Hlb'].
      eapply (IH f' ltac:(lia) b' false rel); try eassumption.
      cbn [length] in Hlen. rewrite app_length in Hlen. cbn [length] in Hlen. lia.
    + (* a tree wildcard follows: it is the last component program *)
      assert (Hv' : v = [] \/ exists x, v = SEP :: x).
      { cbn [map seq_edges_aux] in Hv0. destruct b' as [|t' b''].
        - cbn [map enc_tok enc_leaf andb] in Hv0. apply tree_nonstart in Hv0. destruct Hv0 as [[-> _]|Hx]; [left; reflexivity|right; exact Hx].
        - cbn [map enc_tok enc_leaf andb Regex.sem] in Hv0. destruct Hv0 as [u1 [v2 [-> [Hu1 _]]]]. apply tree_nonstart in Hu1.
          destruct Hu1 as [[_ Habs]|[x ->]]; [discriminate|]. right. exists (x ++ v2). reflexivity. }
      destruct (first_component u v n rel Hv Hnu E Hv') as [-> _].
      destruct i as [|i]; [cbn in Hc, Hcomp; inversion Hc; inversion Hcomp; subst; exact Hu|].
      cbn [nth_error] in Hcomp. destruct f as [|f']; [cbn in Hcomp; destruct i; discriminate|].
      cbn [components_f is_sep is_tree take_until_boundary existsb has_boundary leaf_boundary orb] in Hcomp. destruct i; discriminate.
Qed.

(* C02 (pruning soundness): for a token tree whose literals are separator-free, whatever path of valid names the complete
   program accepts, every component program accepts the component at its own position *)
Theorem prune_sound : forall t rel,
  lits_nosep t = true -> Forall valid_name rel -> sem (encode t) (join_path rel) ->
  forall i c comp, nth_error rel i = Some c ->
    nth_error (take_until_boundary (components (concatenation t))) i = Some comp -> sem (enc_component comp) c.
Proof.
  intros t rel Hl Hv Hs i c comp Hc Hcomp. unfold components in Hcomp.
  eapply (prune_aux (S (length (concatenation t))) (concatenation t) true rel); try eassumption; [lia| |].
  - destruct t; cbn [concatenation forallb]; try (rewrite Hl; reflexivity). exact Hl.
  - unfold encode in Hs. destruct t as [sp l|sp bs|sp ts|sp b lo hi]; cbn [concatenation map seq_edges_aux andb]; try exact Hs.
Qed.

End Prune.
