(* EscapeFacts.v -- C18 end to end in the model: for every string without backslash and without two adjacent separators,
   shorter than the invariant size limit, the escaped string parses into a flat sequence of case-sensitive literals and
   separators that spells the string, passes the rule checker, compiles, reports the string as its invariant text and
   matches the string and nothing else. *)
From Coq Require Import Lia.
From WaxModel Require Import Base Token Parse Regex Encode Variance Fold Rule Query Glob Spec.
From WaxProofs Require Import ParseFacts SpanFacts ParseFuelFacts.

Definition nobs (s : str) : bool := forallb (fun c => negb (N.eqb c BSLASH)) s.

(* ---- splitting at the first separator ------------------------------------------------------------------------------------ *)
Lemma split_run : forall s, nobs s = true ->
  exists a rest, s = a ++ rest /\ plain a = true /\ (rest = [] \/ exists r, rest = SEP :: r) /\ nobs rest = true /\
                 (match s with c :: _ => c <> SEP -> a <> [] | [] => True end).
Proof.
  induction s as [|c s IH]; intros H.
  - exists [], []. repeat split; try reflexivity. left. reflexivity.
  - cbn [nobs forallb] in H. apply andb_prop in H. destruct H as [Hc Hs]. fold (nobs s) in Hs.
    destruct (N.eqb_spec c SEP) as [->|Hne].
    + exists [], (SEP :: s). repeat split; try reflexivity.
      * right. eexists. reflexivity.
      * cbn [nobs forallb]. fold (nobs s). rewrite Hs. reflexivity.
      * intros Hx. congruence.
    + destruct (IH Hs) as [a [rest [-> [Ha [Hr [Hn _]]]]]]. exists (c :: a), rest. repeat split; try assumption.
      * cbn [plain forallb]. fold (plain a). rewrite Ha, Hc. apply N.eqb_neq in Hne. rewrite Hne. reflexivity.
      * intros _. discriminate.
Qed.

Lemma escape_app : forall a b, escape (a ++ b) = escape a ++ escape b.
Proof.
  induction a as [|c a IH]; intros b; [reflexivity|]. cbn [app escape]. destruct (is_meta_character c); cbn [app]; rewrite IH; reflexivity.
Qed.

Lemma sep_not_meta : is_meta_character SEP = false. Proof. reflexivity. Qed.

Lemma lit_chars_escape_app : forall a rest, plain a = true -> (rest = [] \/ exists r, rest = SEP :: r) ->
  lit_chars (escape (a ++ rest)) = Some (a, escape rest).
Proof.
  induction a as [|c a IH]; intros rest Hp Hr.
  - cbn [app]. destruct Hr as [->|[r ->]]; [reflexivity|]. cbn [escape]. rewrite sep_not_meta. reflexivity.
  - cbn [plain forallb] in Hp. apply andb_prop in Hp. destruct Hp as [Hc Hs]. fold (plain a) in Hs.
    apply andb_prop in Hc. destruct Hc as [Hsep Hbs]. apply negb_true_iff in Hsep. apply negb_true_iff in Hbs.
    cbn [app escape]. destruct (is_meta_character c) eqn:Em.
    + cbn [lit_chars]. rewrite N.eqb_refl. rewrite <- meta_escapable, Em. rewrite (IH rest Hs Hr). reflexivity.
    + cbn [lit_chars]. rewrite Hbs. rewrite mem_special_split, Hsep, Em, Hbs. cbn [orb]. rewrite (IH rest Hs Hr). reflexivity.
Qed.

(* the text of an escaped string never begins with a character that opens a pattern: `(`, `<`, `{`, `[`, `*`, `$`, `?` *)
Definition opener (c : char) : bool := mem c [c_lparen; c_lt; c_lbrace; c_lbrack; c_star; c_dollar; c_qmark].
Lemma opener_meta : forall c, opener c = true -> is_meta_character c = true.
Proof.
  intros c H. unfold opener, is_meta_character, GLOB_META, mem in *. cbn [existsb] in *.
  repeat match goal with H : (_ || _) = true |- _ => apply orb_prop in H; destruct H as [H|H] end; try discriminate;
    apply N.eqb_eq in H; subst; reflexivity.
Qed.

Lemma escape_head : forall s c r, escape s = c :: r -> opener c = false.
Proof.
  intros [|d s] c r H; [discriminate|]. cbn [escape] in H. destruct (is_meta_character d) eqn:Em.
  - inversion H; subst. reflexivity.
  - inversion H; subst. destruct (opener c) eqn:Eo; [|reflexivity]. apply opener_meta in Eo. congruence.
Qed.

Lemma not_opener : forall c k, opener c = false -> In k [c_lparen; c_lt; c_lbrace; c_lbrack; c_star; c_dollar; c_qmark] -> (c =? k) = false.
Proof.
  intros c k H Hin. destruct (N.eqb_spec c k) as [->|]; [|reflexivity]. exfalso.
  assert (opener k = true) by (unfold opener, mem; apply existsb_exists; exists k; split; [exact Hin|apply N.eqb_refl]). congruence.
Qed.

Lemma flags_noop : forall i s, i_s i = escape s -> flags_with_state i = i.
Proof.
  intros i s H. unfold flags_with_state. destruct (length (i_s i)) as [|n]; [reflexivity|]. cbn [flags_with_state_f].
  unfold flag_group. destruct (i_s i) as [|c1 [|c2 r]] eqn:E; try reflexivity.
  symmetry in H. apply escape_head in H. rewrite (not_opener c1 c_lparen H); [reflexivity|]. left. reflexivity.
Qed.

(* ---- one token ---------------------------------------------------------------------------------------------------------------- *)
Lemma p_literal_none_sep : forall i r, i_s i = SEP :: r -> p_literal i = None.
Proof. intros i r H. unfold p_literal. rewrite H. reflexivity. Qed.

Lemma p_wildcard_none_sep : forall tm i r, i_s i = SEP :: escape r -> p_wildcard tm i = None.
Proof.
  intros tm i r H. unfold p_wildcard. rewrite H. cbv zeta.
  change ((SEP =? c_qmark)) with false. cbn match. change (SEP =? SEP) with true. cbn match.
  assert (Hf : flags_with_state (adv1 i SEP (escape r)) = adv1 i SEP (escape r)) by (apply (flags_noop _ r); reflexivity).
  rewrite Hf. cbn [adv1 i_s].
  assert (Ht : match escape r with
               | c1 :: c2 :: r0 =>
                   if (c1 =? c_star) && (c2 =? c_star)
                   then
                     let i2 := adv1 (adv1 (adv1 i SEP (escape r)) c1 (c2 :: r0)) c2 r0 in
                     let i3 := flags_with_state i2 in
                     match i_s i3 with
                     | c3 :: r3 => if c3 =? SEP then Some (LTree true, adv1 i3 c3 r3) else if term_ok tm i2 then Some (LTree true, i2) else None
                     | [] => if term_ok tm i2 then Some (LTree true, i2) else None
                     end
                   else None
               | _ => None
               end = None).
  { destruct (escape r) as [|c1 [|c2 r0]] eqn:E; try reflexivity. apply escape_head in E.
    rewrite (not_opener c1 c_star E); [reflexivity|]. right. right. right. right. left. reflexivity. }
  cbv zeta in Ht. rewrite Ht. change (SEP =? c_star) with false. change (SEP =? c_dollar) with false. reflexivity.
Qed.

Lemma p_class_none : forall i c r, i_s i = c :: r -> opener c = false -> p_class i = None.
Proof.
  intros i c r H Ho. unfold p_class. rewrite H. rewrite (not_opener c c_lbrack Ho); [reflexivity|]. right. right. right. left. reflexivity.
Qed.

Lemma sep_not_opener : opener SEP = false. Proof. reflexivity. Qed.

Lemma p_token_sep : forall f tm i r, i_s i = SEP :: escape r ->
  p_token (S f) tm i = POk (TLeaf (mk_span i (adv1 i SEP (escape r))) LSep, adv1 i SEP (escape r)).
Proof.
  intros f tm i r H. cbn [p_token].
  assert (HF : flags_with_state i = i) by (apply (flags_noop i (SEP :: r)); rewrite H; cbn [escape]; rewrite sep_not_meta; reflexivity).
  rewrite HF. rewrite (p_literal_none_sep i _ H). cbn [leaf_tok]. rewrite H.
  change (SEP =? c_lt) with false. change (SEP =? c_lbrace) with false. cbn match.
  rewrite (p_wildcard_none_sep tm i r H), (p_class_none i SEP _ H sep_not_opener). cbn [leaf_tok].
  change (SEP =? SEP) with true. reflexivity.
Qed.

Lemma p_token_lit : forall f tm i a rest, i_s i = escape (a ++ rest) -> a <> [] -> plain a = true ->
  (rest = [] \/ exists r, rest = SEP :: r) ->
  exists i', p_token (S f) tm i = POk (TLeaf (mk_span i i') (LLit (i_ci i) a), i') /\ i_s i' = escape rest /\ i_ci i' = i_ci i.
Proof.
  intros f tm i a rest H Ha Hp Hr. cbn [p_token]. rewrite (flags_noop i _ H).
  unfold p_literal. rewrite H, (lit_chars_escape_app a rest Hp Hr). destruct a as [|c a]; [congruence|]. cbn [is_nil leaf_tok].
  eexists. split; [reflexivity|]. split; reflexivity.
Qed.

Lemma p_token_end : forall f tm i, i_s i = [] -> p_token (S f) tm i = PErr.
Proof.
  intros f tm i H. cbn [p_token].
  assert (HF : flags_with_state i = i) by (apply (flags_noop i []); exact H). rewrite HF.
  unfold p_literal, p_wildcard, p_class. rewrite H. cbn [lit_chars is_nil leaf_tok]. cbv zeta.
  destruct (i_sub i =? i_pos i); cbn match; rewrite ?HF, ?H; reflexivity.
Qed.

(* ---- the token sequence --------------------------------------------------------------------------------------------------- *)
(* a flat sequence of case-sensitive literals and separators that spells [s] *)
Inductive spells : list tok -> str -> Prop :=
| sp_nil : spells [] []
| sp_lit : forall sp a ts s, a <> [] -> plain a = true -> spells ts s -> spells (TLeaf sp (LLit false a) :: ts) (a ++ s)
| sp_sep : forall sp ts s, spells ts s -> spells (TLeaf sp LSep :: ts) (SEP :: s).

Lemma p_tokens_escape : forall f tm i s,
  nobs s = true -> i_s i = escape s -> i_ci i = false -> p_tokens f tm i <> PFuel ->
  exists ts i', p_tokens f tm i = POk (ts, i') /\ i_s i' = [] /\ spells ts s.
Proof.
  induction f as [|f IH]; intros tm i s Hn Hs Hci Hnf; [cbn in Hnf; congruence|].
  cbn [p_tokens] in *. destruct f as [|f']; [cbn [p_token] in Hnf; congruence|].
  destruct s as [|c s'].
  - rewrite (p_token_end f' tm i Hs) in *. exists [], i. split; [reflexivity|]. split; [exact Hs|constructor].
  - destruct (split_run (c :: s') Hn) as [a [rest [Es [Hp [Hr [Hnr Hne]]]]]].
    destruct (N.eqb_spec c SEP) as [->|Hc].
    + cbn [escape] in Hs. rewrite sep_not_meta in Hs.
      rewrite (p_token_sep f' tm i s' Hs) in *.
      cbn [nobs forallb] in Hn. apply andb_prop in Hn. destruct Hn as [_ Hn']. fold (nobs s') in Hn'.
      destruct (IH tm (adv1 i SEP (escape s')) s' Hn' eq_refl Hci) as [ts [i' [E [He Hsp]]]].
      { intros Hx. rewrite Hx in Hnf. congruence. }
      rewrite E. exists (TLeaf (mk_span i (adv1 i SEP (escape s'))) LSep :: ts), i'. split; [reflexivity|]. split; [exact He|].
      constructor. exact Hsp.
    + specialize (Hne Hc). rewrite Es in Hs.
      destruct (p_token_lit f' tm i a rest Hs Hne Hp Hr) as [i1 [Et [Hs1 Hc1]]]. rewrite Et in *. rewrite Hci in *.
      destruct (IH tm i1 rest Hnr Hs1 Hc1) as [ts [i' [E [He Hsp]]]].
      { intros Hx. rewrite Hx in Hnf. congruence. }
      rewrite E. eexists _, i'. split; [reflexivity|]. split; [exact He|]. rewrite Es. constructor; assumption.
Qed.

Lemma escape_nil : forall s, escape s = [] -> s = [].
Proof. intros [|c s] H; [reflexivity|]. cbn [escape] in H. destruct (is_meta_character c); discriminate. Qed.

Theorem parse_escape : forall s, nobs s = true -> s <> [] ->
  exists sp ts, parse (escape s) = ParseOk (TCat sp ts) /\ spells ts s /\ ts <> [].
Proof.
  intros s Hn Hne. pose proof (parse_never_out_of_fuel (escape s)) as Hnf. unfold parse in *.
  destruct (escape s) as [|c e] eqn:Ee; [apply escape_nil in Ee; congruence|]. rewrite <- Ee in *.
  destruct (p_tokens_escape (parse_fuel (escape s)) TermTop (set_sub (init_input (escape s))) s Hn eq_refl eq_refl) as [ts [i' [E [He Hsp]]]].
  { intros Hx. rewrite Hx in Hnf. congruence. }
  rewrite E. destruct ts as [|t0 ts].
  - inversion Hsp; subst. congruence.
  - rewrite He. eexists _, _. split; [reflexivity|]. split; [exact Hsp|discriminate].
Qed.

(* ---- the rule checker accepts the sequence -------------------------------------------------------------------------------- *)
Local Arguments N.add : simpl never.
Local Arguments N.ltb : simpl never.
Local Arguments N.leb : simpl never.

Fixpoint no_double_sep (s : str) : bool :=
  match s with
  | a :: ((b :: _) as r) => negb ((a =? SEP) && (b =? SEP)) && no_double_sep r
  | _ => true
  end.

Definition flat_leaf (t : tok) : Prop := match t with TLeaf _ (LLit false _) | TLeaf _ LSep => True | _ => False end.

Lemma spells_flat : forall ts s, spells ts s -> Forall flat_leaf ts.
Proof. intros ts s H. induction H; constructor; try exact I; assumption. Qed.

Lemma plain_head : forall a c r, plain a = true -> a = c :: r -> c <> SEP.
Proof.
  intros a c r Hp ->. cbn [plain forallb] in Hp. apply andb_prop in Hp. destruct Hp as [Hc _]. apply andb_prop in Hc.
  destruct Hc as [Hc _]. apply negb_true_iff, N.eqb_neq in Hc. exact Hc.
Qed.

Lemma no_double_sep_app : forall a s, no_double_sep (a ++ s) = true -> no_double_sep s = true.
Proof.
  induction a as [|c a IH]; intros s H; [exact H|]. cbn [app] in H. apply IH.
  destruct (a ++ s) as [|d r] eqn:E; [reflexivity|]. cbn [no_double_sep] in H. apply andb_prop in H. exact (proj2 H).
Qed.

Lemma spells_no_adjacent : forall ts s, spells ts s -> no_double_sep s = true -> adjacent_boundary ts = None.
Proof.
  intros ts s H. induction H as [|sp a ts s Ha Hp Hs IH|sp ts s Hs IH]; intros Hd; [reflexivity| |].
  - cbn [adjacent_boundary]. destruct ts as [|t ts']; [reflexivity|]. cbn [is_boundary tboundary leaf_boundary andb].
    apply IH. eapply no_double_sep_app. exact Hd.
  - cbn [adjacent_boundary]. destruct ts as [|t ts']; [reflexivity|].
    assert (Hd' : no_double_sep s = true).
    { destruct s as [|d r]; [reflexivity|]. cbn [no_double_sep] in Hd. apply andb_prop in Hd. exact (proj2 Hd). }
    inversion Hs as [|sp' a' ts0 s0 Ha' Hp' Hs'|sp' ts0 s0 Hs']; subst.
    + cbn [is_boundary tboundary leaf_boundary andb]. apply IH. exact Hd'.
    + exfalso. cbn [no_double_sep] in Hd. rewrite N.eqb_refl in Hd. cbn in Hd. discriminate.
Qed.

Lemma bfs_flat : forall sp ts, ts <> [] -> Forall flat_leaf ts -> bfs (TCat sp ts) = TCat sp ts :: ts.
Proof.
  intros sp ts Hne Hf. unfold bfs. cbn [tsize bfs_levels flat_map children app]. rewrite app_nil_r.
  assert (Hsz' : fold_right (fun b a => (tsize b + a)%nat) 0%nat ts = length ts).
  { clear Hne. induction Hf as [|t ts Ht _ IH]; [reflexivity|]. cbn [fold_right length]. rewrite IH.
    destruct t as [? [[]| | | | |]| | |]; try contradiction; reflexivity. }
  rewrite Hsz'. f_equal. destruct ts as [|t0 ts0]; [congruence|]. cbn [length bfs_levels].
  assert (Hch : flat_map children (t0 :: ts0) = []).
  { clear -Hf. induction Hf as [|t ts Ht _ IH]; [reflexivity|]. cbn [flat_map]. rewrite IH.
    destruct t as [? ?| | |]; try contradiction; reflexivity. }
  rewrite Hch. destruct (length ts0); cbn [bfs_levels]; apply app_nil_r.
Qed.

From WaxProofs Require Import FuelFacts.

Lemma rule_branch_flat : forall sp ts, Forall flat_leaf ts -> rule_branch (TCat sp ts) = None.
Proof.
  intros sp ts Hf. unfold rule_branch. cbn [branch_loop]. rewrite branch_item_eq. cbn [concatenation].
  assert (H : forall l acc, fold_left (bstep outer_default) (adjacent_aux l ts) acc = acc).
  { induction Hf as [|t ts Ht _ IH]; intros l acc; [reflexivity|]. cbn [adjacent_aux fold_left]. rewrite IH.
    destruct acc as [err q]. destruct t as [? ?| | |]; try contradiction. reflexivity. }
  unfold adjacent. rewrite H. cbn [app]. destruct (tsize (TCat sp ts)); reflexivity.
Qed.

Definition tok_size (t : tok) : N :=
  match t with TLeaf _ (LLit _ a) => blen a | TLeaf _ LSep => 1 | _ => 0 end.

Lemma spells_size : forall ts s, spells ts s -> fold_right (fun t a => tok_size t + a) 0 ts = blen s.
Proof.
  intros ts s H. induction H as [|sp a ts s Ha Hp Hs IH|sp ts s Hs IH]; [reflexivity| |].
  - cbn [fold_right tok_size]. rewrite IH, blen_app. reflexivity.
  - cbn [fold_right tok_size blen]. rewrite IH. reflexivity.
Qed.

Lemma size_fold_flat : forall ts, Forall flat_leaf ts ->
  rmapM size_fold ts = Ok (map (fun t => Some (Inv (tok_size t) : nvar)) ts).
Proof.
  intros ts Hf. induction Hf as [|t ts Ht _ IH]; [reflexivity|]. cbn [rmapM map]. rewrite IH.
  destruct t as [? [[]| | | | |]| | |]; try contradiction; reflexivity.
Qed.

Lemma rfold_conj_inv_sum : forall ts acc,
  acc + fold_right (fun t a => tok_size t + a) 0 ts < usize_max1 ->
  rfold nvar_conj (Inv acc) (map (fun t => Inv (tok_size t) : nvar) ts) = Ok (Inv (acc + fold_right (fun t a => tok_size t + a) 0 ts)).
Proof.
  induction ts as [|t ts IH]; intros acc H; cbn [map rfold fold_right] in *; [rewrite N.add_0_r; reflexivity|].
  cbn [nvar_conj]. unfold cadd. destruct (N.ltb_spec (acc + tok_size t) usize_max1) as [_|Hx]; [|lia]. cbn [rbind].
  rewrite IH; [f_equal; f_equal; lia|lia].
Qed.

Lemma opt_list_map_some : forall {A B} (f : A -> B) l, flat_map opt_list (map (fun t => Some (f t)) l) = map f l.
Proof. intros A B f l. induction l as [|a l IH]; [reflexivity|]. cbn [map flat_map opt_list app]. rewrite IH. reflexivity. Qed.

Lemma size_variance_flat : forall sp ts s, spells ts s -> ts <> [] -> blen s < usize_max1 ->
  size_variance (TCat sp ts) = Ok (Inv (blen s)).
Proof.
  intros sp ts s Hs Hne Hb. unfold size_variance. cbn [size_fold]. rewrite (size_fold_flat ts (spells_flat ts s Hs)). cbn [rbind].
  rewrite (opt_list_map_some (fun t => Inv (tok_size t) : nvar)). destruct ts as [|t0 ts]; [congruence|]. cbn [map rreduce].
  pose proof (spells_size _ _ Hs) as Hsum. cbn [fold_right] in Hsum.
  rewrite (rfold_conj_inv_sum ts (tok_size t0)); [|lia]. cbn [rmap rbind]. rewrite Hsum. reflexivity.
Qed.

Lemma tok_size_le : forall ts s t, spells ts s -> In t ts -> tok_size t <= blen s.
Proof.
  intros ts s t Hs Hin. rewrite <- (spells_size _ _ Hs). clear Hs. induction ts as [|x ts IH]; [contradiction|].
  cbn [fold_right]. destruct Hin as [->|Hin]; [lia|]. specialize (IH Hin). lia.
Qed.

Lemma rule_size_leaves : forall ts s rest, spells ts s -> incl rest ts -> blen s < MAX_INVARIANT_SIZE -> rule_size_list rest = Ok None.
Proof.
  intros ts s rest Hs. induction rest as [|t rest IH]; intros Hin Hb; [reflexivity|]. cbn [rule_size_list].
  assert (Ht : In t ts) by (apply Hin; left; reflexivity).
  pose proof (tok_size_le _ _ _ Hs Ht) as Hle. pose proof (spells_flat _ _ Hs) as Hf. rewrite Forall_forall in Hf. specialize (Hf t Ht).
  assert (Hv : size_variance t = Ok (Inv (tok_size t))) by (destruct t as [? [[]| | | | |]| | |]; try contradiction; reflexivity).
  rewrite Hv. cbn [rbind]. destruct (N.leb_spec MAX_INVARIANT_SIZE (tok_size t)) as [Hx|_]; [lia|].
  apply IH; [intros x Hx; apply Hin; right; exact Hx|exact Hb].
Qed.

Theorem check_flat : forall sp ts s, spells ts s -> ts <> [] -> no_double_sep s = true -> blen s < MAX_INVARIANT_SIZE ->
  check (TCat sp ts) = Ok None.
Proof.
  intros sp ts s Hs Hne Hd Hb. pose proof (spells_flat _ _ Hs) as Hf. unfold check.
  assert (Hbfs := bfs_flat sp ts Hne Hf).
  assert (Hleaf : forall {A} (f : tok -> option A) , (forall t, flat_leaf t -> f t = None) -> first_some_l f ts = None).
  { intros A f Hfn. clear -Hf Hfn. induction Hf as [|t ts Ht _ IH]; [reflexivity|]. cbn [first_some_l]. rewrite (Hfn t Ht). exact IH. }
  unfold rule_boundary. rewrite Hbfs. cbn [first_some_l]. rewrite (spells_no_adjacent _ _ Hs Hd).
  rewrite Hleaf; [|intros t Ht; destruct t as [? ?| | |]; try contradiction; reflexivity].
  unfold rule_bounds. rewrite Hbfs. cbn [find bad_bounds].
  assert (Hfind : find bad_bounds ts = None).
  { clear -Hf. induction Hf as [|t ts Ht _ IH]; [reflexivity|]. cbn [find]. destruct t as [? ?| | |]; try contradiction. exact IH. }
  rewrite Hfind, (rule_branch_flat sp ts Hf). unfold rule_size. rewrite Hbfs. cbn [rule_size_list].
  assert (Hmax : MAX_INVARIANT_SIZE < usize_max1) by (unfold MAX_INVARIANT_SIZE, usize_max1; lia).
  rewrite (size_variance_flat sp ts s Hs Hne ltac:(lia)). cbn [rbind].
  destruct (N.leb_spec MAX_INVARIANT_SIZE (blen s)) as [Hx|_]; [lia|].
  eapply rule_size_leaves; [exact Hs|apply incl_refl|exact Hb].
Qed.

(* ---- the program compiles --------------------------------------------------------------------------------------------------- *)
Local Arguments N.max : simpl never.

Definition flat_fn (f : bool -> bool -> re) : Prop := (exists a, forall s e, f s e = RLit false a) \/ (forall s e, f s e = RSep).

Lemma flat_enc : forall t, flat_leaf t -> flat_fn (enc_tok true t).
Proof. intros [? [[]| | | | |]| | |] H; try contradiction; [left; eexists; reflexivity|right; reflexivity]. Qed.

Lemma seq_flat_limits : forall fs first s e, Forall flat_fn fs ->
  rep_in_limits (seq_edges_aux first fs s e) = true /\ snd (fst (re_views (seq_edges_aux first fs s e))) <= 1 /\
  (forall a b, seq_edges_aux first fs s e <> RAlt a b).
Proof.
  induction fs as [|f fs IH]; intros first s e H; [cbn; repeat split; [lia|discriminate]|].
  inversion H as [|? ? Hf Hfs]; subst. cbn [seq_edges_aux]. destruct fs as [|g fs'].
  - destruct Hf as [[a Ha]|Hsep]; [rewrite Ha|rewrite Hsep]; cbn; repeat split; try lia; discriminate.
  - destruct (IH false s e Hfs) as [H1 [H2 H3]]. cbn [rep_in_limits]. rewrite H1.
    set (rest := seq_edges_aux false (g :: fs') s e) in *.
    assert (Hhead : rep_in_limits (f (s && first) false) = true /\ snd (fst (re_views (f (s && first) false))) <= 1 /\
                    (forall a b, f (s && first) false <> RAlt a b)).
    { destruct Hf as [[a Ha]|Hsep]; [rewrite Ha|rewrite Hsep]; cbn; repeat split; try lia; discriminate. }
    destruct Hhead as [Hh1 [Hh2 Hh3]]. rewrite Hh1. split; [reflexivity|]. split; [|discriminate].
    cbn [re_views]. destruct (fst (re_views (f (s && first) false))) as [na da] eqn:Ea. destruct (fst (re_views rest)) as [nb db] eqn:Eb.
    cbn [fst snd] in *. lia.
Qed.

Lemma compile_ok_flat : forall sp ts, Forall flat_leaf ts -> compile_ok (encode (TCat sp ts)) = true.
Proof.
  intros sp ts Hf. unfold compile_ok, encode. cbn [enc_tok]. unfold seq_edges.
  assert (Hfs : Forall flat_fn (map (enc_tok true) ts)).
  { induction Hf as [|t ts Ht _ IH]; [constructor|]. cbn [map]. constructor; [apply flat_enc; exact Ht|exact IH]. }
  destruct (seq_flat_limits _ true true true Hfs) as [H1 [H2 _]]. rewrite H1. unfold re_nest, REGEX_NEST_LIMIT.
  apply N.leb_le. lia.
Qed.

(* ---- its text and its language ------------------------------------------------------------------------------------------------ *)
From WaxProofs Require Import SpecFacts TextFacts.

Section Text.
Variable has_casing : char -> bool.

Definition tok_text (t : tok) : text :=
  match t with TLeaf _ (LLit _ a) => [FNominal a] | TLeaf _ LSep => [FStructural [SEP]] | _ => [] end.

Lemma text_fold_flat : forall ts, Forall flat_leaf ts ->
  rmapM (text_fold has_casing) ts = Ok (map (fun t => Some (Inv (tok_text t) : tvar)) ts).
Proof.
  intros ts Hf. induction Hf as [|t ts Ht _ IH]; [reflexivity|]. cbn [rmapM map]. rewrite IH.
  destruct t as [? [[]| | | | |]| | |]; try contradiction; reflexivity.
Qed.

Lemma fold_conj_texts : forall ts a,
  exists t', fold_left tvar_conj (map (fun t => Inv (tok_text t) : tvar) ts) (Inv a) = Inv t' /\
             text_to_string t' = text_to_string a ++ concat (map (fun t => text_to_string (tok_text t)) ts).
Proof.
  induction ts as [|t ts IH]; intros a.
  - exists a. split; [reflexivity|]. cbn. rewrite app_nil_r. reflexivity.
  - cbn [map fold_left tvar_conj]. destruct (IH (text_conj a (tok_text t))) as [t' [E Hs]]. exists t'. split; [exact E|].
    rewrite Hs, text_conj_string. cbn [concat]. rewrite app_assoc. reflexivity.
Qed.

Lemma spells_text : forall ts s, spells ts s -> concat (map (fun t => text_to_string (tok_text t)) ts) = s.
Proof.
  intros ts s H. induction H as [|sp a ts s Ha Hp Hs IH|sp ts s Hs IH]; [reflexivity| |].
  - cbn [map concat tok_text text_to_string flat_map frag_str]. rewrite IH, app_nil_r. reflexivity.
  - cbn [map concat tok_text text_to_string flat_map frag_str app]. rewrite IH. reflexivity.
Qed.

Lemma text_variance_flat : forall sp ts s, spells ts s -> ts <> [] ->
  exists txt, text_variance has_casing (TCat sp ts) = Ok (Inv txt) /\ text_to_string txt = s.
Proof.
  intros sp ts s Hs Hne. unfold text_variance. cbn [text_fold]. rewrite (text_fold_flat ts (spells_flat _ _ Hs)). cbn [rbind].
  rewrite (opt_list_map_some (fun t => Inv (tok_text t) : tvar)). destruct ts as [|t0 ts]; [congruence|]. cbn [map reduce_pure].
  destruct (fold_conj_texts ts (tok_text t0)) as [t' [E Ht']]. rewrite E. exists t'. split; [reflexivity|].
  rewrite Ht'. rewrite <- (spells_text _ _ Hs). reflexivity.
Qed.
End Text.

Section Lang.
Variable orbit : char -> list char.

Lemma sem_flat : forall ts s, spells ts s -> forall first s0 e0 w,
  sem orbit (seq_edges_aux first (map (enc_tok true) ts) s0 e0) w <-> w = s.
Proof.
  intros ts s H. induction H as [|sp a ts s Ha Hp Hs IH|sp ts s Hs IH]; intros first s0 e0 w.
  - cbn. split; intros ->; reflexivity.
  - cbn [map seq_edges_aux]. destruct ts as [|t ts'].
    + inversion Hs; subst. rewrite app_nil_r. cbn [map enc_tok enc_leaf sem]. split.
      * intros Hl. eapply lit_sem_exact. exact Hl.
      * intros ->. apply lit_sem_refl.
    + change (map (enc_tok true) (t :: ts')) with (enc_tok true t :: map (enc_tok true) ts').
      cbn [sem enc_tok enc_leaf]. split.
      * intros [u [v [-> [Hu Hv]]]]. apply lit_sem_exact in Hu. subst u. f_equal.
        apply (IH false s0 e0 v). exact Hv.
      * intros ->. exists a, s. split; [reflexivity|]. split; [apply lit_sem_refl|]. apply (IH false s0 e0 s). reflexivity.
  - cbn [map seq_edges_aux]. destruct ts as [|t ts'].
    + inversion Hs; subst. cbn [map enc_tok enc_leaf sem]. split; intros ->; reflexivity.
    + change (map (enc_tok true) (t :: ts')) with (enc_tok true t :: map (enc_tok true) ts').
      cbn [sem enc_tok enc_leaf]. split.
      * intros [u [v [-> [-> Hv]]]]. cbn [app]. f_equal. apply (IH false s0 e0 v). exact Hv.
      * intros ->. exists [SEP], s. split; [reflexivity|]. split; [reflexivity|]. apply (IH false s0 e0 s). reflexivity.
Qed.
End Lang.

(* ---- C18 end to end --------------------------------------------------------------------------------------------------------- *)
Theorem escape_builds_exactly : forall s,
  nobs s = true -> no_double_sep s = true -> blen s < MAX_INVARIANT_SIZE ->
  exists t r, build (escape s) = BuildOk t r /\
    (forall has_casing, exists txt, text_variance has_casing t = Ok (Inv txt) /\ text_to_string txt = s) /\
    (forall orbit w, sem orbit r w <-> w = s).
Proof.
  intros s Hn Hd Hb. destruct s as [|c s'].
  - exists tok_empty, (RLit false []). split; [reflexivity|]. split.
    + intros hc. exists [FNominal []]. split; reflexivity.
    + intros orbit w. cbn [sem]. split; [intros H; inversion H; reflexivity|intros ->; constructor].
  - destruct (parse_escape (c :: s') Hn ltac:(discriminate)) as [sp [ts [Hp [Hs Hne]]]].
    exists (TCat sp ts), (encode (TCat sp ts)). split; [|split].
    + unfold build. rewrite Hp, (check_flat sp ts _ Hs Hne Hd Hb), (compile_ok_flat sp ts (spells_flat _ _ Hs)). reflexivity.
    + intros hc. apply text_variance_flat; assumption.
    + intros orbit w. unfold encode. cbn [enc_tok]. unfold seq_edges. apply sem_flat. exact Hs.
Qed.
