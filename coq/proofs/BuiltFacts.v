(* BuiltFacts.v -- facts about every glob that builds (parse, then the rule checker): the bounds of every repetition, at
   every depth, are below 2^64 and ordered; hence re-annotating / re-owning the tree (fold_map) cannot fail and changes
   spans only, and combinators of built globs are constructed without panicking (C05, C19). *)
From Coq Require Import Arith Lia.
From WaxModel Require Import Base Token Regex Encode Variance Fold Rule Parse Query Glob.
From WaxProofs Require Import AlgebraFacts OwnedFacts FuelFacts RuleFacts.
Local Open Scope N_scope.

(* ---- every bound the parser reads fits in a usize ------------------------------------------------------------------------- *)
Definition small_bounds (lo : N) (hi : option N) : Prop :=
  lo < usize_max1 /\ match hi with Some h => h < usize_max1 | None => True end.

Lemma parse_usize_small : forall d n, parse_usize d = Some n -> n < usize_max1.
Proof. intros d n H. unfold parse_usize in H. match type of H with (if ?c then _ else _) = _ => destruct c eqn:E end; [|discriminate]. inversion H; subst. apply N.ltb_lt. exact E. Qed.

Lemma p_bounds_small : forall i lo hi i', p_bounds i = ((lo, hi), i') -> small_bounds lo hi.
Proof.
  intros i lo hi i' H. unfold p_bounds in H.
  assert (H1 : small_bounds 1 None) by (split; [vm_compute; reflexivity|exact I]).
  assert (H0 : small_bounds 0 None) by (split; [vm_compute; reflexivity|exact I]).
  destruct (match i_s i with c :: r => if c =? c_colon then Some (c, r) else None | [] => None end) as [[c r]|]; [|inversion H; subst; exact H0].
  destruct (digits r) as [d1 r1].
  assert (Hconv : forall b i0, (if is_nil d1 then ((1, None), adv1 i c r)
             else match parse_usize d1 with Some n => ((n, Some n), adv (adv1 i c r) d1 r1) | None => ((1, None), adv1 i c r) end) = (b, i0) ->
            small_bounds (fst b) (snd b)).
  { intros b i0 Hb. destruct (is_nil d1); [inversion Hb; subst; exact H1|]. destruct (parse_usize d1) as [n|] eqn:E; inversion Hb; subst; [|exact H1].
    apply parse_usize_small in E. split; exact E. }
  destruct (is_nil d1) eqn:En; [inversion H; subst; exact H1|].
  destruct (match r1 with c4 :: r2 => if c4 =? c_comma then Some r2 else None | [] => None end) as [r2|]; [|apply (Hconv _ _ H)].
  destruct (digits r2) as [d2 r3]. destruct (parse_usize d1) as [l|] eqn:E1; [|apply (Hconv _ _ H)].
  destruct (if is_nil d2 then Some None else option_map Some (parse_usize d2)) as [h|] eqn:E2; [|apply (Hconv _ _ H)].
  inversion H; subst. split; [apply parse_usize_small in E1; exact E1|].
  destruct (is_nil d2); [inversion E2; subst; exact I|]. destruct (parse_usize d2) as [h2|] eqn:E3; [|discriminate]. inversion E2; subst.
  apply parse_usize_small in E3. exact E3.
Qed.

Fixpoint reps_small (t : tok) : Prop :=
  match t with
  | TLeaf _ _ => True
  | TAlt _ bs => (fix go (l : list tok) : Prop := match l with [] => True | x :: l' => reps_small x /\ go l' end) bs
  | TCat _ ts => (fix go (l : list tok) : Prop := match l with [] => True | x :: l' => reps_small x /\ go l' end) ts
  | TRep _ b lo hi => reps_small b /\ small_bounds lo hi
  end.
Definition all_small (l : list tok) : Prop := (fix go (l : list tok) : Prop := match l with [] => True | x :: l' => reps_small x /\ go l' end) l.

Definition tokens_s (f : nat) : Prop := forall tm i ts i', p_tokens f tm i = POk (ts, i') -> all_small ts.
Definition token_s (f : nat) : Prop := forall tm i t i', p_token f tm i = POk (t, i') -> reps_small t.
Definition branches_s (f : nat) : Prop := forall i bs i', p_branches f i = POk (bs, i') -> all_small bs.
Definition glob_s (f : nat) : Prop := forall tm i t i', p_glob f tm i = POk (t, i') -> reps_small t.

Ltac leaf_tail_s H :=
  match type of H with context [p_wildcard ?tm ?iF] =>
    destruct (p_wildcard tm iF) as [[? ?]|]; cbn [leaf_tok] in H;
    [ inversion H; subst; exact I
    | destruct (p_class iF) as [[? ?]|]; cbn [leaf_tok] in H;
      [ inversion H; subst; exact I
      | match type of H with (match ?T with _ => _ end) = _ =>
          destruct T as [[? ?]|]; [|discriminate]; inversion H; subst; exact I
        end ] ]
  end.

Lemma step_s : forall f, tokens_s f -> token_s f -> branches_s f -> glob_s f ->
  tokens_s (S f) /\ token_s (S f) /\ branches_s (S f) /\ glob_s (S f).
Proof.
  intros f IHts IHt IHb IHg. split; [|split; [|split]].
  - intros tm i ts i' H. cbn [p_tokens] in H.
    destruct (p_token f tm i) as [[t i1]| |] eqn:Et; [| |discriminate].
    + destruct (p_tokens f tm i1) as [[ts' i2]| |] eqn:Ets; try discriminate. inversion H; subst.
      split; [exact (IHt _ _ _ _ Et)|exact (IHts _ _ _ _ Ets)].
    + inversion H; subst. exact I.
  - intros tm i t i' H. cbn [p_token] in H. set (iF := flags_with_state i) in *.
    destruct (p_literal iF) as [[l1 i1]|] eqn:El; cbn [leaf_tok] in H.
    { inversion H; subst. exact I. }
    assert (AltTail :
      match
        match (match i_s iF with c :: r => if c =? c_lbrace then Some (c, r) else None | [] => None end) with
        | Some (c, r) =>
            match p_branches f (adv1 iF c r) with
            | PFuel => PFuel
            | PErr => POk None
            | POk (bs, i1) => match tag1 c_rbrace i1 with Some i2 => POk (Some (TAlt (mk_span i i2) bs, i2)) | None => POk None end
            end
        | None => POk None
        end
      with
      | PFuel => PFuel
      | PErr => PErr
      | POk (Some x) => POk x
      | POk None =>
          match leaf_tok i (p_wildcard tm iF) with
          | Some x => POk x
          | None => match leaf_tok i (p_class iF) with
                    | Some x => POk x
                    | None => match (match i_s iF with c :: r => if c =? SEP then Some (c, r) else None | [] => None end) with
                              | Some (c, r) => POk (TLeaf (mk_span i (adv1 iF c r)) LSep, adv1 iF c r)
                              | None => PErr
                              end
                    end
          end
      end = POk (t, i') -> reps_small t).
    { intros HA.
      destruct (match i_s iF with c :: r => if c =? c_lbrace then Some (c, r) else None | [] => None end) as [[c r]|] eqn:Elb.
      - destruct (p_branches f (adv1 iF c r)) as [[bs i1]| |] eqn:Eb; [| |discriminate].
        + destruct (tag1 c_rbrace i1) as [i2|] eqn:Etg.
          * inversion HA; subst. cbn [reps_small]. exact (IHb _ _ _ Eb).
          * leaf_tail_s HA.
        + leaf_tail_s HA.
      - leaf_tail_s HA. }
    destruct (match i_s iF with c :: r => if c =? c_lt then Some (c, r) else None | [] => None end) as [[c r]|] eqn:Elt.
    + destruct (p_glob f TermRep (adv1 iF c r)) as [[body i1]| |] eqn:Eg; [| |discriminate].
      * destruct (p_bounds i1) as [[lo hi] i2] eqn:Ebd.
        destruct (tag1 c_gt i2) as [i3|] eqn:Etg.
        -- inversion H; subst. cbn [reps_small]. split; [exact (IHg _ _ _ _ Eg)|eapply p_bounds_small; exact Ebd].
        -- apply AltTail. exact H.
      * apply AltTail. exact H.
    + apply AltTail. exact H.
  - intros i bs i' H. cbn [p_branches] in H.
    destruct (p_glob f TermAlt i) as [[b i1]| |] eqn:Eg; try discriminate. pose proof (IHg _ _ _ _ Eg) as Hb.
    destruct (match i_s i1 with c :: r => if c =? c_comma then Some (c, r) else None | [] => None end) as [[c r]|] eqn:Ec.
    + destruct (p_branches f (adv1 i1 c r)) as [[bs' i2]| |] eqn:Eb; [| |discriminate].
      * inversion H; subst. split; [exact Hb|exact (IHb _ _ _ Eb)].
      * inversion H; subst. split; [exact Hb|exact I].
    + inversion H; subst. split; [exact Hb|exact I].
  - intros tm i t i' H. cbn [p_glob] in H.
    destruct (p_tokens f tm (set_sub i)) as [[ts i1]| |] eqn:Ets; try discriminate.
    destruct ts as [|t0 ts']; [discriminate|]. destruct (term_ok tm i1); [|discriminate]. inversion H; subst.
    cbn [reps_small]. exact (IHts _ _ _ _ Ets).
Qed.

Theorem grammar_s : forall f, tokens_s f /\ token_s f /\ branches_s f /\ glob_s f.
Proof.
  induction f as [|f [H1 [H2 [H3 H4]]]].
  - split; [|split; [|split]]; intro; intros; cbn in *; discriminate.
  - apply step_s; assumption.
Qed.

Theorem parse_reps_small : forall e t, parse e = ParseOk t -> reps_small t.
Proof.
  intros e t H. unfold parse in H. destruct e as [|c e]; [inversion H; subst; exact I|].
  destruct (p_tokens (parse_fuel (c :: e)) TermTop (set_sub (init_input (c :: e)))) as [[ts i1]| |] eqn:E; try discriminate.
  destruct ts as [|t0 ts]; [discriminate|]. destruct (i_s i1); [|discriminate]. inversion H; subst.
  cbn [reps_small]. exact (proj1 (grammar_s _) _ _ _ _ E).
Qed.

(* ---- with the rule checker: bounds are ordered at every depth --------------------------------------------------------------- *)
Lemma bounds_ok_of : forall sp b lo hi, small_bounds lo hi -> bad_bounds (TRep sp b lo hi) = false -> bounds_ok lo hi.
Proof.
  intros sp b lo hi [Hlo Hhi] Hb. unfold bounds_ok. split; [exact Hlo|]. destruct hi as [h|]; [|exact I].
  cbn [bad_bounds] in Hb. apply orb_false_iff in Hb. destruct Hb as [Hlt _]. apply N.ltb_ge in Hlt. split; assumption.
Qed.

Lemma bounds_ok_tree : forall t, reps_small t -> (forall x, sub x t -> bad_bounds x = false) -> tok_bounds_ok t.
Proof.
  induction t as [sp l|sp bs IH|sp ts IH|sp b lo hi IH] using tok_ind'; intros Hs Hb.
  - exact I.
  - cbn [tok_bounds_ok]. cbn [reps_small] in Hs.
    assert (Hsub : forall b0, In b0 bs -> forall x, sub x b0 -> bad_bounds x = false).
    { intros b0 Hin x Hx. apply Hb. eapply sub_child; [exact Hin|exact Hx]. }
    clear Hb. induction IH as [|b0 bs' Hb0 _ IHbs]; [exact I|]. destruct Hs as [Hs0 Hs'].
    split; [apply Hb0; [exact Hs0|apply Hsub; left; reflexivity]|apply IHbs; [exact Hs'|intros b1 Hin; apply Hsub; right; exact Hin]].
  - cbn [tok_bounds_ok]. cbn [reps_small] in Hs.
    assert (Hsub : forall b0, In b0 ts -> forall x, sub x b0 -> bad_bounds x = false).
    { intros b0 Hin x Hx. apply Hb. eapply sub_child; [exact Hin|exact Hx]. }
    clear Hb. induction IH as [|b0 ts' Hb0 _ IHts]; [exact I|]. destruct Hs as [Hs0 Hs'].
    split; [apply Hb0; [exact Hs0|apply Hsub; left; reflexivity]|apply IHts; [exact Hs'|intros b1 Hin; apply Hsub; right; exact Hin]].
  - cbn [tok_bounds_ok]. cbn [reps_small] in Hs. destruct Hs as [Hsb Hsm]. split.
    + apply IH; [exact Hsb|]. intros x Hx. apply Hb. eapply sub_child; [left; reflexivity|exact Hx].
    + eapply bounds_ok_of; [exact Hsm|apply Hb; apply sub_refl].
Qed.

(* every glob that builds has repetition bounds below 2^64 and ordered, at every depth *)
Theorem built_bounds_ok : forall e t r, build e = BuildOk t r -> tok_bounds_ok t.
Proof.
  intros e t r H. unfold build in H. destruct (parse e) as [t0| |] eqn:Ep; try discriminate.
  destruct (check t0) as [[[k sp]|]|s] eqn:Ec; try discriminate. destruct (compile_ok (encode t0)); [|discriminate]. inversion H; subst.
  apply bounds_ok_tree; [eapply parse_reps_small; exact Ep|]. apply built_bounds_everywhere. exact Ec.
Qed.

(* C19: re-annotating (re-owning) a built glob cannot fail and only changes annotations *)
Theorem built_fold_map : forall e t r f, build e = BuildOk t r -> fold_map f t = Ok (respan f t).
Proof. intros e t r f H. apply fold_map_respan. eapply built_bounds_ok. exact H. Qed.

(* C05: a combinator of built globs is constructed without panicking, whatever the globs *)
Theorem built_any_total : forall ts, Forall (fun t => exists e r, build e = BuildOk t r) ts ->
  any_tree ts = Ok (TAlt (0, 0) (map (respan (fun _ => (0, 0))) ts)).
Proof.
  intros ts H. unfold any_tree.
  assert (Hm : rmapM (fold_map (fun _ => (0, 0))) ts = Ok (map (respan (fun _ => (0, 0))) ts)).
  { induction H as [|t ts [e [r Hb]] _ IH]; [reflexivity|]. cbn [rmapM map]. rewrite (built_fold_map e t r _ Hb). cbn [rbind]. rewrite IH. reflexivity. }
  rewrite Hm. reflexivity.
Qed.
