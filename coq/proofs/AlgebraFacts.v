(* AlgebraFacts.v -- facts about the variance algebra (Variance.v) and fold_map (Query.v). *)
From WaxModel Require Import Base Token Regex Encode Variance Fold Rule Parse Query.

Local Arguments N.add : simpl never.
Local Arguments N.sub : simpl never.
Local Arguments N.ltb : simpl never.
Local Arguments N.eqb : simpl never.

(* ---- valid bounded ranges (the invariants of BoundedVariantRange: NonZeroUsize fields) --------- *)
Definition bvr_ok (r : bvr) : Prop :=
  match r with
  | BLower n => 0 < n
  | BUpper n => 0 < n
  | BBoth lo ext => 0 < lo /\ 0 < ext
  end.

(* C05: after the repair, the conjunction of two bounded ranges never reaches `unreachable!()` nor the
   `expect`: its only failure is the checked addition. *)
Lemma bvr_conj_total :
  forall a b, bvr_ok a -> bvr_ok b ->
    (exists r, bvr_conj a b = Ok r /\ bvr_ok r) \/ bvr_conj a b = Panic PanicOverflow.
Proof.
  intros a b Ha Hb. unfold bvr_conj, bvr_upper, bvr_lower, cadd, rbind.
  destruct a as [la|ua|la ea], b as [lb|ub|lb eb]; cbn [lower_usize upper_usize bvr_ok] in *;
    repeat match goal with
           | |- context [if ?c then _ else _] => let E := fresh "E" in destruct c eqn:E; cbn [lower_usize upper_usize]
           end;
    try (right; reflexivity);
    unfold try_lower_upper;
    repeat match goal with
           | |- context [if ?c then _ else _] => let E := fresh "E" in destruct c eqn:E
           end;
    try (left; eexists; split; [reflexivity|]; cbn [bvr_ok]);
    repeat match goal with
           | H : (_ && _) = true |- _ => apply andb_prop in H; destruct H
           | H : (_ && _) = false |- _ => apply andb_false_iff in H
           | H : (_ =? _) = true |- _ => apply N.eqb_eq in H
           | H : (_ =? _) = false |- _ => apply N.eqb_neq in H
           | H : (_ <? _) = true |- _ => apply N.ltb_lt in H
           | H : (_ <? _) = false |- _ => apply N.ltb_ge in H
           end;
    try lia.
Qed.

(* ---- C19: fold_map with the identity is the identity ------------------------------------------------ *)
(* the bounds of a repetition as the parser and the rules leave them: below 2^64 and ordered *)
Definition bounds_ok (lo : N) (hi : option N) : Prop :=
  lo < usize_max1 /\ match hi with Some h => lo <= h /\ h < usize_max1 | None => True end.

Lemma rep_roundtrip_id : forall lo hi, bounds_ok lo hi -> rep_roundtrip lo hi = Ok (lo, hi).
Proof.
  intros lo hi [Hlo Hhi]. unfold rep_roundtrip, rep_range, from_closed_open.
  destruct hi as [h|].
  - destruct Hhi as [Hle Hh]. destruct (h <? lo) eqn:E; [apply N.ltb_lt in E; lia|]. clear E.
    assert (Hm : forall (X : nrange),
               match lo, Some h with 0, None => Var Unbounded | _, _ => X end = X) by (intros; destruct lo; reflexivity).
    rewrite Hm. clear Hm. unfold try_lower_upper.
    destruct (N.eqb_spec lo 0) as [El|El], (N.eqb_spec h 0) as [Eh|Eh]; cbn [andb].
    + subst. reflexivity.
    + subst. cbn. reflexivity.
    + lia.
    + destruct (N.ltb_spec lo h) as [Elt|Ege].
      * cbn [nr_lower nr_upper bvr_lower bvr_upper rbind]. unfold cadd.
        replace (lo + (h - lo)) with h by lia.
        destruct (N.ltb_spec h usize_max1) as [_|Hx]; [|lia]. cbn [rbind lower_usize upper_usize]. reflexivity.
      * assert (h = lo) by lia. subst h. cbn [nr_lower nr_upper rbind]. unfold nbound_of_n.
        destruct (N.eqb_spec lo 0); [contradiction|]. reflexivity.
  - destruct lo as [|pl]; cbn; reflexivity.
Qed.

Fixpoint tok_bounds_ok (t : tok) : Prop :=
  match t with
  | TLeaf _ _ => True
  | TAlt _ bs => (fix go (l : list tok) : Prop := match l with [] => True | x :: l' => tok_bounds_ok x /\ go l' end) bs
  | TCat _ ts => (fix go (l : list tok) : Prop := match l with [] => True | x :: l' => tok_bounds_ok x /\ go l' end) ts
  | TRep _ b lo hi => tok_bounds_ok b /\ bounds_ok lo hi
  end.

Lemma rmapM_id :
  forall (f : tok -> res tok) l,
    (fix go (l : list tok) : Prop := match l with [] => True | x :: l' => tok_bounds_ok x /\ go l' end) l ->
    Forall (fun t => tok_bounds_ok t -> f t = Ok t) l -> rmapM f l = Ok l.
Proof.
  intros f l Hb H. induction H as [|t l Ht _ IH]; [reflexivity|].
  destruct Hb as [Hbt Hbl]. cbn [rmapM rbind]. rewrite (Ht Hbt). cbn [rbind]. rewrite (IH Hbl). reflexivity.
Qed.

Lemma fold_map_id : forall t, tok_bounds_ok t -> fold_map (fun sp => sp) t = Ok t.
Proof.
  induction t as [sp l|sp bs IH|sp ts IH|sp b lo hi IH] using tok_ind'; intros Hb.
  - reflexivity.
  - cbn [fold_map]. cbn [tok_bounds_ok] in Hb. rewrite (rmapM_id _ bs Hb IH). reflexivity.
  - cbn [fold_map]. cbn [tok_bounds_ok] in Hb. rewrite (rmapM_id _ ts Hb IH). reflexivity.
  - cbn [fold_map]. destruct Hb as [Hb Hbo]. rewrite (IH Hb). cbn [rbind].
    rewrite (rep_roundtrip_id lo hi Hbo). reflexivity.
Qed.
