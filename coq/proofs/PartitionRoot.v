(* PartitionRoot.v -- C08: the postfix of a partition is never rooted, for globs that build and have no repetition.  The prefix loop
   stops either at a variant boundary (a tree wildcard, which gives up its root) or right after the last boundary before the first
   variant token; in the second case what follows a separator cannot begin with a boundary (the rule checker over expansions, C06),
   and a token that reports a root has an expansion that begins with one. *)
From Coq Require Import Arith Lia.
From WaxModel Require Import Base Token Regex Spec Encode Variance Fold Rule Parse Query Glob.
From WaxProofs Require Import AlgebraFacts SpecFacts EncodeLang OwnedFacts ComposeFacts RuleFacts FuelFacts BuiltFacts BuiltNonempty DepthTreeFacts DepthAltFacts
  ExhaustFacts RuleAdjFacts ParseShape RootFacts PartitionLang PartitionIdem.
Local Open Scope nat_scope.

(* ---- a token that is not "never rooted" has an expansion that begins with a boundary ------------------------------------------------------------- *)
Lemma exists_expansion : forall t, nonempty_branches t = true -> rep_free t = true -> exists x, Expands t x.
Proof.
  induction t as [sp l|sp bs IH|sp ts IH|sp b lo hi IH] using tok_ind'; intros Hn Hr; try discriminate.
  - exists [l]. constructor.
  - cbn [nonempty_branches rep_free] in *. apply andb_prop in Hn. destruct Hn as [Hnil Hn]. destruct bs as [|b0 bs']; [discriminate|].
    inversion IH as [|? ? I0 _]; subst. cbn [forallb] in Hn, Hr. apply andb_prop in Hn, Hr. destruct (I0 (proj1 Hn) (proj1 Hr)) as [x Hx].
    exists x. econstructor; [left; reflexivity|exact Hx].
  - cbn [nonempty_branches rep_free] in *. apply andb_prop in Hn. destruct Hn as [_ Hn].
    assert (Hall : exists xs, Forall2 Expands ts xs).
    { induction IH as [|t0 ts' H0 _ IHt]; [exists []; constructor|]. cbn [forallb] in Hn, Hr. apply andb_prop in Hn, Hr.
      destruct (H0 (proj1 Hn) (proj1 Hr)) as [x0 Hx0]. destruct (IHt (proj2 Hn) (proj2 Hr)) as [xs Hxs]. exists (x0 :: xs). constructor; assumption. }
    destruct Hall as [xs Hxs]. exists (concat xs). constructor. exact Hxs.
Qed.

Lemma rooted_expansion : forall t, nonempty_branches t = true -> rep_free t = true -> has_root_fold t <> Some Never ->
  exists x, Expands t x /\ fb x = true.
Proof.
  induction t as [sp l|sp bs IH|sp ts IH|sp b lo hi IH] using tok_ind'; intros Hn Hr Hh; try discriminate.
  - exists [l]. split; [constructor|]. cbn [has_root_fold] in Hh. cbn [fb]. destruct l; try (exfalso; apply Hh; reflexivity); try reflexivity.
  - cbn [nonempty_branches rep_free has_root_fold] in *. apply andb_prop in Hn. destruct Hn as [Hnil Hn].
    assert (Hex : exists b, In b bs /\ has_root_fold b <> Some Never).
    { destruct (existsb (fun b => match has_root_fold b with Some Never => false | _ => true end) bs) eqn:E.
      - apply existsb_exists in E. destruct E as [b [Hin Hb]]. exists b. split; [exact Hin|]. intros Hc. rewrite Hc in Hb. discriminate.
      - exfalso. apply Hh. apply certainty_never.
        + destruct bs as [|b0 bs']; [discriminate|]. cbn [flat_map]. cbn [existsb] in E. apply orb_false_iff in E. destruct E as [E0 _].
          destruct (has_root_fold b0) as [[]|]; discriminate.
        + apply Forall_forall. intros w Hw. apply in_flat_map in Hw. destruct Hw as [b [Hin Hw]].
          assert (Hb : (match has_root_fold b with Some Never => false | _ => true end) = false).
          { destruct (match has_root_fold b with Some Never => false | _ => true end) eqn:Eb; [|reflexivity].
            assert (existsb (fun b => match has_root_fold b with Some Never => false | _ => true end) bs = true) by (apply existsb_exists; exists b; auto). congruence. }
          destruct (has_root_fold b) as [[]|]; try discriminate; cbn [opt_list] in Hw; destruct Hw as [<-|[]]. reflexivity. }
    destruct Hex as [b [Hin Hb]]. rewrite forallb_forall in Hn, Hr. rewrite Forall_forall in IH.
    destruct (IH b Hin (Hn b Hin) (Hr b Hin) Hb) as [x [Hx Hf]]. exists x. split; [econstructor; eassumption|exact Hf].
  - cbn [nonempty_branches rep_free has_root_fold] in *. apply andb_prop in Hn. destruct Hn as [Hnil Hn]. destruct ts as [|t0 ts']; [discriminate|].
    inversion IH as [|? ? I0 _]; subst. cbn [forallb] in Hn, Hr. apply andb_prop in Hn, Hr.
    assert (H0 : has_root_fold t0 <> Some Never).
    { intros Hc. apply Hh. rewrite Hc. reflexivity. }
    destruct (I0 (proj1 Hn) (proj1 Hr) H0) as [x0 [Hx0 Hf0]].
    assert (Hrest : exists xs, Forall2 Expands ts' xs).
    { clear - Hn Hr. destruct Hn as [_ Hn]. destruct Hr as [_ Hr]. induction ts' as [|t1 ts'' IHt]; [exists []; constructor|].
      cbn [forallb] in Hn, Hr. apply andb_prop in Hn, Hr. destruct (exists_expansion t1 (proj1 Hn) (proj1 Hr)) as [x1 Hx1].
      destruct (IHt (proj2 Hn) (proj2 Hr)) as [xs Hxs]. exists (x1 :: xs). constructor; assumption. }
    destruct Hrest as [xs Hxs]. exists (concat (x0 :: xs)). split; [constructor; constructor; assumption|].
    cbn [concat]. rewrite fb_app; [exact Hf0|]. intros ->. discriminate.
Qed.

(* ---- where the prefix loop stops -------------------------------------------------------------------------------------------------------------------- *)
Section Loop.
Variable has_casing : char -> bool.
Notation text_variance := (text_variance has_casing).
Notation prefix_loop := (prefix_loop has_casing).

Definition vart (t : tok) : Prop := exists b, text_variance t = Ok (Var b).

Definition stop_info (all : list tok) (r : option (N * str)) : Prop :=
  match r with
  | None => True
  | Some (i, _) =>
      (S (N.to_nat i) <= length all) /\
      (S (N.to_nat i) = length all \/
       (exists v rest, skipn (S (N.to_nat i)) all = v :: rest /\ vart v /\ is_boundary v = true) \/
       (exists pb, nth_error all (N.to_nat i) = Some pb /\ is_boundary pb = true))
  end.

Definition chk_b (done : list tok) (chk : option (N * str)) : Prop :=
  match chk with None => True | Some (i, _) => exists pb, nth_error done (N.to_nat i) = Some pb /\ is_boundary pb = true end.

Lemma nth_error_app_l : forall {A} (a b : list A) i x, nth_error a i = Some x -> nth_error (a ++ b) i = Some x.
Proof. intros A a b i x H. rewrite nth_error_app1; [exact H|]. apply nth_error_Some. congruence. Qed.

Lemma loop_stop : forall ts done n head chk r,
  n = N.of_nat (length done) ->
  (match head with None => True | Some (i, _) => S (N.to_nat i) = length done end) ->
  chk_b done chk -> prefix_loop n ts head chk = Ok r -> stop_info (done ++ ts) r.
Proof.
  induction ts as [|t ts IH]; intros done n head chk r Hn Hh Hc H.
  - cbn [Query.prefix_loop] in H. inversion H; subst r. rewrite app_nil_r. destruct head as [[i s]|]; [|exact I]. split; [lia|left; exact Hh].
  - cbn [Query.prefix_loop] in H. destruct (text_variance t) as [v|] eqn:Ev; [|discriminate]. cbn [rbind] in H. destruct v as [txt|b].
    + replace (done ++ t :: ts) with ((done ++ [t]) ++ ts) by (rewrite <- app_assoc; reflexivity).
      eapply (IH (done ++ [t]) (n + 1)%N); [rewrite app_length; cbn [length]; lia| | |exact H].
      * subst n. rewrite Nat2N.id, app_length. cbn [length]. lia.
      * destruct (is_boundary t) eqn:Eb.
        -- exists t. split; [|exact Eb]. subst n. rewrite Nat2N.id. rewrite nth_error_app2 by lia. rewrite Nat.sub_diag. reflexivity.
        -- destruct chk as [[i s]|]; [|exact I]. destruct Hc as [pb [Hp Hb]]. exists pb. split; [apply nth_error_app_l; exact Hp|exact Hb].
    + inversion H; subst r. destruct (is_boundary t) eqn:Eb.
      * destruct head as [[i s]|]; [|exact I]. split; [rewrite app_length; cbn [length]; lia|]. right. left. rewrite Hh, skipn_len_app.
        exists t, ts. split; [reflexivity|]. split; [exists b; exact Ev|exact Eb].
      * destruct chk as [[i s]|]; [|exact I]. destruct Hc as [pb [Hp Hb]].
        assert (Hlt : N.to_nat i < length done) by (apply nth_error_Some; congruence).
        split; [rewrite app_length; lia|]. right. right. exists pb. split; [apply nth_error_app_l; exact Hp|exact Hb].
Qed.

End Loop.

Lemma chain_ok_cons' : forall a x pb, chain_ok pb (a :: x) = true -> chain_ok (is_bnd a) x = true.
Proof. intros a x pb H. cbn [chain_ok] in H. apply andb_prop in H. exact (proj2 H). Qed.
Lemma chain_ok_app_r' : forall x y pb, chain_ok pb (x ++ y) = true -> exists pb', chain_ok pb' y = true.
Proof. induction x as [|a x IH]; intros y pb H; [exists pb; exact H|]. cbn [app] in H. apply chain_ok_cons' in H. exact (IH _ _ H). Qed.

(* ---- the theorem ------------------------------------------------------------------------------------------------------------------------------------- *)
Lemma loop_some : forall hc ts n head chk r, prefix_loop hc n ts head chk = Ok r -> head <> None -> chk <> None -> r <> None.
Proof.
  induction ts as [|t ts IH]; intros n head chk r H Hh Hc.
  - cbn in H. inversion H; subst. exact Hh.
  - cbn [Query.prefix_loop] in H. destruct (text_variance hc t) as [v|]; [|discriminate]. cbn [rbind] in H. destruct v as [txt|b].
    + eapply IH; [exact H|discriminate|]. destruct (is_boundary t); [discriminate|exact Hc].
    + inversion H; subst. destruct (is_boundary t); assumption.
Qed.

Lemma nth_skipn_split : forall {A} (l : list A) i a b rest, nth_error l i = Some a -> skipn (S i) l = b :: rest ->
  exists pre, l = pre ++ a :: b :: rest.
Proof.
  induction l as [|x l IH]; intros i a b rest Hn Hs; [destruct i; discriminate|]. destruct i as [|i].
  - cbn in Hn. inversion Hn; subst. cbn [skipn] in Hs. subst l. exists []. reflexivity.
  - cbn [nth_error skipn] in *. destruct (IH i a b rest Hn Hs) as [pre ->]. exists (x :: pre). reflexivity.
Qed.

Lemma forall2_expansions : forall ts, forallb nonempty_branches ts = true -> forallb rep_free ts = true -> exists xs, Forall2 Expands ts xs.
Proof.
  induction ts as [|t ts IH]; intros Hn Hr; [exists []; constructor|]. cbn [forallb] in Hn, Hr. apply andb_prop in Hn, Hr.
  destruct (exists_expansion t (proj1 Hn) (proj1 Hr)) as [x Hx]. destruct (IH (proj2 Hn) (proj2 Hr)) as [xs Hxs]. exists (x :: xs). constructor; assumption.
Qed.

Lemma boundary_token_leaf : forall t, is_boundary t = true -> exists sp l, t = TLeaf sp l /\ is_bnd l = true.
Proof. intros [sp l| | |] H; try discriminate. exists sp, l. split; [reflexivity|]. destruct l; try discriminate; reflexivity. Qed.

Theorem built_postfix_never_rooted : forall hc e sp ts r text post e',
  build e = BuildOk (TCat sp ts) r -> rep_free (TCat sp ts) = true ->
  partition hc e (TCat sp ts) = Ok (PartSome text post e') -> has_root post = Never.
Proof.
  intros hc e sp ts r text post e' Hb Hrf Hp.
  pose proof (built_bounds_ok e _ r Hb) as Hbounds. cbn [tok_bounds_ok] in Hbounds.
  pose proof (built_nonempty_branches e _ r Hb) as Hne.
  assert (Hck : check (TCat sp ts) = Ok None /\ shp (TCat sp ts) = true).
  { unfold build in Hb. destruct (parse e) as [t0| |] eqn:Ep; try discriminate. destruct (check t0) as [[[k s0]|]|s] eqn:Ec; try discriminate.
    destruct (compile_ok (encode t0)); [|discriminate]. inversion Hb; subst. split; [exact Ec|apply sh_shp; [eapply parse_sh; exact Ep|exact Hrf]]. }
  destruct Hck as [Hck Hshp].
  destruct (partition_shape hc _ _ _ _ _ _ Hbounds Hp) as [n [first [rest [g [Hi [Hs [Hlen ->]]]]]]].
  rewrite has_root_respan. unfold has_root. cbn [has_root_fold].
  assert (Goal : has_root_fold (fst (unroot first)) = Some Never).
  2:{ rewrite Goal. reflexivity. }
  assert (Hin : In first ts) by (rewrite <- (firstn_skipn (N.to_nat n) ts), Hs; apply in_or_app; right; left; reflexivity).
  cbn [shp nonempty_branches rep_free] in Hshp, Hne, Hrf. apply andb_prop in Hne. destruct Hne as [_ Hne].
  assert (Hfs : negb (is_cat first) = true /\ shp first = true /\ nonempty_branches first = true /\ rep_free first = true).
  { rewrite forallb_forall in Hshp, Hne, Hrf. pose proof (Hshp first Hin) as H1. apply andb_prop in H1. destruct H1 as [H1 H2]. repeat split; auto. }
  destruct Hfs as [Hnc [Hsf [Hnf Hrff]]].
  (* a tree wildcard gives up its root; an alternation at the very beginning is never rooted *)
  assert (Tree : is_tree first = true -> has_root_fold (fst (unroot first)) = Some Never).
  { intros Ht. destruct first as [[a b] l| | |]; try discriminate. destruct l; try discriminate. destruct root; reflexivity. }
  assert (Leaf : forall s0 l0, first = TLeaf s0 l0 -> is_boundary first = false -> has_root_fold (fst (unroot first)) = Some Never).
  { intros s0 l0 -> Hnb. destruct s0. destruct l0; try discriminate; reflexivity. }
  unfold invariant_text_prefix in Hi. cbn [concatenation] in Hi.
  destruct ts as [|t0 ts0]; [cbn in Hlen; lia|].
  match type of Hi with rbind ?X _ = _ => destruct X as [rv|] eqn:Erv end; [|discriminate]. cbn [rbind] in Hi.
  assert (Hok := check_item_ok _ Hck).
  assert (AltStart : forall s0 bs0, t0 = TAlt s0 bs0 -> has_root_fold t0 = Some Never).
  { intros s0 bs0 ->. destruct (branch_item_decomp outer_default (TCat sp (TAlt s0 bs0 :: ts0))) as [_ Herr]. pose proof (proj1 Herr (Hok _ (reach_refl _))) as Hsteps.
    cbn [concatenation] in Hsteps. unfold adjacent in Hsteps. cbn [adjacent_aux] in Hsteps. inversion Hsteps as [|? ? He _]; subst. cbn [step_err] in He.
    apply first_some_l_none in He. rewrite Forall_forall in He.
    set (o' := outer_or outer_default None (match ts0 with r0 :: _ => Some r0 | [] => None end)) in *.
    assert (Hbb : forall b, In b bs0 -> item_ok o' b /\ alt_ok_b o' b).
    { intros b Hinb. split.
      - apply (item_ok_child outer_default (TCat sp (TAlt s0 bs0 :: ts0)) (o', b) Hok). unfold item_children. cbn [fst snd concatenation]. unfold adjacent. cbn [adjacent_aux flat_map step_children].
        apply in_or_app. left. apply in_map_iff. exists b. auto.
      - specialize (He b Hinb). unfold alt_ok_b. fold o' in He. destruct (terminals_of (concatenation b)) as [tm|]; [|exact I]. exact (proj2 (opt_first_none2 _ _ He)). }
    cbn [forallb] in Hshp, Hne. apply andb_prop in Hshp, Hne. destruct Hshp as [Hs0 _]. apply andb_prop in Hs0.
    exact (starting_alternations_unrooted _ (proj2 Hs0) (proj1 Hne) o' eq_refl Hbb). }
  destruct rv.
  - (* the glob begins with a rooted variant token: a tree wildcard *)
    inversion Hi; subst n text. cbn [N.to_nat skipn] in Hs. inversion Hs; subst first rest.
    destruct (has_root t0) eqn:Ehr; try discriminate. unfold has_root in Ehr.
    destruct t0 as [s0 l0|s0 bs0|s0 cs0|s0 b0 lo0 hi0]; try discriminate.
    + destruct (text_variance hc (TLeaf s0 l0)) as [v|] eqn:Ev; [|discriminate]. cbn [rbind] in Erv. inversion Erv as [Hv].
      destruct l0; cbn [has_root_fold leaf_is_rooting when_of_bool] in Ehr; try discriminate.
      * unfold text_variance in Ev. cbn in Ev. inversion Ev; subst. discriminate.
      * apply Tree. reflexivity.
    + rewrite (AltStart s0 bs0 eq_refl) in Ehr. discriminate.
  - destruct (prefix_loop hc 0 (t0 :: ts0) None None) as [lr|] eqn:El; [|discriminate]. cbn [rbind] in Hi.
    pose proof (loop_stop hc (t0 :: ts0) [] 0%N None None lr eq_refl I I El) as Hst. cbn [app] in Hst.
    destruct lr as [[i s]|].
    + (* a prefix was popped *)
      inversion Hi; subst n text. replace (N.to_nat (i + 1)) with (S (N.to_nat i)) in * by lia. destruct Hst as [Hle [Heq|[Hv|Hpb]]]; [lia| |].
      * destruct Hv as [v [rest' [Hsk [Hvar Hbv]]]]. rewrite Hs in Hsk. inversion Hsk; subst v rest'. destruct (boundary_token_leaf first Hbv) as [s1 [l1 [-> Hl1]]].
        destruct l1; try discriminate.
        -- (* a separator has invariant text: it cannot be the variant token *) exfalso. destruct Hvar as [b Hb0]. unfold text_variance in Hb0. cbn in Hb0. discriminate.
        -- apply Tree. reflexivity.
      * destruct Hpb as [pb [Hnth Hbpb]]. destruct (nth_skipn_split _ _ _ _ _ Hnth Hs) as [pre Ets].
        pose proof (built_no_adjacent_boundary_everywhere _ Hck sp (t0 :: ts0) (sub_refl _)) as Hadj. rewrite Ets in Hadj.
        apply adjacent_boundary_app_tail in Hadj. cbn [adjacent_boundary] in Hadj. rewrite Hbpb in Hadj. cbn [andb] in Hadj.
        destruct (is_boundary first) eqn:Ebf; [discriminate|].
        destruct first as [s1 l1|s1 bs1|s1 cs1|s1 b1 lo1 hi1]; try discriminate.
        -- apply (Leaf s1 l1 eq_refl eq_refl).
        -- (* an alternation after a boundary: a rooted branch would put two boundaries side by side in some expansion *)
           cbn [unroot fst]. destruct (has_root_fold (TAlt s1 bs1)) as [[]|] eqn:Eh; try reflexivity.
           ++ exfalso. destruct (rooted_expansion (TAlt s1 bs1) Hnf Hrff ltac:(rewrite Eh; discriminate)) as [xf [Hxf Hff]].
              destruct (boundary_token_leaf pb Hbpb) as [sb [lb0 [-> Hlb]]].
              rewrite Ets in Hne, Hrf. rewrite !forallb_app in Hne, Hrf. apply andb_prop in Hne, Hrf. destruct Hne as [Hne1 Hne2]. destruct Hrf as [Hrf1 Hrf2].
              cbn [forallb] in Hne2, Hrf2. apply andb_prop in Hne2, Hrf2. destruct Hne2 as [_ Hne2]. destruct Hrf2 as [_ Hrf2]. apply andb_prop in Hne2, Hrf2.
              destruct (forall2_expansions pre Hne1 Hrf1) as [xpre Hxpre]. destruct (forall2_expansions rest (proj2 Hne2) (proj2 Hrf2)) as [xrest Hxrest].
              assert (Hx : Expands (TCat sp (t0 :: ts0)) (concat (xpre ++ [lb0] :: xf :: xrest))).
              { constructor. rewrite Ets. apply Forall2_app; [exact Hxpre|]. constructor; [constructor|]. constructor; [exact Hxf|exact Hxrest]. }
              pose proof (built_no_adjacent_boundaries e _ r Hb ltac:(cbn [rep_free]; rewrite Ets, !forallb_app; cbn [forallb]; rewrite Hrf1, Hrff, (proj2 Hrf2); reflexivity) _ Hx) as Hc.
              rewrite concat_app in Hc. cbn [concat] in Hc. destruct (chain_ok_app_r' (concat xpre) ([lb0] ++ xf ++ concat xrest) false Hc) as [pb' Hc'].
              cbn [app] in Hc'. apply chain_ok_cons' in Hc'. rewrite Hlb in Hc'. destruct xf as [|a xf']; [discriminate|]. cbn [app chain_ok fb] in Hc', Hff. rewrite Hff in Hc'. discriminate.
           ++ exfalso. destruct (rooted_expansion (TAlt s1 bs1) Hnf Hrff ltac:(rewrite Eh; discriminate)) as [xf [Hxf Hff]].
              destruct (boundary_token_leaf pb Hbpb) as [sb [lb0 [-> Hlb]]].
              rewrite Ets in Hne, Hrf. rewrite !forallb_app in Hne, Hrf. apply andb_prop in Hne, Hrf. destruct Hne as [Hne1 Hne2]. destruct Hrf as [Hrf1 Hrf2].
              cbn [forallb] in Hne2, Hrf2. apply andb_prop in Hne2, Hrf2. destruct Hne2 as [_ Hne2]. destruct Hrf2 as [_ Hrf2]. apply andb_prop in Hne2, Hrf2.
              destruct (forall2_expansions pre Hne1 Hrf1) as [xpre Hxpre]. destruct (forall2_expansions rest (proj2 Hne2) (proj2 Hrf2)) as [xrest Hxrest].
              assert (Hx : Expands (TCat sp (t0 :: ts0)) (concat (xpre ++ [lb0] :: xf :: xrest))).
              { constructor. rewrite Ets. apply Forall2_app; [exact Hxpre|]. constructor; [constructor|]. constructor; [exact Hxf|exact Hxrest]. }
              pose proof (built_no_adjacent_boundaries e _ r Hb ltac:(cbn [rep_free]; rewrite Ets, !forallb_app; cbn [forallb]; rewrite Hrf1, Hrff, (proj2 Hrf2); reflexivity) _ Hx) as Hc.
              rewrite concat_app in Hc. cbn [concat] in Hc. destruct (chain_ok_app_r' (concat xpre) ([lb0] ++ xf ++ concat xrest) false Hc) as [pb' Hc'].
              cbn [app] in Hc'. apply chain_ok_cons' in Hc'. rewrite Hlb in Hc'. destruct xf as [|a xf']; [discriminate|]. cbn [app chain_ok fb] in Hc', Hff. rewrite Hff in Hc'. discriminate.
           ++ (* an alternation has a term *) exfalso. destruct (has_root_fold_some _ Hnf) as [w Hw]. congruence.
    + (* nothing was popped and the glob does not begin with a rooted variant token *)
      inversion Hi; subst n text. cbn [N.to_nat skipn] in Hs. inversion Hs; subst first rest.
      destruct t0 as [s0 l0|s0 bs0|s0 cs0|s0 b0 lo0 hi0]; try discriminate.
      * destruct l0; try (destruct s0; reflexivity).
        -- (* a separator is an invariant boundary: the loop would have returned it *)
           exfalso. cbn [Query.prefix_loop] in El. unfold text_variance in El. cbn [text_fold text_leaf rbind is_boundary tboundary leaf_boundary] in El.
           apply loop_some in El; [congruence|discriminate|discriminate].
        -- destruct root; [|destruct s0; reflexivity]. exfalso. unfold has_root in Erv. cbn [has_root_fold leaf_is_rooting when_of_bool] in Erv.
           unfold text_variance in Erv. cbn in Erv. discriminate.
      * cbn [unroot fst]. exact (AltStart s0 bs0 eq_refl).
Qed.

(* C08: for globs that build and have no repetition, partitioning the postfix again yields an empty prefix and the postfix itself - unconditionally *)
Theorem built_partition_idempotent : forall hc e sp ts r text post e',
  build e = BuildOk (TCat sp ts) r -> rep_free (TCat sp ts) = true ->
  partition hc e (TCat sp ts) = Ok (PartSome text post e') -> partition hc e' post = Ok (PartSome [] post e').
Proof.
  intros hc e sp ts r text post e' Hb Hrf Hp. pose proof (built_postfix_never_rooted hc e sp ts r text post e' Hb Hrf Hp) as Hroot.
  pose proof (built_bounds_ok e _ r Hb) as Hbounds. cbn [tok_bounds_ok] in Hbounds.
  apply (partition_idempotent hc e sp ts text post e' Hbounds Hp).
  destruct post as [| |sp' [|t0 ts']|]; try exact I. unfold has_root in *. cbn [has_root_fold] in Hroot.
  destruct (has_root_fold t0) as [w|]; [|discriminate]. cbn [opt_list reduce_pure fold_left] in Hroot. rewrite Hroot. discriminate.
Qed.
