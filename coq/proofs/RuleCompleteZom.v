(* RuleCompleteZom.v -- C06, no false rejection for the rule on zero-or-more wildcards: for expressions without repetitions, an
   AdjacentZeroOrMore verdict of the branch check always has a witness expansion with two adjacent zero-or-more wildcards (the embedding of
   reached items is that of RuleCompleteFacts). *)
From Coq Require Import Arith Lia.
From WaxModel Require Import Base Token Regex Spec Encode Variance Fold Rule Parse Query Glob.
From WaxProofs Require Import SpecFacts EncodeLang RuleFacts FuelFacts ComposeFacts DepthFacts DepthTreeFacts DepthAltFacts RuleAdjFacts RuleZomFacts BuiltNonempty RuleCompleteFacts.
Local Open Scope nat_scope.

Lemma zchain_app_split : forall x y pz, zchain pz (x ++ y) = true -> x <> [] -> zchain pz x = true /\ zchain (lz x) y = true.
Proof.
  induction x as [|a x IH]; intros y pz H Hx; [congruence|]. cbn [app zchain] in H. apply andb_prop in H. destruct H as [Ha H].
  destruct x as [|b x'].
  - cbn [app] in H. cbn [zchain]. rewrite Ha. split; [reflexivity|exact H].
  - destruct (IH y _ H ltac:(discriminate)) as [H1 H2]. split; [cbn [zchain]; rewrite Ha; exact H1|exact H2].
Qed.

Lemma starts_z_witness : forall t, nonempty_branches t = true -> rep_free t = true -> starts_with is_zom t = true ->
  exists x, Expands t x /\ fz x = true.
Proof.
  induction t as [sp l|sp bs IH|sp ts IH|sp b lo hi IH] using tok_ind'; intros Hn Hr Hs; try discriminate.
  - exists [l]. split; [constructor|]. cbn [starts_with] in Hs. rewrite orb_false_r, is_zom_leaf in Hs. exact Hs.
  - cbn [starts_with nonempty_branches rep_free] in *. cbn [is_zom tboundary orb] in Hs. apply andb_prop in Hn. destruct Hn as [_ Hn].
    apply existsb_exists in Hs. destruct Hs as [b [Hin Hb]]. rewrite forallb_forall in Hn, Hr. rewrite Forall_forall in IH.
    destruct (IH b Hin (Hn b Hin) (Hr b Hin) Hb) as [x [Hx Hf]]. exists x. split; [econstructor; eassumption|exact Hf].
  - cbn [starts_with nonempty_branches rep_free] in *. cbn [is_zom tboundary orb] in Hs. apply andb_prop in Hn. destruct Hn as [_ Hn].
    destruct ts as [|t0 ts']; [discriminate|]. inversion IH as [|? ? I0 _]; subst. cbn [forallb] in Hn, Hr. apply andb_prop in Hn, Hr.
    destruct (I0 (proj1 Hn) (proj1 Hr) Hs) as [x0 [Hx0 Hf0]]. destruct (forall2_expansions ts' (proj2 Hn) (proj2 Hr)) as [xs Hxs].
    exists (concat (x0 :: xs)). split; [constructor; constructor; assumption|]. cbn [concat]. rewrite fz_app; [exact Hf0|]. intros ->. discriminate.
Qed.

Lemma ends_z_witness : forall t, nonempty_branches t = true -> rep_free t = true -> ends_with is_zom t = true ->
  exists x, Expands t x /\ lz x = true.
Proof.
  induction t as [sp l|sp bs IH|sp ts IH|sp b lo hi IH] using tok_ind'; intros Hn Hr Hs; try discriminate.
  - exists [l]. split; [constructor|]. cbn [ends_with] in Hs. rewrite orb_false_r, is_zom_leaf in Hs. exact Hs.
  - cbn [ends_with nonempty_branches rep_free] in *. cbn [is_zom tboundary orb] in Hs. apply andb_prop in Hn. destruct Hn as [_ Hn].
    apply existsb_exists in Hs. destruct Hs as [b [Hin Hb]]. rewrite forallb_forall in Hn, Hr. rewrite Forall_forall in IH.
    destruct (IH b Hin (Hn b Hin) (Hr b Hin) Hb) as [x [Hx Hf]]. exists x. split; [econstructor; eassumption|exact Hf].
  - cbn [nonempty_branches rep_free] in *. apply andb_prop in Hn. destruct Hn as [Hnil Hn].
    destruct (last_opt_nonempty ts) as [tl Htl]; [destruct ts; discriminate|]. rewrite (ends_with_cat _ sp ts tl Htl) in Hs. cbn [is_zom tboundary orb] in Hs.
    assert (Hsplit : exists pre, ts = pre ++ [tl]) by (apply last_opt_some; exact Htl). destruct Hsplit as [pre Ets]. subst ts.
    rewrite !forallb_app in Hn, Hr. apply andb_prop in Hn, Hr. destruct Hn as [Hn1 Hn2]. destruct Hr as [Hr1 Hr2]. cbn [forallb] in Hn2, Hr2. rewrite andb_true_r in Hn2, Hr2.
    rewrite Forall_forall in IH. destruct (IH tl ltac:(apply in_or_app; right; left; reflexivity) Hn2 Hr2 Hs) as [xl [Hxl Hfl]].
    destruct (forall2_expansions pre Hn1 Hr1) as [xs Hxs]. exists (concat (xs ++ [xl])). split.
    + constructor. apply Forall2_app; [exact Hxs|constructor; [exact Hxl|constructor]].
    + rewrite lz_concat_snoc; [exact Hfl|]. intros ->. discriminate.
Qed.

Lemma zchain_cons1 : forall a x pb, zchain pb (a :: x) = true -> zchain (is_zl a) x = true.
Proof. intros a x pb H. cbn [zchain] in H. apply andb_prop in H. exact (proj2 H). Qed.
Lemma zchain_suffix : forall x y pb, zchain pb (x ++ y) = true -> exists pb', zchain pb' y = true.
Proof. induction x as [|a x IH]; intros y pb H; [exists pb; exact H|]. cbn [app] in H. apply zchain_cons1 in H. exact (IH _ _ H). Qed.

Lemma adjacent_zoms_break : forall pre xl y pb, lz xl = true -> fz y = true -> zchain pb (pre ++ xl ++ y) = true -> False.
Proof.
  intros pre xl y pb Hl Hf H. destruct (zchain_suffix pre (xl ++ y) pb H) as [pb' H'].
  assert (Nxl : xl <> []) by (intros ->; discriminate). destruct (zchain_app_split xl y pb' H' Nxl) as [_ H2]. rewrite Hl in H2.
  destruct y as [|a y']; [discriminate|]. cbn [zchain fz] in H2, Hf. rewrite Hf in H2. discriminate.
Qed.

Lemma first_member_fz : forall tk m rest x sp l, concatenation tk = m :: rest -> m = TLeaf sp l -> Expands tk x -> fz x = is_zl l.
Proof.
  intros tk m rest x sp l Hc -> Hx. apply expands_concatenation in Hx. destruct Hx as [xs [HF ->]]. rewrite Hc in HF.
  inversion HF as [|? x0 ? xs' H0 _]; subst. inversion H0; subst. reflexivity.
Qed.

Lemma last_member_lz : forall tk m x sp l, last_opt (concatenation tk) = Some m -> m = TLeaf sp l -> Expands tk x -> lz x = is_zl l.
Proof.
  intros tk m x sp l Hc -> Hx. apply expands_concatenation in Hx. destruct Hx as [xs [HF ->]].
  destruct (forall2_last _ _ _ _ HF Hc) as [pre [b [-> Hb]]]. inversion Hb; subst. rewrite lz_concat_snoc by discriminate. reflexivity.
Qed.


(* what an AdjacentZeroOrMore verdict of check_branch says *)
Lemma check_branch_zom : forall tk tm o, terminals_of (concatenation tk) = Some tm -> check_branch tm o = Some AdjacentZeroOrMore ->
  (exists m rest, concatenation tk = m :: rest /\ is_zom m = true /\ has_ending_zom (o_left o) = true) \/
  (exists m, last_opt (concatenation tk) = Some m /\ is_zom m = true /\ has_starting_zom (o_right o) = true).
Proof.
  intros tk tm o Ht Hc. destruct (concatenation tk) as [|m1 rest] eqn:Ec; [discriminate|]. cbn [terminals_of] in Ht. destruct rest as [|m2 rest'].
  - inversion Ht; subst tm. unfold check_branch in Hc.
    destruct (is_sep m1 && has_ending_boundary (o_left o)); [discriminate|]. destruct (is_sep m1 && has_starting_boundary (o_right o)); [discriminate|].
    destruct (is_tree m1); [discriminate|].
    destruct (is_zom m1 && has_ending_zom (o_left o)) eqn:E1.
    { left. apply andb_prop in E1. exists m1, []. split; [reflexivity|exact E1]. }
    destruct (is_zom m1 && has_starting_zom (o_right o)) eqn:E2; [|discriminate].
    right. apply andb_prop in E2. exists m1. split; [reflexivity|exact E2].
  - destruct (last_opt (m2 :: rest')) as [e|] eqn:El; [|discriminate]. inversion Ht; subst tm. unfold check_branch in Hc.
    assert (Hlast : last_opt (m1 :: m2 :: rest') = Some e) by exact El.
    destruct (is_sep m1 && has_ending_boundary (o_left o)); [discriminate|]. destruct (is_sep e && has_starting_boundary (o_right o)); [discriminate|].
    destruct (is_tree m1 && has_ending_boundary (o_left o)); [discriminate|]. destruct (is_tree e && has_starting_boundary (o_right o)); [discriminate|].
    destruct (is_zom m1 && has_ending_zom (o_left o)) eqn:E1.
    { left. apply andb_prop in E1. exists m1, (m2 :: rest'). split; [reflexivity|exact E1]. }
    destruct (is_zom e && has_starting_zom (o_right o)) eqn:E2; [|discriminate].
    right. apply andb_prop in E2. exists e. split; [exact Hlast|exact E2].
Qed.

Lemma zom_is_leaf : forall m, is_zom m = true -> exists sp l, m = TLeaf sp l /\ is_zl l = true.
Proof. intros [sp l| | |] H; try discriminate. exists sp, l. split; [reflexivity|]. destruct l; try discriminate; reflexivity. Qed.

Theorem branch_zom_witness : forall root sp, good root -> rule_branch root = Some (AdjacentZeroOrMore, sp) ->
  exists x, Expands root x /\ zchain false x = false.
Proof.
  intros root sp Hg H. unfold rule_branch in H. destruct (loop_some_item _ _ _ H) as [it [d [Hin [Hr He]]]]. destruct Hin as [<-|[]].
  pose proof (reach_inv root _ _ Hr (root_inv root Hg)) as HI. destruct d as [o tk]. rewrite branch_item_eq in He.
  destruct (fold_left (bstep o) (adjacent (concatenation tk)) (None, [])) as [err' q'] eqn:Ef. cbn [fst] in He.
  destruct (fold_bstep_err _ _ _ _ _ _ Ef _ He) as [Hn|[[[l m] r] [k [Hx [Hs Hk]]]]]; [discriminate|]. cbn [fst] in Hk. subst k.
  assert (Hchild : forall c, In c (step_children o (l, m, r)) -> Inv root c).
  { intros c Hc. apply (Inv_child root o tk c HI). unfold item_children. cbn [fst snd]. apply in_flat_map. exists (l, m, r). split; assumption. }
  destruct m as [sm lm|sm bs|sm cs|sm bm lo hi]; cbn [step_err] in Hs; try discriminate.
  2:{ destruct HI as [Hgt _]. pose proof (good_members tk Hgt) as Hmem. rewrite Forall_forall in Hmem.
      assert (Hm : In (TRep sm bm lo hi) (concatenation tk)) by (unfold adjacent in Hx; eapply adjacent_member; exact Hx). destruct (Hmem _ Hm) as [_ Hrf]. discriminate. }
  destruct (first_some_l_some _ _ _ Hs) as [b [Hb Hfb]]. set (o' := outer_or o l r) in *.
  destruct (terminals_of (concatenation b)) as [tm|] eqn:Et; [|discriminate].
  assert (Hcb : check_branch tm o' = Some AdjacentZeroOrMore).
  { destruct (check_branch tm o') as [k|] eqn:Ecb; cbn [opt_first] in Hfb; [inversion Hfb; reflexivity|]. unfold check_alternation in Hfb.
    destruct ((is_sep _ || is_rooted_tree _) && negb (isSome (o_left o'))); discriminate. }
  destruct (Hchild (o', b) ltac:(cbn [step_children]; apply in_map_iff; exists b; auto)) as [Hgb [HgL [HgR Hemb]]]. cbn [fst snd] in *.
  destruct (exists_expansion b (proj1 Hgb) (proj2 Hgb)) as [xb Hxb].
  destruct (check_branch_zom b tm o' Et Hcb) as [[m1 [rest [Hc [Hbm Hend]]]]|[m1 [Hc [Hbm Hst]]]].
  - destruct (o_left o') as [L|] eqn:EL; [|discriminate]. cbn [has_ending_zom opt_any] in Hend.
    destruct (ends_z_witness L (proj1 HgL) (proj2 HgL) Hend) as [xl [Hxl Hlb]].
    destruct (ctx_exp_exists _ HgR) as [xr Hxr]. destruct (Hemb xb xl xr Hxb Hxl Hxr) as [pre [post He']].
    destruct (zom_is_leaf m1 Hbm) as [s1 [l1 [-> Hl1]]].
    exists (pre ++ xl ++ xb ++ xr ++ post). split; [exact He'|]. destruct (zchain false (pre ++ xl ++ xb ++ xr ++ post)) eqn:Ech; [|reflexivity].
    exfalso. apply (adjacent_zoms_break pre xl (xb ++ xr ++ post) false Hlb); [|exact Ech].
    rewrite fz_app; [rewrite (first_member_fz b _ rest xb s1 l1 Hc eq_refl Hxb); exact Hl1|]. eapply expands_nonempty; [exact (proj1 Hgb)|exact (proj2 Hgb)|exact Hxb].
  - destruct (o_right o') as [R|] eqn:ER; [|discriminate]. cbn [has_starting_zom opt_any] in Hst.
    destruct (starts_z_witness R (proj1 HgR) (proj2 HgR) Hst) as [xr [Hxr Hfr]].
    destruct (ctx_exp_exists _ HgL) as [xl Hxl]. destruct (Hemb xb xl xr Hxb Hxl Hxr) as [pre [post He']].
    destruct (zom_is_leaf m1 Hbm) as [s1 [l1 [-> Hl1]]].
    exists (pre ++ xl ++ xb ++ xr ++ post). split; [exact He'|]. destruct (zchain false (pre ++ xl ++ xb ++ xr ++ post)) eqn:Ech; [|reflexivity].
    exfalso. replace (pre ++ xl ++ xb ++ xr ++ post) with ((pre ++ xl) ++ xb ++ (xr ++ post)) in Ech by (rewrite <- !app_assoc; reflexivity).
    apply (adjacent_zoms_break (pre ++ xl) xb (xr ++ post) false); [rewrite (last_member_lz b _ xb s1 l1 Hc eq_refl Hxb); exact Hl1| |exact Ech].
    rewrite fz_app; [exact Hfr|]. intros ->. discriminate.
Qed.

(* C06: an AdjacentZeroOrMore verdict on a parsed expression without repetitions always has a witness *)
Theorem parsed_adjacent_zom_is_real : forall e t sp, parse e = ParseOk t -> rep_free t = true ->
  check t = Ok (Some (AdjacentZeroOrMore, sp)) -> exists x, Expands t x /\ zchain false x = false.
Proof.
  intros e t sp Hp Hr H. assert (Hg : good t) by (split; [apply ne_rep_free_nonempty; [eapply parse_ne; exact Hp|exact Hr]|exact Hr]). unfold check in H.
  destruct (rule_boundary t) as [e0|] eqn:Eb. { unfold rule_boundary in Eb. destruct (first_some_l _ (bfs t)); inversion Eb; subst; inversion H. }
  destruct (rule_bounds t) as [e0|] eqn:Ebd. { inversion H; subst. unfold rule_bounds in Ebd. destruct (find bad_bounds (bfs t)); inversion Ebd. }
  destruct (rule_branch t) as [e0|] eqn:Ebr. { inversion H; subst. eapply branch_zom_witness; eassumption. }
  unfold rule_size in H. exfalso. clear - H. induction (bfs t) as [|x l IH]; [discriminate|]. cbn [rule_size_list] in H.
  destruct (size_variance x) as [v|]; [|discriminate]. cbn [rbind] in H. destruct v as [n|b]; [|exact (IH H)]. destruct (MAX_INVARIANT_SIZE <=? n)%N; [discriminate|exact (IH H)].
Qed.
