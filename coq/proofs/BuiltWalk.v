(* BuiltWalk.v -- C02 in terms of the documented language: for a glob that builds outside the known classes of C01, the walk yields
   exactly the entries whose path below the directory given belongs to the documented language of the glob. *)
From Coq Require Import Arith Lia.
From WaxModel Require Import Base Token Regex Spec Encode Variance Fold Rule Parse Query Glob Walk.
From WaxProofs Require Import SpecFacts EncodeLang WalkFacts PruneFacts ParseTreeFacts GlobWalkFacts BuiltConformance.
Local Open Scope nat_scope.

Theorem built_glob_walk_yields_the_language : forall orbit, (forall c d, In d (orbit c) -> d <> SEP) ->
  forall e t r, build e = BuildOk t r -> has_reversed_range t = false -> trees_stable t = true -> rooted_first_tree t = false ->
  forall complete : str -> bool, (forall w, complete w = true <-> sem orbit (encode t) w) ->
  forall progs : list (name -> bool),
    Forall2 (fun (pr : name -> bool) re0 => forall w, pr w = true <-> sem orbit re0 w) progs (component_programs t) ->
  forall prefix, Forall valid_name prefix ->
  forall root, names_valid root ->
  forall q, In q (yields (walk 0 None [glob_layer prefix progs complete] root)) <->
            In q (all_entries [] root) /\ Lang orbit t (join_path (prefix ++ q)) /\ length progs <= length (prefix ++ q).
Proof.
  intros orbit Hon e t r Hb Hrr Hst Hrf complete Hc progs Hp prefix Hpre root Hroot q.
  assert (Hlit : lits_nosep t = true).
  { unfold build in Hb. destruct (parse e) as [t0| |] eqn:Ep; try discriminate. destruct (check t0) as [[[k sp]|]|s]; try discriminate.
    destruct (compile_ok (encode t0)); [|discriminate]. inversion Hb; subst. eapply parse_lits_nosep; exact Ep. }
  rewrite (glob_walk_complete orbit Hon t Hlit complete Hc progs Hp prefix Hpre root Hroot). rewrite filter_In. unfold keeps. rewrite andb_true_iff, Nat.leb_le.
  rewrite Hc, (built_conformance orbit e t r Hb Hrr Hst Hrf). tauto.
Qed.
