(* RuleAdjRep.v -- C06 with repetitions: if the check passes, no expansion of the tree has two adjacent boundaries, for trees whose
   repetitions are written out at least once and whose bodies begin and end with a leaf (the wrap-around adjacency of a body is only
   checked on leaf terminals: known class wraparound_nested_edge; a repetition that may be written out zero times lets its neighbours
   meet).  The induction of RuleAdjFacts with one more case: the copies of a body meet at its leaf terminals, which check_repetition
   compared. *)
From Coq Require Import Arith Lia.
From WaxModel Require Import Base Token Regex Spec Encode Variance Fold Rule.
From WaxProofs Require Import SpecFacts EncodeLang RuleFacts FuelFacts ComposeFacts DepthFacts DepthTreeFacts DepthAltFacts RuleAdjFacts ExhaustFacts.
Local Open Scope nat_scope.

Definition leaf_ends (b : tok) : bool :=
  match concatenation b with
  | m :: rest => is_leaf m && match last_opt (m :: rest) with Some e => is_leaf e | None => false end
  | [] => false
  end.

Fixpoint shr (t : tok) : bool :=
  match t with
  | TLeaf _ _ => true
  | TAlt _ bs => forallb (fun b => is_cat b && shr b) bs
  | TCat _ ts => forallb (fun m => negb (is_cat m) && shr m) ts
  | TRep _ b lo _ => is_cat b && shr b && (1 <=? lo)%N && leaf_ends b
  end.

Lemma concat_nonempty : forall (xs : list (list leaf)), xs <> [] -> Forall (fun x => x <> []) xs -> concat xs <> [].
Proof. intros [|x xs] H HF; [congruence|]. inversion HF; subst. cbn [concat]. destruct x; [congruence|discriminate]. Qed.

Lemma expands_nonempty_r : forall t x, nonempty_branches t = true -> shr t = true -> Expands t x -> x <> [].
Proof.
  induction t as [sp l|sp bs IH|sp ts IH|sp b lo hi IH] using tok_ind'; intros x Hn Hs Hx.
  - inversion Hx; subst. discriminate.
  - inversion Hx as [|sp0 bs0 bb x0 Hin Hxb| |]; subst. cbn [nonempty_branches shr] in *. apply andb_prop in Hn. destruct Hn as [_ Hn].
    rewrite forallb_forall in Hn, Hs. rewrite Forall_forall in IH. specialize (Hs bb Hin). apply andb_prop in Hs. exact (IH bb Hin x (Hn bb Hin) (proj2 Hs) Hxb).
  - inversion Hx as [| |sp0 ts0 xs HF|]; subst. cbn [nonempty_branches shr] in *. apply andb_prop in Hn. destruct Hn as [Hnil Hn].
    destruct HF as [|t0 x0 ts' xs' Hx0 HF']; [discriminate|]. inversion IH as [|? ? I0 _]; subst. cbn [forallb] in Hn, Hs. apply andb_prop in Hn, Hs.
    destruct Hs as [Hs0 _]. apply andb_prop in Hs0. pose proof (I0 x0 (proj1 Hn) (proj2 Hs0) Hx0) as N0. cbn [concat]. destruct x0; [congruence|discriminate].
  - inversion Hx as [| | |sp0 b0 lo0 hi0 xs Hbd HF]; subst. cbn [nonempty_branches shr] in *.
    apply andb_prop in Hn. destruct Hn as [Hnb _]. apply andb_prop in Hs. destruct Hs as [Hs _]. apply andb_prop in Hs. destruct Hs as [Hs Hlo]. apply andb_prop in Hs. destruct Hs as [_ Hsb].
    apply N.leb_le in Hlo. destruct Hbd as [Hl _]. apply concat_nonempty.
    + intros ->. cbn in Hl. lia.
    + eapply Forall_impl; [|exact HF]. intros y Hy. exact (IH y Hnb Hsb Hy).
Qed.

Lemma rep_parts : forall sp b lo hi, shr (TRep sp b lo hi) = true -> is_cat b = true /\ shr b = true /\ (1 <= lo)%N /\ leaf_ends b = true.
Proof.
  intros sp b lo hi Hs. cbn [shr] in Hs. apply andb_prop in Hs. destruct Hs as [Hs Hle]. apply andb_prop in Hs. destruct Hs as [Hs Hlo]. apply andb_prop in Hs. destruct Hs as [Hc Hsb].
  apply N.leb_le in Hlo. auto.
Qed.

Lemma rep_copies : forall sp b lo hi x, (1 <= lo)%N -> Expands (TRep sp b lo hi) x ->
  exists y ys, x = concat (y :: ys) /\ Forall (Expands b) (y :: ys).
Proof.
  intros sp b lo hi x Hlo Hx. inversion Hx as [| | |sp0 b0 lo0 hi0 xs Hbd HF]; subst. destruct Hbd as [Hl _].
  destruct xs as [|y ys]; [cbn in Hl; lia|]. exists y, ys. auto.
Qed.

(* a token that cannot begin with a boundary has no expansion that does *)
Lemma starts_b_sound_r : forall t, nonempty_branches t = true -> shr t = true -> starts_b t = false ->
  forall x, Expands t x -> fb x = false.
Proof.
  unfold starts_b. induction t as [sp l|sp bs IH|sp ts IH|sp b lo hi IH] using tok_ind'; intros Hn Hr Hs x Hx.
  - inversion Hx; subst. cbn [starts_with] in Hs. rewrite orb_false_r, is_boundary_leaf in Hs. exact Hs.
  - inversion Hx as [|sp0 bs0 bb x0 Hin Hxb| |]; subst. cbn [starts_with nonempty_branches shr] in *. cbn [is_boundary tboundary orb] in Hs.
    apply andb_prop in Hn. destruct Hn as [_ Hn]. rewrite forallb_forall in Hn, Hr. rewrite Forall_forall in IH. specialize (Hr bb Hin). apply andb_prop in Hr.
    apply (IH bb Hin (Hn bb Hin) (proj2 Hr)); [|exact Hxb].
    destruct (starts_with is_boundary bb) eqn:E; [|reflexivity]. assert (existsb (starts_with is_boundary) bs = true) by (apply existsb_exists; eauto). congruence.
  - inversion Hx as [| |sp0 ts0 xs HF|]; subst. cbn [starts_with nonempty_branches shr] in *. cbn [is_boundary tboundary orb] in Hs.
    apply andb_prop in Hn. destruct Hn as [_ Hn]. destruct HF as [|t0 x0 ts' xs' Hx0 HF']; [reflexivity|].
    inversion IH as [|? ? I0 _]; subst. cbn [forallb] in Hn, Hr. apply andb_prop in Hn, Hr. destruct Hr as [Hr0 _]. apply andb_prop in Hr0. cbn [concat].
    rewrite fb_app by (eapply expands_nonempty_r; [apply Hn|apply Hr0|exact Hx0]). apply (I0 (proj1 Hn) (proj2 Hr0) Hs _ Hx0).
  - destruct (rep_parts _ _ _ _ Hr) as [_ [Hsb [Hlo _]]]. destruct (rep_copies _ _ _ _ _ Hlo Hx) as [y [ys [-> HF]]]. inversion HF as [|? ? Hy _]; subst.
    cbn [starts_with nonempty_branches] in *. cbn [is_boundary tboundary orb] in Hs. apply andb_prop in Hn. destruct Hn as [Hnb _].
    cbn [concat]. rewrite fb_app by (eapply expands_nonempty_r; [exact Hnb|exact Hsb|exact Hy]). exact (IH Hnb Hsb Hs y Hy).
Qed.

Lemma concat_snoc_last : forall (ys : list (list leaf)) y, exists pre yl, y :: ys = pre ++ [yl].
Proof. intros ys y. destruct (exists_last (l := y :: ys)) as [pre [yl E]]; [discriminate|]. exists pre, yl. exact E. Qed.

Lemma ends_b_sound_r : forall t, nonempty_branches t = true -> shr t = true -> ends_b t = false ->
  forall x, Expands t x -> lb x = false.
Proof.
  unfold ends_b. induction t as [sp l|sp bs IH|sp ts IH|sp b lo hi IH] using tok_ind'; intros Hn Hr Hs x Hx.
  - inversion Hx; subst. cbn [ends_with] in Hs. rewrite orb_false_r, is_boundary_leaf in Hs. exact Hs.
  - inversion Hx as [|sp0 bs0 bb x0 Hin Hxb| |]; subst. cbn [ends_with nonempty_branches shr] in *. cbn [is_boundary tboundary orb] in Hs.
    apply andb_prop in Hn. destruct Hn as [_ Hn]. rewrite forallb_forall in Hn, Hr. rewrite Forall_forall in IH. specialize (Hr bb Hin). apply andb_prop in Hr.
    apply (IH bb Hin (Hn bb Hin) (proj2 Hr)); [|exact Hxb].
    destruct (ends_with is_boundary bb) eqn:E; [|reflexivity]. assert (existsb (ends_with is_boundary) bs = true) by (apply existsb_exists; eauto). congruence.
  - inversion Hx as [| |sp0 ts0 xs HF|]; subst. cbn [nonempty_branches shr] in *.
    apply andb_prop in Hn. destruct Hn as [Hnil Hn]. destruct (last_opt_nonempty ts) as [tl Htl]; [destruct ts; [discriminate|discriminate]|].
    rewrite (ends_with_cat _ sp ts tl Htl) in Hs. cbn [is_boundary tboundary orb] in Hs.
    destruct (forall2_last _ _ _ _ HF Htl) as [pre [b [-> Hb]]].
    assert (Hin : In tl ts). { clear - Htl. induction ts as [|a ts IH]; [discriminate|]. destruct ts as [|c ts']; [cbn in Htl; inversion Htl; left; reflexivity|right; apply IH; exact Htl]. }
    rewrite forallb_forall in Hn, Hr. rewrite Forall_forall in IH. specialize (Hr tl Hin). apply andb_prop in Hr.
    rewrite starts_concat_snoc by (eapply expands_nonempty_r; [apply (Hn tl Hin)|apply (proj2 Hr)|exact Hb]).
    apply (IH tl Hin (Hn tl Hin) (proj2 Hr) Hs _ Hb).
  - destruct (rep_parts _ _ _ _ Hr) as [_ [Hsb [Hlo _]]]. destruct (rep_copies _ _ _ _ _ Hlo Hx) as [y [ys [-> HF]]].
    destruct (concat_snoc_last ys y) as [pre [yl E]]. rewrite E in *. apply Forall_app in HF. destruct HF as [_ HF]. inversion HF as [|? ? Hyl _]; subst.
    cbn [ends_with nonempty_branches] in *. cbn [is_boundary tboundary orb] in Hs. apply andb_prop in Hn. destruct Hn as [Hnb _].
    rewrite starts_concat_snoc by (eapply expands_nonempty_r; [exact Hnb|exact Hsb|exact Hyl]). exact (IH Hnb Hsb Hs yl Hyl).
Qed.

(* ---- the claims ------------------------------------------------------------------------------------------------------------------------------------- *)
Definition rep_ok (o : outer) (b : tok) (lo : N) (hi : option N) : Prop :=
  match terminals_of (concatenation b) with Some tm => check_repetition tm o lo hi = None | None => True end.

Definition Pr (t : tok) : Prop := forall o,
  match t with
  | TCat sp ts => item_ok o t -> forall x, Expands t x -> chain_ok false x = true /\ (term_ok_b o t -> ctx o x)
  | TAlt sp bs => (forall b, In b bs -> item_ok o b /\ term_ok_b o b) -> forall x, Expands t x -> chain_ok false x = true /\ ctx o x
  | TRep sp b lo hi => item_ok o b -> term_ok_b o b -> rep_ok o b lo hi -> forall x, Expands t x -> chain_ok false x = true /\ ctx o x
  | _ => True
  end.

Definition member_r (m : tok) : Prop :=
  negb (is_cat m) = true /\ shr m = true /\ nonempty_branches m = true.

Definition mfact_r (o : outer) (tr : option tok * tok * option tok) : Prop :=
  let '(l, m, r) := tr in forall x, Expands m x -> x <> [] /\ chain_ok false x = true /\
     match m with TAlt _ _ | TRep _ _ _ _ => ctx (outer_or o l r) x | _ => True end.

Lemma opt_first_none_r : forall {A} (a b : option A), opt_first a b = None -> b = None.
Proof. intros A [x|] b H; [discriminate|exact H]. Qed.

Lemma mfact_of_r : forall o l m r, Pr m -> member_r m -> step_err o (l, m, r) = None ->
  (forall c, In c (step_children o (l, m, r)) -> item_ok (fst c) (snd c)) -> mfact_r o (l, m, r).
Proof.
  intros o l m r HP [Hnc [Hs Hn]] He Hc x Hx. pose proof (expands_nonempty_r m x Hn Hs Hx) as Hne. split; [exact Hne|].
  destruct m as [sp lf|sp bs|sp ts|sp b lo hi]; try discriminate.
  - inversion Hx; subst. split; [reflexivity|exact I].
  - cbn [step_err step_children] in He, Hc. apply first_some_l_none in He. rewrite Forall_forall in He.
    assert (Hb : forall b, In b bs -> item_ok (outer_or o l r) b /\ term_ok_b (outer_or o l r) b).
    { intros b Hin. split; [apply (Hc (outer_or o l r, b)); apply in_map_iff; exists b; auto|].
      specialize (He b Hin). unfold term_ok_b. destruct (terminals_of (concatenation b)) as [tm|]; [|exact I]. eapply opt_first_none; exact He. }
    exact (HP (outer_or o l r) Hb x Hx).
  - cbn [step_err step_children] in He, Hc.
    assert (Hi : item_ok (outer_or o l r) b) by (apply (Hc (outer_or o l r, b)); left; reflexivity).
    assert (Ht : term_ok_b (outer_or o l r) b) by (unfold term_ok_b; destruct (terminals_of (concatenation b)) as [tm|]; [eapply opt_first_none; exact He|exact I]).
    assert (Hr : rep_ok (outer_or o l r) b lo hi) by (unfold rep_ok; destruct (terminals_of (concatenation b)) as [tm|]; [eapply opt_first_none_r; exact He|exact I]).
    exact (HP (outer_or o l r) Hi Ht Hr x Hx).
Qed.

Lemma junction_r : forall o l a b r xa xb,
  mfact_r o (l, a, Some b) -> mfact_r o (Some a, b, r) -> member_r a -> member_r b ->
  is_boundary a && is_boundary b = false -> Expands a xa -> Expands b xb -> lb xa && fb xb = false.
Proof.
  intros o l a b r xa xb Ma Mb [Hca [Hsa Hna]] [Hcb [Hsb Hnb]] Hadj Hxa Hxb.
  destruct (Ma xa Hxa) as [_ [_ Ca]]. destruct (Mb xb Hxb) as [_ [_ Cb]].
  assert (Right : ctx (outer_or o l (Some b)) xa -> lb xa && fb xb = false).
  { intros [_ Ca']. cbn [outer_or o_right opt_or has_starting_boundary opt_any] in Ca'.
    destruct (starts_with is_boundary b) eqn:Esb.
    + rewrite (Ca' eq_refl). reflexivity.
    + rewrite (starts_b_sound_r b Hnb Hsb Esb xb Hxb). apply andb_false_r. }
  destruct a as [spa la|spa bsa|spa tsa|spa ba loa hia]; try discriminate; [|exact (Right Ca)|exact (Right Ca)].
  inversion Hxa; subst. change (lb [la]) with (is_bnd la). rewrite is_boundary_leaf in Hadj. destruct (is_bnd la) eqn:Ela; [|reflexivity]. cbn [andb] in *.
  assert (Left : ctx (outer_or o (Some (TLeaf spa la)) r) xb -> fb xb = false).
  { intros [Cb' _]. apply Cb'. cbn [outer_or o_left opt_or has_ending_boundary opt_any]. cbn [ends_with]. rewrite is_boundary_leaf, Ela. reflexivity. }
  destruct b as [spb lb0|spb bsb|spb tsb|spb bb lob hib]; try discriminate; [|exact (Left Cb)|exact (Left Cb)].
  inversion Hxb; subst. rewrite is_boundary_leaf in Hadj. exact Hadj.
Qed.

Lemma members_facts_r : forall o ms xs, Forall2 Expands ms xs -> forall lf,
  (forall tr, In tr (adjacent_aux lf ms) -> mfact_r o tr) -> Forall member_r ms -> adjacent_boundary ms = None ->
  Forall (fun x => x <> [] /\ chain_ok false x = true) xs /\ juncs xs.
Proof.
  intros o ms xs HF. induction HF as [|m x ms' xs' Hx HF' IH]; intros lf Hm Hmem Hadj; [split; [constructor|exact I]|].
  inversion Hmem as [|? ? Hm0 Hmem']; subst. cbn [adjacent_aux] in Hm.
  pose proof (Hm _ (or_introl eq_refl)) as M0. destruct (M0 x Hx) as [Nx [Cx _]].
  destruct (IH (Some m) (fun tr Hin => Hm tr (or_intror Hin)) Hmem' (adjacent_boundary_tail _ _ Hadj)) as [F' J'].
  split; [constructor; [split; assumption|exact F']|].
  destruct HF' as [|m2 y ms2 ys Hy HF2]; [exact I|]. cbn [juncs]. split; [|exact J'].
  inversion Hmem' as [|? ? Hm2 _]; subst. cbn [adjacent_aux] in Hm.
  eapply (junction_r o lf m m2 _ x y); [exact M0|apply Hm; right; left; reflexivity|exact Hm0|exact Hm2| |exact Hx|exact Hy].
  cbn [adjacent_boundary] in Hadj. destruct (is_boundary m && is_boundary m2); [discriminate|reflexivity].
Qed.

(* the outer context of an item reaches its first and last members *)
Lemma item_ctx_r : forall o sp ts xs, ts <> [] -> Forall2 Expands ts xs -> Forall member_r ts ->
  (forall tr, In tr (adjacent ts) -> mfact_r o tr) -> term_ok_b o (TCat sp ts) -> ctx o (concat xs).
Proof.
  intros o sp ts xs Hne HF Hmem Hm Ht. unfold term_ok_b in Ht. cbn [concatenation] in Ht.
  destruct HF as [|m1 x1 ts' xs' Hx1 HF']; [congruence|]. inversion Hmem as [|? ? Hm1 Hmem']; subst.
  assert (N1 : x1 <> []) by (destruct Hm1 as [_ [Hs Hn]]; eapply expands_nonempty_r; [exact Hn|exact Hs|exact Hx1]).
  split.
  - (* left *) intros Hl. cbn [concat]. rewrite fb_app by exact N1. unfold adjacent in Hm. cbn [adjacent_aux] in Hm.
    pose proof (Hm _ (or_introl eq_refl)) as M1. destruct (M1 x1 Hx1) as [_ [_ C1]].
    destruct m1 as [s1 l1|s1 bs1|s1 cs1|s1 b1 lo1 hi1]; try (destruct Hm1 as [Hc _]; discriminate).
    + inversion Hx1; subst. change (fb [l1]) with (is_bnd l1). rewrite <- (is_boundary_leaf s1 l1), leaf_boundary_split.
      destruct ts' as [|m2 ts2]; cbn [terminals_of] in Ht.
      * unfold check_branch in Ht. crack Ht. rewrite ?Hl, ?andb_true_r in *. destruct (is_sep (TLeaf s1 l1)), (is_tree (TLeaf s1 l1)); cbn in *; try discriminate; reflexivity.
      * destruct (last_opt_nonempty (m2 :: ts2)) as [e He]; [discriminate|]. rewrite He in Ht.
        unfold check_branch in Ht. crack Ht. rewrite ?Hl, ?andb_true_r in *. destruct (is_sep (TLeaf s1 l1)), (is_tree (TLeaf s1 l1)); cbn in *; try discriminate; reflexivity.
    + destruct C1 as [C1 _]. apply C1. cbn [outer_or o_left opt_or]. exact Hl.
    + destruct C1 as [C1 _]. apply C1. cbn [outer_or o_left opt_or]. exact Hl.
  - (* right *) intros Hr. destruct (last_opt_nonempty (m1 :: ts')) as [e He]; [discriminate|].
    destruct (forall2_last _ _ _ _ (Forall2_cons _ _ Hx1 HF') He) as [pre [xe [Exs Hxe]]]. rewrite Exs.
    assert (Hine : In e (m1 :: ts')). { clear - He. revert He. generalize (m1 :: ts'). induction l as [|a l IH]; [discriminate|]. destruct l as [|c l']; [cbn; intros H; inversion H; auto|intros H; right; apply IH; exact H]. }
    rewrite Forall_forall in Hmem. destruct (Hmem e Hine) as [Hce [Hse Hne']].
    rewrite starts_concat_snoc by (eapply expands_nonempty_r; [exact Hne'|exact Hse|exact Hxe]).
    destruct (adjacent_last (m1 :: ts') None e He) as [le Hle]. pose proof (Hm _ Hle) as Me. destruct (Me xe Hxe) as [_ [_ Ce]].
    destruct e as [se le0|se bse|se cse|se be loe hie]; try discriminate.
    + inversion Hxe; subst. change (lb [le0]) with (is_bnd le0). rewrite <- (is_boundary_leaf se le0), leaf_boundary_split.
      destruct ts' as [|m2 ts2]; cbn [terminals_of] in Ht.
      * cbn in He. inversion He; subst. unfold check_branch in Ht. crack Ht. rewrite ?Hr, ?andb_true_r in *. destruct (is_sep (TLeaf se le0)), (is_tree (TLeaf se le0)); cbn in *; try discriminate; reflexivity.
      * change (last_opt (m1 :: m2 :: ts2)) with (last_opt (m2 :: ts2)) in He. rewrite He in Ht. unfold check_branch in Ht. crack Ht.
        rewrite ?Hr, ?andb_true_r in *. destruct (is_sep (TLeaf se le0)), (is_tree (TLeaf se le0)); cbn in *; try discriminate; reflexivity.
    + destruct Ce as [_ Ce]. apply Ce. cbn [outer_or o_right opt_or]. exact Hr.
    + destruct Ce as [_ Ce]. apply Ce. cbn [outer_or o_right opt_or]. exact Hr.
Qed.

(* ---- the copies of a body meet at its leaf terminals ------------------------------------------------------------------------------------------ *)
Lemma rep_wrap : forall o spb tsb lo hi, leaf_ends (TCat spb tsb) = true -> term_ok_b o (TCat spb tsb) -> rep_ok o (TCat spb tsb) lo hi ->
  forall y y', Expands (TCat spb tsb) y -> Expands (TCat spb tsb) y' -> lb y && fb y' = false.
Proof.
  intros o spb tsb lo hi Hle Ht Hr y y' Hy Hy'. unfold leaf_ends, term_ok_b, rep_ok in *. cbn [concatenation] in *.
  destruct tsb as [|m1 rest]; [discriminate|]. apply andb_prop in Hle. destruct Hle as [Hl1 Hle].
  destruct (last_opt (m1 :: rest)) as [e|] eqn:He; [|discriminate].
  destruct m1 as [s1 l1| | |]; try discriminate. destruct e as [se le| | |]; try discriminate.
  (* the first leaf of y' and the last leaf of y *)
  assert (Hf : fb y' = is_bnd l1).
  { inversion Hy' as [| |sp0 ts0 xs HF|]; subst. inversion HF as [|? x1 ? xs' Hx1 _]; subst. inversion Hx1; subst. reflexivity. }
  assert (Hlb : lb y = is_bnd le).
  { inversion Hy as [| |sp0 ts0 xs HF|]; subst. destruct (forall2_last _ _ _ _ HF He) as [pre [xe [-> Hxe]]]. inversion Hxe; subst.
    rewrite starts_concat_snoc by discriminate. reflexivity. }
  rewrite Hf, Hlb. destruct rest as [|m2 rest'].
  - cbn in He. inversion He; subst. cbn [terminals_of] in Ht, Hr. unfold check_repetition in Hr.
    destruct ((is_sep (TLeaf se le) || is_rooted_tree (TLeaf se le)) && negb (isSome (o_left o)) && match nr_lower (rep_range lo hi) with NBUnb => true | _ => false end); [discriminate|].
    destruct (is_sep (TLeaf se le)) eqn:Es; [discriminate|]. unfold check_branch in Ht. rewrite Es in Ht. cbn [andb] in Ht.
    destruct (is_tree (TLeaf se le)) eqn:Et; [discriminate|]. rewrite <- (is_boundary_leaf se le), leaf_boundary_split, Es, Et. reflexivity.
  - change (last_opt (TLeaf s1 l1 :: m2 :: rest')) with (last_opt (m2 :: rest')) in He. cbn [terminals_of] in Hr. rewrite He in Hr. unfold check_repetition in Hr.
    destruct ((is_sep (TLeaf s1 l1) || is_rooted_tree (TLeaf s1 l1)) && negb (isSome (o_left o)) && match nr_lower (rep_range lo hi) with NBUnb => true | _ => false end); [discriminate|].
    rewrite !is_boundary_leaf in Hr. destruct (is_bnd l1 && is_bnd le) eqn:E; [discriminate|]. rewrite andb_comm. exact E.
Qed.

Lemma copies_juncs : forall b ys, Forall (Expands b) ys ->
  (forall y y', Expands b y -> Expands b y' -> lb y && fb y' = false) -> (forall y, Expands b y -> y <> []) -> juncs ys.
Proof.
  intros b ys HF Hw Hne. induction HF as [|y ys Hy HF' IH]; [exact I|]. destruct HF' as [|y2 ys2 Hy2 HF2]; [exact I|].
  pose proof (Hne y2 Hy2) as N2. destruct y2 as [|a y2']; [congruence|]. cbn [juncs]. split; [exact (Hw _ _ Hy Hy2)|exact IH].
Qed.

(* ---- the induction ------------------------------------------------------------------------------------------------------------------------------------ *)
Theorem claims_r : forall t, shr t = true -> nonempty_branches t = true -> cats_ok t -> Pr t.
Proof.
  induction t as [sp l|sp bs IH|sp ts IH|sp b lo hi IH] using tok_ind'; intros Hs Hn Hc o; cbn [Pr]; try exact I.
  - (* an alternation in the context o: every branch is an item *)
    intros Hb x Hx. inversion Hx as [|sp0 bs0 bb x0 Hin Hxb| |]; subst.
    cbn [shr nonempty_branches] in Hs, Hn. apply andb_prop in Hn. destruct Hn as [_ Hn]. rewrite forallb_forall in Hs, Hn. rewrite Forall_forall in IH.
    specialize (Hs bb Hin). apply andb_prop in Hs. destruct Hs as [Hcat Hsb].
    destruct (Hb bb Hin) as [Hok Ht].
    pose proof (IH bb Hin Hsb (Hn bb Hin) (cats_ok_child _ _ Hc Hin) o) as HP.
    destruct bb as [| |spb tsb|]; try discriminate. destruct (HP Hok x Hxb) as [C1 C2]. split; [exact C1|exact (C2 Ht)].
  - (* a concatenation as an item *)
    intros Hok x Hx. inversion Hx as [| |sp0 ts0 xs HF|]; subst.
    cbn [shr nonempty_branches] in Hs, Hn. apply andb_prop in Hn. destruct Hn as [Hnil Hn].
    assert (Hmem : Forall member_r ts).
    { apply Forall_forall. intros m Hm. rewrite forallb_forall in Hs, Hn. specialize (Hs m Hm). apply andb_prop in Hs. destruct Hs as [H1 H2]. split; [exact H1|]. split; [exact H2|exact (Hn m Hm)]. }
    destruct (branch_item_decomp o (TCat sp ts)) as [_ Herr]. pose proof (proj1 Herr (Hok _ (reach_refl _))) as Hsteps. cbn [concatenation] in Hsteps.
    rewrite Forall_forall in Hsteps.
    assert (Hm : forall tr, In tr (adjacent ts) -> mfact_r o tr).
    { intros [[l m] r] Hin. pose proof (adjacent_member _ _ _ _ _ Hin) as Hmin. rewrite Forall_forall in IH, Hmem.
      destruct (Hmem m Hmin) as [Hc1 [Hs1 Hn1]].
      apply mfact_of_r; [apply (IH m Hmin Hs1 Hn1 (cats_ok_child (TCat sp ts) m Hc Hmin))|exact (Hmem m Hmin)|exact (Hsteps _ Hin)|].
      intros c Hcin. apply (item_ok_child o (TCat sp ts) c Hok). unfold item_children. cbn [fst snd concatenation]. apply in_flat_map. exists (l, m, r). split; [exact Hin|exact Hcin]. }
    pose proof (Hc sp ts (sub_refl _)) as Hadj.
    destruct (members_facts_r o ts xs HF None Hm Hmem Hadj) as [F J]. split; [apply chain_concat; assumption|].
    intros Ht. apply (item_ctx_r o sp ts xs); try assumption. destruct ts; [discriminate|discriminate].
  - (* a repetition in the context o: its body is an item; the copies meet at the body's leaf terminals *)
    intros Hok Ht Hr x Hx. destruct (rep_parts _ _ _ _ Hs) as [Hcat [Hsb [Hlo Hle]]].
    cbn [nonempty_branches] in Hn. apply andb_prop in Hn. destruct Hn as [Hnb _].
    assert (Hcb : cats_ok b) by (apply (cats_ok_child (TRep sp b lo hi) b Hc); left; reflexivity).
    pose proof (IH Hsb Hnb Hcb o) as HP. destruct b as [| |spb tsb|]; try discriminate. cbn [Pr] in HP.
    destruct (rep_copies _ _ _ _ _ Hlo Hx) as [y [ys [-> HF]]].
    assert (Hne : forall z, Expands (TCat spb tsb) z -> z <> []) by (intros z Hz; exact (expands_nonempty_r _ z Hnb Hsb Hz)).
    assert (Hall : Forall (fun z => z <> [] /\ chain_ok false z = true) (y :: ys)).
    { eapply Forall_impl; [|exact HF]. intros z Hz. split; [exact (Hne z Hz)|exact (proj1 (HP Hok z Hz))]. }
    split.
    + apply chain_concat; [exact Hall|]. apply (copies_juncs (TCat spb tsb)); [exact HF| |exact Hne].
      exact (rep_wrap o spb tsb lo hi Hle Ht Hr).
    + inversion HF as [|? ? Hy _]; subst. split.
      * intros Hl. cbn [concat]. rewrite fb_app by exact (Hne y Hy). exact (proj1 (proj2 (HP Hok y Hy) Ht) Hl).
      * intros Hrr. destruct (concat_snoc_last ys y) as [pre [yl E]]. rewrite E in *. apply Forall_app in HF. destruct HF as [_ HF]. inversion HF as [|? ? Hyl _]; subst.
        rewrite starts_concat_snoc by exact (Hne yl Hyl). exact (proj2 (proj2 (HP Hok yl Hyl) Ht) Hrr).
Qed.

(* C06 / C09 / C10: every expansion of a checked glob of the class is free of adjacent boundaries *)
Definition root_ok (t : tok) : bool := match t with TLeaf _ _ | TCat _ _ => true | _ => false end.

Theorem check_no_adjacent_boundaries_r : forall t, check t = Ok None -> root_ok t = true -> shr t = true -> nonempty_branches t = true ->
  forall x, Expands t x -> chain_ok false x = true.
Proof.
  intros t Hck Hcat Hs Hn x Hx. assert (Hc : cats_ok t) by (intros sp ts Hsub; exact (built_no_adjacent_boundary_everywhere t Hck sp ts Hsub)).
  pose proof (claims_r t Hs Hn Hc outer_default) as HP. pose proof (check_item_ok t Hck) as Hok.
  destruct t as [sp l|sp bs|sp ts|sp b lo hi]; try discriminate; [inversion Hx; subst; reflexivity|]. exact (proj1 (HP Hok x Hx)).
Qed.
