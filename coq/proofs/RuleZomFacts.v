(* RuleZomFacts.v -- C06: the rule "no two zero-or-more wildcards become adjacent" over *expansions*, for globs without repetitions:
   inside one concatenation the parser enforces it (ZomFacts), across the borders of alternations the branch check does, through the
   same inherited outer context as for boundaries (RuleAdjFacts, whose declarative characterisation of the branch loop is reused). *)
From Coq Require Import Arith Lia.
From WaxModel Require Import Base Token Regex Spec Encode Variance Fold Rule Parse Query Glob.
From WaxProofs Require Import SpecFacts EncodeLang RuleFacts FuelFacts ComposeFacts DepthFacts DepthTreeFacts DepthAltFacts ZomFacts ExhaustFacts BuiltNonempty RuleAdjFacts ParseShape.
Local Open Scope nat_scope.

Definition is_zl (l : leaf) : bool := match l with LZom _ => true | _ => false end.
Definition fz (x : list leaf) : bool := match x with a :: _ => is_zl a | [] => false end.
Definition lz (x : list leaf) : bool := match last_opt x with Some a => is_zl a | None => false end.
(* no two zero-or-more wildcards are adjacent ([pz]: the previous leaf is one) *)
Fixpoint zchain (pz : bool) (x : list leaf) : bool :=
  match x with [] => true | a :: r => negb (pz && is_zl a) && zchain (is_zl a) r end.

Lemma lz_app : forall x y, y <> [] -> lz (x ++ y) = lz y.
Proof. intros x y Hy. unfold lz. rewrite ExhaustFacts.last_opt_app by exact Hy. reflexivity. Qed.
Lemma fz_app : forall x y, x <> [] -> fz (x ++ y) = fz x.
Proof. intros [|a x] y H; [congruence|reflexivity]. Qed.

Lemma is_zom_leaf : forall sp l, is_zom (TLeaf sp l) = is_zl l.
Proof. intros sp []; reflexivity. Qed.

Definition starts_z (t : tok) : bool := starts_with is_zom t.
Definition ends_z (t : tok) : bool := ends_with is_zom t.

(* a token that cannot begin with a boundary has no expansion that does *)
Lemma starts_z_sound : forall t, nonempty_branches t = true -> rep_free t = true -> starts_z t = false ->
  forall x, Expands t x -> fz x = false.
Proof.
  unfold starts_z. induction t as [sp l|sp bs IH|sp ts IH|sp b lo hi IH] using tok_ind'; intros Hn Hr Hs x Hx; try discriminate.
  - inversion Hx; subst. cbn [starts_with] in Hs. rewrite orb_false_r, is_zom_leaf in Hs. exact Hs.
  - inversion Hx as [|sp0 bs0 bb x0 Hin Hxb| |]; subst. cbn [starts_with nonempty_branches rep_free] in *. cbn [is_zom tboundary orb] in Hs.
    apply andb_prop in Hn. destruct Hn as [_ Hn]. rewrite forallb_forall in Hn, Hr. rewrite Forall_forall in IH.
    apply (IH bb Hin (Hn bb Hin) (Hr bb Hin)); [|exact Hxb].
    destruct (starts_with is_zom bb) eqn:E; [|reflexivity]. assert (existsb (starts_with is_zom) bs = true) by (apply existsb_exists; eauto). congruence.
  - inversion Hx as [| |sp0 ts0 xs HF|]; subst. cbn [starts_with nonempty_branches rep_free] in *. cbn [is_zom tboundary orb] in Hs.
    apply andb_prop in Hn. destruct Hn as [_ Hn]. destruct HF as [|t0 x0 ts' xs' Hx0 HF']; [reflexivity|].
    inversion IH as [|? ? I0 _]; subst. cbn [forallb] in Hn, Hr. apply andb_prop in Hn, Hr. cbn [concat].
    rewrite fz_app by (eapply expands_nonempty; [apply Hn|apply Hr|exact Hx0]). apply (I0 (proj1 Hn) (proj1 Hr) Hs _ Hx0).
Qed.

Lemma lz_concat_snoc : forall (pre : list (list leaf)) b, b <> [] -> lz (concat (pre ++ [b])) = lz b.
Proof. intros pre b Hb. rewrite concat_app. cbn [concat]. rewrite app_nil_r. apply lz_app. exact Hb. Qed.

Lemma ends_z_sound : forall t, nonempty_branches t = true -> rep_free t = true -> ends_z t = false ->
  forall x, Expands t x -> lz x = false.
Proof.
  unfold ends_z. induction t as [sp l|sp bs IH|sp ts IH|sp b lo hi IH] using tok_ind'; intros Hn Hr Hs x Hx; try discriminate.
  - inversion Hx; subst. cbn [ends_with] in Hs. rewrite orb_false_r, is_zom_leaf in Hs. exact Hs.
  - inversion Hx as [|sp0 bs0 bb x0 Hin Hxb| |]; subst. cbn [ends_with nonempty_branches rep_free] in *. cbn [is_zom tboundary orb] in Hs.
    apply andb_prop in Hn. destruct Hn as [_ Hn]. rewrite forallb_forall in Hn, Hr. rewrite Forall_forall in IH.
    apply (IH bb Hin (Hn bb Hin) (Hr bb Hin)); [|exact Hxb].
    destruct (ends_with is_zom bb) eqn:E; [|reflexivity]. assert (existsb (ends_with is_zom) bs = true) by (apply existsb_exists; eauto). congruence.
  - inversion Hx as [| |sp0 ts0 xs HF|]; subst. cbn [nonempty_branches rep_free] in *.
    apply andb_prop in Hn. destruct Hn as [Hnil Hn]. destruct (last_opt_nonempty ts) as [tl Htl]; [destruct ts; [discriminate|discriminate]|].
    rewrite (ends_with_cat _ sp ts tl Htl) in Hs. cbn [is_zom tboundary orb] in Hs.
    destruct (forall2_last _ _ _ _ HF Htl) as [pre [b [-> Hb]]].
    assert (Hin : In tl ts). { clear - Htl. induction ts as [|a ts IH]; [discriminate|]. destruct ts as [|c ts']; [cbn in Htl; inversion Htl; left; reflexivity|right; apply IH; exact Htl]. }
    rewrite forallb_forall in Hn, Hr. rewrite Forall_forall in IH.
    rewrite lz_concat_snoc by (eapply expands_nonempty; [apply (Hn tl Hin)|apply (Hr tl Hin)|exact Hb]).
    apply (IH tl Hin (Hn tl Hin) (Hr tl Hin) Hs _ Hb).
Qed.

(* ---- the claims_z ------------------------------------------------------------------------------------------------------------------------------------- *)
Definition ctxz (o : outer) (x : list leaf) : Prop :=
  (has_ending_zom (o_left o) = true -> fz x = false) /\ (has_starting_zom (o_right o) = true -> lz x = false).

Definition Pz (t : tok) : Prop := forall o,
  match t with
  | TCat sp ts => item_ok o t -> forall x, Expands t x -> zchain false x = true /\ (term_ok_b o t -> ctxz o x)
  | TAlt sp bs => (forall b, In b bs -> item_ok o b /\ term_ok_b o b) -> forall x, Expands t x -> zchain false x = true /\ ctxz o x
  | _ => True
  end.

(* a member of a concatenation: a leaf or an alternation *)
Definition member (m : tok) : Prop :=
  negb (is_cat m) = true /\ shp m = true /\ nonempty_branches m = true.

Definition mfactz (o : outer) (tr : option tok * tok * option tok) : Prop :=
  let '(l, m, r) := tr in forall x, Expands m x -> x <> [] /\ zchain false x = true /\
     match m with TAlt _ _ => ctxz (outer_or o l r) x | _ => True end.

Lemma mfactzz_of : forall o l m r, Pz m -> member m -> step_err o (l, m, r) = None ->
  (forall c, In c (step_children o (l, m, r)) -> item_ok (fst c) (snd c)) -> mfactz o (l, m, r).
Proof.
  intros o l m r HP [Hnc [Hs Hn]] He Hc x Hx. pose proof (expands_nonempty m x Hn (shp_rep_free m Hs) Hx) as Hne. split; [exact Hne|].
  destruct m as [sp lf|sp bs|sp ts|sp b lo hi]; try discriminate.
  - inversion Hx; subst. split; [reflexivity|exact I].
  - cbn [step_err step_children] in He, Hc. apply first_some_l_none in He. rewrite Forall_forall in He.
    assert (Hb : forall b, In b bs -> item_ok (outer_or o l r) b /\ term_ok_b (outer_or o l r) b).
    { intros b Hin. split; [apply (Hc (outer_or o l r, b)); apply in_map_iff; exists b; auto|].
      specialize (He b Hin). unfold term_ok_b. destruct (terminals_of (concatenation b)) as [tm|]; [|exact I]. eapply opt_first_none; exact He. }
    exact (HP (outer_or o l r) Hb x Hx).
Qed.

Lemma zchain_true_of : forall y, zchain false y = true -> fz y = false -> zchain true y = true.
Proof. intros [|a y] H Hf; [reflexivity|]. cbn [zchain fz] in *. rewrite Hf in *. cbn [andb negb] in *. exact H. Qed.

Lemma zchain_app_intro : forall x y pb, x <> [] -> zchain pb x = true -> zchain (lz x) y = true -> zchain pb (x ++ y) = true.
Proof.
  induction x as [|a x IH]; intros y pb Hx H1 H2; [congruence|]. cbn [app zchain] in *. apply andb_prop in H1. destruct H1 as [Ha H1]. rewrite Ha. cbn [andb].
  destruct x as [|b x'].
  - cbn [app]. exact H2.
  - apply IH; [discriminate|exact H1|exact H2].
Qed.

Fixpoint zjuncs (xs : list (list leaf)) : Prop :=
  match xs with x :: ((y :: _) as r) => lz x && fz y = false /\ zjuncs r | _ => True end.

Lemma zchain_concat : forall xs, Forall (fun x => x <> [] /\ zchain false x = true) xs -> zjuncs xs -> zchain false (concat xs) = true.
Proof.
  induction xs as [|x xs IH]; intros HF HJ; [reflexivity|]. inversion HF as [|? ? [Nx Cx] HF']; subst. cbn [concat].
  destruct xs as [|y ys]; [cbn [concat]; rewrite app_nil_r; exact Cx|].
  destruct HJ as [Hj HJ']. apply zchain_app_intro; [exact Nx|exact Cx|].
  specialize (IH HF' HJ'). destruct (lz x) eqn:El; [|exact IH]. cbn [andb] in Hj. apply zchain_true_of; [exact IH|].
  inversion HF' as [|? ? [Ny _] _]; subst. cbn [concat]. rewrite fz_app by exact Ny. exact Hj.
Qed.

Lemma junction_z : forall o l a b r xa xb,
  mfactz o (l, a, Some b) -> mfactz o (Some a, b, r) -> member a -> member b ->
  is_zom a && is_zom b = false -> Expands a xa -> Expands b xb -> lz xa && fz xb = false.
Proof.
  intros o l a b r xa xb Ma Mb [Hca [Hsa Hna]] [Hcb [Hsb Hnb]] Hadj Hxa Hxb.
  destruct (Ma xa Hxa) as [_ [_ Ca]]. destruct (Mb xb Hxb) as [_ [_ Cb]].
  destruct a as [spa la|spa bsa|spa tsa|spa ba loa hia]; try discriminate.
  - inversion Hxa; subst. change (lz [la]) with (is_zl la). rewrite is_zom_leaf in Hadj. destruct (is_zl la) eqn:Ela; [|reflexivity]. cbn [andb] in *.
    destruct b as [spb lb0|spb bsb|spb tsb|spb bb lob hib]; try discriminate.
    + inversion Hxb; subst. rewrite is_zom_leaf in Hadj. exact Hadj.
    + destruct Cb as [Cb _]. apply Cb. cbn [outer_or o_left opt_or has_ending_zom opt_any]. cbn [ends_with]. rewrite is_zom_leaf, Ela. reflexivity.
  - destruct Ca as [_ Ca]. cbn [outer_or o_right opt_or has_starting_zom opt_any] in Ca.
    destruct (starts_with is_zom b) eqn:Esb.
    + rewrite (Ca eq_refl). reflexivity.
    + rewrite (starts_z_sound b Hnb (shp_rep_free b Hsb) Esb xb Hxb). apply andb_false_r.
Qed.

Lemma members_facts_z : forall o ms xs, Forall2 Expands ms xs -> forall lf,
  (forall tr, In tr (adjacent_aux lf ms) -> mfactz o tr) -> Forall member ms -> adj_zom ms = false ->
  Forall (fun x => x <> [] /\ zchain false x = true) xs /\ zjuncs xs.
Proof.
  intros o ms xs HF. induction HF as [|m x ms' xs' Hx HF' IH]; intros lf Hm Hmem Hadj; [split; [constructor|exact I]|].
  inversion Hmem as [|? ? Hm0 Hmem']; subst. cbn [adjacent_aux] in Hm.
  pose proof (Hm _ (or_introl eq_refl)) as M0. destruct (M0 x Hx) as [Nx [Cx _]].
  destruct (IH (Some m) (fun tr Hin => Hm tr (or_intror Hin)) Hmem' (adj_zom_tail _ _ Hadj)) as [F' J'].
  split; [constructor; [split; assumption|exact F']|].
  destruct HF' as [|m2 y ms2 ys Hy HF2]; [exact I|]. cbn [zjuncs]. split; [|exact J'].
  inversion Hmem' as [|? ? Hm2 _]; subst. cbn [adjacent_aux] in Hm.
  eapply (junction_z o lf m m2 _ x y); [exact M0|apply Hm; right; left; reflexivity|exact Hm0|exact Hm2| |exact Hx|exact Hy].
  cbn [adj_zom] in Hadj. apply orb_false_iff in Hadj. exact (proj1 Hadj).
Qed.

(* the outer context of an item reaches its first and last members *)
Lemma item_ctx_z : forall o sp ts xs, ts <> [] -> Forall2 Expands ts xs -> Forall member ts ->
  (forall tr, In tr (adjacent ts) -> mfactz o tr) -> term_ok_b o (TCat sp ts) -> ctxz o (concat xs).
Proof.
  intros o sp ts xs Hne HF Hmem Hm Ht. unfold term_ok_b in Ht. cbn [concatenation] in Ht.
  destruct HF as [|m1 x1 ts' xs' Hx1 HF']; [congruence|]. inversion Hmem as [|? ? Hm1 Hmem']; subst.
  assert (N1 : x1 <> []) by (destruct Hm1 as [_ [Hs Hn]]; eapply expands_nonempty; [exact Hn|apply shp_rep_free; exact Hs|exact Hx1]).
  split.
  - (* left *) intros Hl. cbn [concat]. rewrite fz_app by exact N1. unfold adjacent in Hm. cbn [adjacent_aux] in Hm.
    pose proof (Hm _ (or_introl eq_refl)) as M1. destruct (M1 x1 Hx1) as [_ [_ C1]].
    destruct m1 as [s1 l1|s1 bs1|s1 cs1|s1 b1 lo1 hi1]; try (destruct Hm1 as [Hc _]; discriminate).
    + inversion Hx1; subst. change (fz [l1]) with (is_zl l1). rewrite <- (is_zom_leaf s1 l1).
      destruct ts' as [|m2 ts2]; cbn [terminals_of] in Ht.
      * unfold check_branch in Ht. crack Ht. rewrite ?Hl, ?andb_true_r in *. destruct (is_zom (TLeaf s1 l1)); cbn in *; try discriminate; reflexivity.
      * destruct (last_opt_nonempty (m2 :: ts2)) as [e He]; [discriminate|]. rewrite He in Ht.
        unfold check_branch in Ht. crack Ht. rewrite ?Hl, ?andb_true_r in *. destruct (is_zom (TLeaf s1 l1)); cbn in *; try discriminate; reflexivity.
    + destruct C1 as [C1 _]. apply C1. cbn [outer_or o_left opt_or]. exact Hl.
    + destruct (shp (TRep s1 b1 lo1 hi1)) eqn:E; [discriminate|]. destruct Hm1 as [_ [Hs _]]. congruence.
  - (* right *) intros Hr. destruct (last_opt_nonempty (m1 :: ts')) as [e He]; [discriminate|].
    destruct (forall2_last _ _ _ _ (Forall2_cons _ _ Hx1 HF') He) as [pre [xe [Exs Hxe]]]. rewrite Exs.
    assert (Hine : In e (m1 :: ts')). { clear - He. revert He. generalize (m1 :: ts'). induction l as [|a l IH]; [discriminate|]. destruct l as [|c l']; [cbn; intros H; inversion H; auto|intros H; right; apply IH; exact H]. }
    rewrite Forall_forall in Hmem. destruct (Hmem e Hine) as [Hce [Hse Hne']].
    rewrite lz_concat_snoc by (eapply expands_nonempty; [exact Hne'|apply shp_rep_free; exact Hse|exact Hxe]).
    destruct (adjacent_last (m1 :: ts') None e He) as [le Hle]. pose proof (Hm _ Hle) as Me. destruct (Me xe Hxe) as [_ [_ Ce]].
    destruct e as [se le0|se bse|se cse|se be loe hie]; try discriminate.
    + inversion Hxe; subst. change (lz [le0]) with (is_zl le0). rewrite <- (is_zom_leaf se le0).
      destruct ts' as [|m2 ts2]; cbn [terminals_of] in Ht.
      * cbn in He. inversion He; subst. unfold check_branch in Ht. crack Ht. rewrite ?Hr, ?andb_true_r in *. destruct (is_zom (TLeaf se le0)); cbn in *; try discriminate; reflexivity.
      * change (last_opt (m1 :: m2 :: ts2)) with (last_opt (m2 :: ts2)) in He. rewrite He in Ht. unfold check_branch in Ht. crack Ht.
        rewrite ?Hr, ?andb_true_r in *. destruct (is_zom (TLeaf se le0)); cbn in *; try discriminate; reflexivity.
    + destruct Ce as [_ Ce]. apply Ce. cbn [outer_or o_right opt_or]. exact Hr.
Qed.

(* ---- the induction ------------------------------------------------------------------------------------------------------------------------------------ *)
Definition zcats_ok (t : tok) : Prop := forall sp ts, sub (TCat sp ts) t -> adj_zom ts = false.

Lemma zzcats_ok_child : forall t c, zcats_ok t -> In c (children t) -> zcats_ok c.
Proof. intros t c H Hin sp ts Hs. apply (H sp ts). eapply sub_child; [exact Hin|exact Hs]. Qed.

Theorem claims_z : forall t, shp t = true -> nonempty_branches t = true -> zcats_ok t -> Pz t.
Proof.
  induction t as [sp l|sp bs IH|sp ts IH|sp b lo hi IH] using tok_ind'; intros Hs Hn Hc o; cbn [Pz]; try exact I.
  - (* an alternation in the context o: every branch is an item *)
    intros Hb x Hx. inversion Hx as [|sp0 bs0 bb x0 Hin Hxb| |]; subst.
    cbn [shp nonempty_branches] in Hs, Hn. apply andb_prop in Hn. destruct Hn as [_ Hn]. rewrite forallb_forall in Hs, Hn. rewrite Forall_forall in IH.
    specialize (Hs bb Hin). apply andb_prop in Hs. destruct Hs as [Hcat Hsb].
    destruct (Hb bb Hin) as [Hok Ht].
    pose proof (IH bb Hin Hsb (Hn bb Hin) (zzcats_ok_child _ _ Hc Hin) o) as HP.
    destruct bb as [| |spb tsb|]; try discriminate. destruct (HP Hok x Hxb) as [C1 C2]. split; [exact C1|exact (C2 Ht)].
  - (* a concatenation as an item *)
    intros Hok x Hx. inversion Hx as [| |sp0 ts0 xs HF|]; subst.
    cbn [shp nonempty_branches] in Hs, Hn. apply andb_prop in Hn. destruct Hn as [Hnil Hn].
    assert (Hmem : Forall member ts).
    { apply Forall_forall. intros m Hm. rewrite forallb_forall in Hs, Hn. specialize (Hs m Hm). apply andb_prop in Hs. destruct Hs as [H1 H2]. split; [exact H1|]. split; [exact H2|exact (Hn m Hm)]. }
    destruct (branch_item_decomp o (TCat sp ts)) as [_ Herr]. pose proof (proj1 Herr (Hok _ (reach_refl _))) as Hsteps. cbn [concatenation] in Hsteps.
    rewrite Forall_forall in Hsteps.
    assert (Hm : forall tr, In tr (adjacent ts) -> mfactz o tr).
    { intros [[l m] r] Hin. pose proof (adjacent_member _ _ _ _ _ Hin) as Hmin. rewrite Forall_forall in IH, Hmem.
      destruct (Hmem m Hmin) as [Hc1 [Hs1 Hn1]].
      apply mfactzz_of; [apply (IH m Hmin Hs1 Hn1 (zzcats_ok_child (TCat sp ts) m Hc Hmin))|exact (Hmem m Hmin)|exact (Hsteps _ Hin)|].
      intros c Hcin. apply (item_ok_child o (TCat sp ts) c Hok). unfold item_children. cbn [fst snd concatenation]. apply in_flat_map. exists (l, m, r). split; [exact Hin|exact Hcin]. }
    pose proof (Hc sp ts (sub_refl _)) as Hadj.
    destruct (members_facts_z o ts xs HF None Hm Hmem Hadj) as [F J]. split; [apply zchain_concat; assumption|].
    intros Ht. apply (item_ctx_z o sp ts xs); try assumption. destruct ts; [discriminate|discriminate].
Qed.


Lemma zom_ok_cats : forall t, zom_ok t = true -> zcats_ok t.
Proof.
  intros t H sp ts Hs. remember (TCat sp ts) as c eqn:Ec. revert H. induction Hs as [t0|x c0 t0 Hin Hs IH]; intros H.
  - subst t0. cbn [zom_ok] in H. apply andb_prop in H. destruct H as [H _]. apply negb_true_iff in H. exact H.
  - apply (IH Ec). destruct t0 as [s0 l0|s0 bs0|s0 cs0|s0 b0 lo0 hi0]; cbn [children zom_ok] in *.
    + contradiction.
    + rewrite forallb_forall in H. exact (H c0 Hin).
    + apply andb_prop in H. destruct H as [_ H]. rewrite forallb_forall in H. exact (H c0 Hin).
    + destruct Hin as [<-|[]]. exact H.
Qed.

(* C06: every expansion of a glob without repetitions that parses and passes the rule checker is free of adjacent zero-or-more wildcards *)
Theorem check_no_adjacent_zoms : forall t, check t = Ok None -> zom_ok t = true -> shp t = true -> nonempty_branches t = true ->
  forall x, Expands t x -> zchain false x = true.
Proof.
  intros t Hck Hz Hs Hn x Hx. pose proof (zom_ok_cats t Hz) as Hc.
  pose proof (claims_z t Hs Hn Hc outer_default) as HP. pose proof (check_item_ok t Hck) as Hok.
  destruct t as [sp l|sp bs|sp ts|sp b lo hi]; try discriminate.
  - inversion Hx; subst. reflexivity.
  - assert (Hb : forall b, In b bs -> item_ok (outer_or outer_default None None) b /\ term_ok_b (outer_or outer_default None None) b).
    { destruct (branch_item_decomp outer_default (TAlt sp bs)) as [_ Herr]. pose proof (proj1 Herr (Hok _ (reach_refl _))) as Hsteps. cbn [concatenation adjacent adjacent_aux] in Hsteps.
      inversion Hsteps as [|? ? He _]; subst. cbn [step_err] in He. apply first_some_l_none in He. rewrite Forall_forall in He.
      intros b Hin. split.
      - apply (item_ok_child outer_default (TAlt sp bs) (outer_or outer_default None None, b) Hok). unfold item_children. cbn [fst snd concatenation adjacent adjacent_aux flat_map step_children].
        rewrite app_nil_r. apply in_map_iff. exists b. auto.
      - specialize (He b Hin). unfold term_ok_b. destruct (terminals_of (concatenation b)) as [tm|]; [|exact I]. eapply opt_first_none; exact He. }
    exact (proj1 (HP Hb x Hx)).
  - exact (proj1 (HP Hok x Hx)).
Qed.

Theorem built_no_adjacent_zoms : forall e t r, build e = BuildOk t r -> rep_free t = true ->
  forall x, Expands t x -> zchain false x = true.
Proof.
  intros e t r Hb Hr x Hx. unfold build in Hb. destruct (parse e) as [t0| |] eqn:Ep; try discriminate.
  destruct (check t0) as [[[k sp]|]|s] eqn:Ec; try discriminate. destruct (compile_ok (encode t0)) eqn:Eco; [|discriminate]. inversion Hb; subst.
  apply (check_no_adjacent_zoms t Ec); [eapply parse_no_adjacent_zom; exact Ep|apply sh_shp; [eapply parse_sh; exact Ep|exact Hr]| |exact Hx].
  apply (built_nonempty_branches e t (encode t)). unfold build. rewrite Ep, Ec, Eco. reflexivity.
Qed.
