(* ParseFuelFacts.v -- C05: the fuel of the parser model is adequate: [parse] never takes its out-of-fuel exit, for any
   string. Every successful token consumes at least one character; the nesting of the four mutually recursive parsers
   costs at most four units of fuel per character. *)
From Coq Require Import Arith Lia.
From WaxModel Require Import Base Token Regex Parse Rule Glob.
From WaxProofs Require Import SpanFacts.
Local Open Scope nat_scope.

Definition ln (i : input) : nat := length (i_s i).

Lemma adv_ln : forall i i', adv_rel i i' -> ln i' <= ln i.
Proof. intros i i' [mid [H _]]. unfold ln. rewrite H, app_length. lia. Qed.

Lemma adv1_ln : forall i c r, i_s i = c :: r -> S (ln (adv1 i c r)) = ln i.
Proof. intros i c r H. unfold ln. rewrite H. reflexivity. Qed.

(* ---- every leaf parser consumes at least one character ------------------------------------------------------------- *)
Lemma lit_chars_len_n : forall n s t rest, length s <= n -> lit_chars s = Some (t, rest) -> length rest + length t <= length s.
Proof.
  induction n as [|n IH]; intros s t rest Hn H.
  - destruct s; [|cbn in Hn; lia]. cbn in H. inversion H; subst. cbn. lia.
  - destruct s as [|c s]; [cbn in H; inversion H; subst; cbn; lia|]. cbn [lit_chars] in H. cbn [length] in Hn.
    destruct (c =? BSLASH)%N.
    + destruct s as [|d s']; [discriminate|]. destruct (mem d LIT_ESCAPABLE); [|discriminate].
      destruct (lit_chars s') as [[t' rest']|] eqn:E; [|discriminate]. inversion H; subst.
      pose proof (IH s' t' rest ltac:(cbn [length] in Hn; lia) E). cbn [length]. lia.
    + destruct (mem c LIT_SPECIAL); [inversion H; subst; cbn [length]; lia|].
      destruct (lit_chars s) as [[t' rest']|] eqn:E; [|discriminate]. inversion H; subst.
      pose proof (IH s t' rest ltac:(lia) E). cbn [length]. lia.
Qed.

Lemma p_literal_ln : forall i l i', p_literal i = Some (l, i') -> ln i' < ln i.
Proof.
  intros i l i' H. unfold p_literal in H. destruct (lit_chars (i_s i)) as [[text rest]|] eqn:E; [|discriminate].
  destruct text as [|c text]; [discriminate|]. cbn [is_nil] in H. inversion H; subst.
  pose proof (lit_chars_len_n _ _ _ _ (le_n _) E) as Hl. unfold ln. cbn [adv i_s length] in *. lia.
Qed.

Lemma p_class_ln : forall i l i', p_class i = Some (l, i') -> ln i' < ln i.
Proof.
  intros i l i' H. unfold p_class in H. destruct (i_s i) as [|c r] eqn:E; [discriminate|].
  destruct (c =? c_lbrack)%N; [|discriminate].
  set (nr := match r with c2 :: r' => if (c2 =? c_bang)%N then (true, r') else (false, r) | [] => (false, r) end) in H.
  assert (Hr : exists c0, r = c0 ++ snd nr).
  { subst nr. destruct r as [|c2 r']; [exists []; reflexivity|]. destruct (c2 =? c_bang)%N; [exists [c2]; reflexivity|exists []; reflexivity]. }
  destruct nr as [neg r1]. cbn [snd] in Hr. destruct Hr as [c0 ->].
  destruct (class_archs (length r1) r1) as [archs r2] eqn:Ea. destruct (class_archs_suffix _ _ _ _ Ea) as [c1 ->].
  destruct archs as [|a archs]; [discriminate|]. destruct r2 as [|c3 r3]; [discriminate|].
  destruct (c3 =? c_rbrack)%N; [|discriminate]. inversion H; subst.
  unfold ln. cbn [adv i_s]. rewrite E. cbn [length]. rewrite !app_length. cbn [length]. lia.
Qed.

Lemma p_wildcard_ln : forall tm i l i', p_wildcard tm i = Some (l, i') -> ln i' < ln i.
Proof.
  intros tm i l i' H. unfold p_wildcard in H.
  destruct (match i_s i with d :: _ => (d =? c_qmark)%N | [] => false end).
  - destruct (i_s i) as [|c r] eqn:E; [discriminate|]. inversion H; subst. pose proof (adv1_ln i c r E). lia.
  - match type of H with (match ?T with _ => _ end) = _ => destruct T as [[l1 i1]|] eqn:Et end.
    + inversion H; subst. clear H.
      match type of Et with (match ?P with _ => _ end) = _ => destruct P as [[root i1]|] eqn:Ep; [|discriminate] end.
      assert (Hp : ln i1 <= ln i).
      { destruct (i_s i) as [|c r] eqn:E.
        - destruct (i_sub i =? i_pos i)%N; [|discriminate]. inversion Ep; subst. apply adv_ln, flags_with_state_rel.
        - destruct (c =? SEP)%N.
          + inversion Ep; subst. pose proof (adv1_ln i c r E). pose proof (adv_ln _ _ (flags_with_state_rel (adv1 i c r))). lia.
          + destruct (i_sub i =? i_pos i)%N; [|discriminate]. inversion Ep; subst. apply adv_ln, flags_with_state_rel. }
      destruct (i_s i1) as [|c1 [|c2 r]] eqn:E1; try discriminate.
      destruct ((c1 =? c_star)%N && (c2 =? c_star)%N); [|discriminate].
      set (i2 := adv1 (adv1 i1 c1 (c2 :: r)) c2 r) in *.
      assert (H2 : ln i2 < ln i).
      { pose proof (adv1_ln i1 c1 (c2 :: r) E1). pose proof (adv1_ln (adv1 i1 c1 (c2 :: r)) c2 r eq_refl). subst i2. lia. }
      destruct (i_s (flags_with_state i2)) as [|c3 r3] eqn:E3.
      * destruct (term_ok tm i2); [|discriminate]. inversion Et; subst. exact H2.
      * destruct (c3 =? SEP)%N.
        -- inversion Et; subst. pose proof (adv_ln _ _ (flags_with_state_rel i2)). pose proof (adv1_ln _ c3 r3 E3). lia.
        -- destruct (term_ok tm i2); [|discriminate]. inversion Et; subst. exact H2.
    + destruct (i_s i) as [|c r] eqn:E; [discriminate|]. pose proof (adv1_ln i c r E).
      destruct (c =? c_star)%N.
      * destruct (zom_lookahead (adv1 i c r) || term_ok tm (adv1 i c r)); [|discriminate]. inversion H; subst. lia.
      * destruct (c =? c_dollar)%N; [|discriminate].
        destruct (zom_lookahead (adv1 i c r) || term_ok tm (adv1 i c r)); [|discriminate]. inversion H; subst. lia.
Qed.

Lemma head_test_ln : forall i k c r,
  (match i_s i with c0 :: r0 => if (c0 =? k)%N then Some (c0, r0) else None | [] => None end) = Some (c, r) -> S (ln (adv1 i c r)) = ln i.
Proof. intros i k c r H. apply head_test in H. apply adv1_ln. exact H. Qed.

Section Fuel.
Variable e : str.

(* a successful token consumes at least one character *)
Ltac leaf_tail_ln H iF HF :=
  match type of H with context [p_wildcard ?tm iF] =>
    let Ew := fresh "Ew" in
    destruct (p_wildcard tm iF) as [[? ?]|] eqn:Ew; cbn [leaf_tok] in H;
    [ inversion H; subst; clear H; apply p_wildcard_ln in Ew; lia
    | let Ec := fresh "Ec" in
      destruct (p_class iF) as [[? ?]|] eqn:Ec; cbn [leaf_tok] in H;
      [ inversion H; subst; clear H; apply p_class_ln in Ec; lia
      | match type of H with (match ?T with _ => _ end) = _ =>
          let Es := fresh "Es" in
          destruct T as [[? ?]|] eqn:Es; [|discriminate]; apply head_test_ln in Es; inversion H; subst; clear H; lia
        end ] ]
  end.

Lemma token_consumes : forall f tm i t i', p_token f tm i = POk (t, i') -> at_ e i -> ln i' < ln i.
Proof.
  intros f tm i t i' H Hat. destruct f as [|f]; [discriminate|]. cbn [p_token] in H.
  destruct (grammar_ok e f) as [_ [_ [Gb Gg]]].
  set (iF := flags_with_state i) in *.
  assert (HF : ln iF <= ln i) by apply adv_ln, flags_with_state_rel.
  assert (HatF : at_ e iF) by (eapply at_adv; [exact Hat|apply flags_with_state_rel]).
  destruct (p_literal iF) as [[l1 i1]|] eqn:El; cbn [leaf_tok] in H.
  { inversion H; subst. apply p_literal_ln in El. lia. }
  assert (AltTail :
    match
      match (match i_s iF with c :: r => if (c =? c_lbrace)%N then Some (c, r) else None | [] => None end) with
      | Some (c, r) =>
          match p_branches f (adv1 iF c r) with
          | PFuel => PFuel
          | PErr => POk None
          | POk (bs, i1) => match tag1 c_rbrace i1 with Some i2 => POk (Some (TAlt (mk_span i i2) bs, i2)) | None => POk None end
          end
      | None => POk None
      end
    with
    | PFuel => PFuel
    | PErr => PErr
    | POk (Some x) => POk x
    | POk None =>
        match leaf_tok i (p_wildcard tm iF) with
        | Some x => POk x
        | None => match leaf_tok i (p_class iF) with
                  | Some x => POk x
                  | None => match (match i_s iF with c :: r => if (c =? SEP)%N then Some (c, r) else None | [] => None end) with
                            | Some (c, r) => POk (TLeaf (mk_span i (adv1 iF c r)) LSep, adv1 iF c r)
                            | None => PErr
                            end
                  end
        end
    end = POk (t, i') -> ln i' < ln i).
  { intros HA.
    destruct (match i_s iF with c :: r => if (c =? c_lbrace)%N then Some (c, r) else None | [] => None end) as [[c r]|] eqn:Elb.
    - pose proof (head_test_ln _ _ _ _ Elb) as Hl. apply head_test in Elb.
      destruct (p_branches f (adv1 iF c r)) as [[bs i1]| |] eqn:Eb; [| |discriminate].
      + assert (Hat1 : at_ e (adv1 iF c r)) by (eapply at_adv; [exact HatF|apply adv1_rel; exact Elb]).
        destruct (Gb _ _ _ Eb Hat1) as [Hab _]. apply adv_ln in Hab.
        destruct (tag1 c_rbrace i1) as [i2|] eqn:Etg.
        * inversion HA; subst. apply tag1_rel, adv_ln in Etg. lia.
        * leaf_tail_ln HA iF HF.
      + leaf_tail_ln HA iF HF.
    - leaf_tail_ln HA iF HF. }
  destruct (match i_s iF with c :: r => if (c =? c_lt)%N then Some (c, r) else None | [] => None end) as [[c r]|] eqn:Elt.
  + pose proof (head_test_ln _ _ _ _ Elt) as Hl. apply head_test in Elt.
    destruct (p_glob f TermRep (adv1 iF c r)) as [[body i1]| |] eqn:Eg; [| |discriminate].
    * assert (Hat1 : at_ e (adv1 iF c r)) by (eapply at_adv; [exact HatF|apply adv1_rel; exact Elt]).
      destruct (Gg _ _ _ _ Eg Hat1) as [Hag _]. apply adv_ln in Hag.
      destruct (p_bounds i1) as [[lo hi] i2] eqn:Ebd. pose proof (adv_ln _ _ (p_bounds_rel _ _ _ Ebd)) as Hab.
      destruct (tag1 c_gt i2) as [i3|] eqn:Etg.
      -- inversion H; subst. apply tag1_rel, adv_ln in Etg. lia.
      -- apply AltTail. exact H.
    * apply AltTail. exact H.
  + apply AltTail. exact H.
Qed.

(* ---- the fuel suffices ---------------------------------------------------------------------------------------------- *)
Definition nf_tokens (f : nat) : Prop := forall tm i, at_ e i -> 4 * ln i + 2 <= f -> p_tokens f tm i <> PFuel.
Definition nf_token (f : nat) : Prop := forall tm i, at_ e i -> 4 * ln i + 1 <= f -> p_token f tm i <> PFuel.
Definition nf_branches (f : nat) : Prop := forall i, at_ e i -> 4 * ln i + 4 <= f -> p_branches f i <> PFuel.
Definition nf_glob (f : nat) : Prop := forall tm i, at_ e i -> 4 * ln i + 3 <= f -> p_glob f tm i <> PFuel.

Lemma step_nf : forall f, nf_tokens f -> nf_token f -> nf_branches f -> nf_glob f ->
  nf_tokens (S f) /\ nf_token (S f) /\ nf_branches (S f) /\ nf_glob (S f).
Proof.
  intros f IHts IHt IHb IHg. destruct (grammar_ok e f) as [Gts [Gt [Gb Gg]]]. split; [|split; [|split]].
  - intros tm i Hat Hf. cbn [p_tokens].
    destruct (p_token f tm i) as [[t i1]| |] eqn:Et; [|discriminate|exfalso; eapply IHt; [exact Hat| |exact Et]; lia].
    pose proof (token_consumes _ _ _ _ _ Et Hat) as Hc. destruct (Gt _ _ _ _ Et Hat) as [Ha _].
    destruct (p_tokens f tm i1) as [[ts' i2]| |] eqn:Ets; try discriminate.
    exfalso. eapply IHts; [eapply at_adv; eassumption| |exact Ets]. lia.
  - intros tm i Hat Hf. cbn [p_token].
    set (iF := flags_with_state i).
    assert (HF : ln iF <= ln i) by apply adv_ln, flags_with_state_rel.
    assert (HatF : at_ e iF) by (eapply at_adv; [exact Hat|apply flags_with_state_rel]).
    destruct (leaf_tok i (p_literal iF)); [discriminate|].
    assert (Alt : forall c r, (match i_s iF with c :: r => if (c =? c_lbrace)%N then Some (c, r) else None | [] => None end) = Some (c, r) ->
                    p_branches f (adv1 iF c r) <> PFuel).
    { intros c r Elb. pose proof (head_test_ln _ _ _ _ Elb) as Hl. apply head_test in Elb.
      apply IHb; [eapply at_adv; [exact HatF|apply adv1_rel; exact Elb]|lia]. }
    assert (Tail : forall x : pres (option (tok * input)), x <> PFuel ->
              match x with
              | PFuel => PFuel
              | PErr => PErr
              | POk (Some x) => POk x
              | POk None =>
                  match leaf_tok i (p_wildcard tm iF) with
                  | Some x => POk x
                  | None => match leaf_tok i (p_class iF) with
                            | Some x => POk x
                            | None => match (match i_s iF with c :: r => if (c =? SEP)%N then Some (c, r) else None | [] => None end) with
                                      | Some (c, r) => POk (TLeaf (mk_span i (adv1 iF c r)) LSep, adv1 iF c r)
                                      | None => PErr
                                      end
                            end
                  end
              end <> PFuel).
    { intros [[x|]| |] Hx; try discriminate; [|congruence].
      destruct (leaf_tok i (p_wildcard tm iF)); [discriminate|]. destruct (leaf_tok i (p_class iF)); [discriminate|].
      destruct (match i_s iF with c :: r => if (c =? SEP)%N then Some (c, r) else None | [] => None end) as [[? ?]|]; discriminate. }
    assert (AltOk : match (match i_s iF with c :: r => if (c =? c_lbrace)%N then Some (c, r) else None | [] => None end) with
                    | Some (c, r) =>
                        match p_branches f (adv1 iF c r) with
                        | PFuel => PFuel
                        | PErr => POk None
                        | POk (bs, i1) => match tag1 c_rbrace i1 with Some i2 => POk (Some (TAlt (mk_span i i2) bs, i2)) | None => POk None end
                        end
                    | None => POk None
                    end <> PFuel).
    { destruct (match i_s iF with c :: r => if (c =? c_lbrace)%N then Some (c, r) else None | [] => None end) as [[c r]|] eqn:Elb; [|discriminate].
      pose proof (Alt c r eq_refl) as Hb. destruct (p_branches f (adv1 iF c r)) as [[bs i1]| |]; [|discriminate|congruence].
      destruct (tag1 c_rbrace i1); discriminate. }
    destruct (match i_s iF with c :: r => if (c =? c_lt)%N then Some (c, r) else None | [] => None end) as [[c r]|] eqn:Elt.
    + pose proof (head_test_ln _ _ _ _ Elt) as Hl. apply head_test in Elt.
      assert (Hg : p_glob f TermRep (adv1 iF c r) <> PFuel).
      { apply IHg; [eapply at_adv; [exact HatF|apply adv1_rel; exact Elt]|lia]. }
      destruct (p_glob f TermRep (adv1 iF c r)) as [[body i1]| |]; [| |congruence].
      * destruct (p_bounds i1) as [[lo hi] i2]. destruct (tag1 c_gt i2); [discriminate|]. apply Tail. exact AltOk.
      * apply Tail. exact AltOk.
    + apply Tail. exact AltOk.
  - intros i Hat Hf. cbn [p_branches].
    destruct (p_glob f TermAlt i) as [[b i1]| |] eqn:Eg; [|discriminate|exfalso; eapply IHg; [exact Hat| |exact Eg]; lia].
    destruct (Gg _ _ _ _ Eg Hat) as [Hag _]. pose proof (adv_ln _ _ Hag) as Hl.
    destruct (match i_s i1 with c :: r => if (c =? c_comma)%N then Some (c, r) else None | [] => None end) as [[c r]|] eqn:Ec; [|discriminate].
    pose proof (head_test_ln _ _ _ _ Ec) as Hl1. apply head_test in Ec.
    destruct (p_branches f (adv1 i1 c r)) as [[bs' i2]| |] eqn:Eb; try discriminate.
    exfalso. eapply IHb; [|  |exact Eb]; [eapply at_adv; [eapply at_adv; eassumption|apply adv1_rel; exact Ec]|lia].
  - intros tm i Hat Hf. cbn [p_glob].
    destruct (p_tokens f tm (set_sub i)) as [[ts i1]| |] eqn:Ets; [|discriminate|].
    + destruct ts; [discriminate|]. destruct (term_ok tm i1); discriminate.
    + exfalso. eapply IHts; [eapply at_adv; [exact Hat|apply set_sub_rel]| |exact Ets]. unfold ln in *. cbn [set_sub i_s]. lia.
Qed.

Theorem grammar_nf : forall f, nf_tokens f /\ nf_token f /\ nf_branches f /\ nf_glob f.
Proof.
  induction f as [|f [H1 [H2 [H3 H4]]]].
  - split; [|split; [|split]]; intro; intros; lia.
  - apply step_nf; assumption.
Qed.

End Fuel.

(* C05: the parser model never runs out of fuel *)
Theorem parse_never_out_of_fuel : forall e, parse e <> ParseFuel.
Proof.
  intros e. unfold parse. destruct e as [|c e]; [discriminate|].
  assert (Hat : at_ (c :: e) (set_sub (init_input (c :: e)))) by (eapply at_adv; [apply at_init|apply set_sub_rel]).
  pose proof (proj1 (grammar_nf (c :: e) (parse_fuel (c :: e))) TermTop _ Hat) as H.
  destruct (p_tokens (parse_fuel (c :: e)) TermTop (set_sub (init_input (c :: e)))) as [[ts i1]| |]; [|discriminate|].
  - destruct ts; [discriminate|]. destruct (i_s i1); discriminate.
  - exfalso. apply H; [|reflexivity]. unfold parse_fuel, ln. cbn [set_sub init_input i_s]. lia.
Qed.

Theorem build_never_out_of_fuel : forall e, build e <> BuildFuel.
Proof.
  intros e. unfold build. pose proof (parse_never_out_of_fuel e) as H. destruct (parse e); [|discriminate|congruence].
  destruct (check t) as [[[k sp]|]|]; try discriminate. destruct (compile_ok (Encode.encode t)); discriminate.
Qed.
