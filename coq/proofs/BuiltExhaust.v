(* BuiltExhaust.v -- C09 for the flat globs that build: the rule-checker and parser side conditions of the flat theorem are discharged. *)
From Coq Require Import Arith Lia.
From WaxModel Require Import Base Token Regex Spec Encode Variance Fold Rule Parse Query Glob.
From WaxProofs Require Import SpecFacts EncodeLang FuelFacts ZomFacts ExhaustFacts BuiltFacts.

Lemma build_inv2 : forall e t r, build e = BuildOk t r -> parse e = ParseOk t /\ check t = Ok None.
Proof.
  intros e t r H. unfold build in H. destruct (parse e) as [t0| |] eqn:Ep; try discriminate.
  destruct (check t0) as [[[k sp]|]|s] eqn:Ec; try discriminate. destruct (compile_ok (encode t0)); [|discriminate]. inversion H; subst. auto.
Qed.

(* every flat glob that builds, does not end with a separator and reports "always exhaustive" matches everything beneath what it matches *)
Theorem built_flat_always_sound : forall orbit e sp ts r p z,
  build e = BuildOk (TCat sp ts) r -> forallb is_leaf ts = true ->
  is_exhaustive (TCat sp ts) = Ok Always -> last_not_sep ts -> nosep z = true ->
  Lang orbit (TCat sp ts) p -> Lang orbit (TCat sp ts) (p ++ SEP :: z).
Proof.
  intros orbit e sp ts r p z Hb Hl He Hlast Hz HL. destruct (build_inv2 _ _ _ Hb) as [Hp Hc].
  pose proof (built_no_adjacent_boundary_everywhere _ Hc sp ts (sub_refl _)) as Ha.
  pose proof (parse_no_adjacent_zom _ _ Hp) as Hzo. cbn [zom_ok] in Hzo. apply andb_prop in Hzo. destruct Hzo as [Hzo _]. apply negb_true_iff in Hzo.
  eapply flat_always_sound; eassumption.
Qed.
