(* FuelFacts.v -- the fuel of the breadth-first traversals of the model is adequate: giving them more fuel never changes
   their result, so the fuel exits are never taken (the rule checker's queue, the level-order enumeration of a tree). *)
From Coq Require Import Arith Lia.
From WaxModel Require Import Base Token Regex Encode Variance Fold Rule.
From WaxProofs Require Import SemanticFacts.
Local Open Scope nat_scope.

(* ---- level-order enumeration (Token::walk / bfs) ----------------------------------------------------------------------- *)
Lemma csize_flat_children : forall level, level <> [] -> csize (flat_map children level) < csize level.
Proof.
  induction level as [|t level IH]; intros H; [congruence|]. cbn [flat_map]. rewrite csize_app. cbn [csize fold_right]. fold (csize level).
  pose proof (csize_children t). destruct level as [|t' level']; [cbn in *; lia|]. specialize (IH ltac:(discriminate)). lia.
Qed.

Lemma bfs_levels_enough : forall f level k, csize level <= f -> bfs_levels (f + k) level = bfs_levels f level.
Proof.
  induction f as [|f IH]; intros level k H.
  - destruct level as [|t level]; [destruct k; reflexivity|]. cbn [csize fold_right] in H. pose proof (tsize_pos t). lia.
  - cbn [Nat.add bfs_levels]. destruct level as [|t level]; [reflexivity|]. f_equal. apply IH.
    pose proof (csize_flat_children (t :: level) ltac:(discriminate)). lia.
Qed.

Theorem bfs_fuel_adequate : forall t k, bfs_levels (tsize t + k) [t] = bfs t.
Proof. intros t k. unfold bfs. apply bfs_levels_enough. cbn. lia. Qed.

(* ---- the queue of the branch rules --------------------------------------------------------------------------------------- *)
Definition qsz (q : list (outer * tok)) : nat := fold_right (fun x a => tsize (snd x) + a) 0 q.

Lemma qsz_app : forall a b, qsz (a ++ b) = qsz a + qsz b.
Proof. induction a as [|x a IH]; intros b; cbn [app qsz fold_right]; [reflexivity|]. fold (qsz (a ++ b)) (qsz a). rewrite IH. lia. Qed.

Lemma qsz_map : forall o bs, qsz (map (fun b => (o, b)) bs) = csize bs.
Proof. intros o bs. induction bs as [|b bs IH]; [reflexivity|]. cbn [map qsz fold_right snd csize]. fold (qsz (map (fun b => (o, b)) bs)) (csize bs). rewrite IH. reflexivity. Qed.

Definition mid (x : option tok * tok * option tok) : tok := snd (fst x).

Lemma adjacent_aux_mid : forall ts l, map mid (adjacent_aux l ts) = ts.
Proof. induction ts as [|t ts IH]; intros l; [reflexivity|]. cbn [adjacent_aux map mid fst snd]. rewrite IH. reflexivity. Qed.

(* what one item adds to the queue is smaller than the item *)
Definition bstep (parent : outer) (acc : option (rule_kind * span) * list (outer * tok)) (x : option tok * tok * option tok) :=
  let '(err, q) := acc in
  let '(l, t, r) := x in
  match t with
  | TAlt sp bs =>
      let o := outer_or parent l r in
      let e := first_some_l
                 (fun b => match terminals_of (concatenation b) with
                           | Some tm => opt_first (check_branch tm o) (check_alternation tm o)
                           | None => None
                           end) bs in
      (opt_first err (option_map (fun k => (k, sp)) e), q ++ map (fun b => (o, b)) bs)
  | TRep sp b lo hi =>
      let o := outer_or parent l r in
      let e := match terminals_of (concatenation b) with
               | Some tm => opt_first (check_branch tm o) (check_repetition tm o lo hi)
               | None => None
               end in
      (opt_first err (option_map (fun k => (k, sp)) e), q ++ [(o, b)])
  | _ => acc
  end.

Lemma branch_item_eq : forall parent token,
  branch_item (parent, token) = fold_left (bstep parent) (adjacent (concatenation token)) (None, []).
Proof. reflexivity. Qed.

Lemma bstep_size : forall parent err q x, exists err' extra,
  bstep parent (err, q) x = (err', q ++ extra) /\ qsz extra + 1 <= tsize (mid x).
Proof.
  intros parent err q [[l t] r]. unfold bstep, mid. cbn [fst snd]. destruct t as [sp lf|sp bs|sp ts|sp b lo hi].
  - exists err, []. split; [rewrite app_nil_r; reflexivity|cbn; lia].
  - eexists _, _. split; [reflexivity|]. rewrite qsz_map. cbn [tsize]. fold (csize bs). lia.
  - exists err, []. split; [rewrite app_nil_r; reflexivity|cbn; lia].
  - eexists _, _. split; [reflexivity|]. cbn [qsz fold_right snd tsize]. lia.
Qed.

Lemma branch_fold_size : forall parent xs err q, exists err' extra,
  fold_left (bstep parent) xs (err, q) = (err', q ++ extra) /\ qsz extra + length xs <= csize (map mid xs).
Proof.
  intros parent xs. induction xs as [|x xs IH]; intros err q.
  - exists err, []. split; [cbn; rewrite app_nil_r; reflexivity|cbn; lia].
  - cbn [fold_left]. destruct (bstep_size parent err q x) as [e1 [x1 [E1 H1]]]. rewrite E1.
    destruct (IH e1 (q ++ x1)) as [e2 [x2 [E2 H2]]]. exists e2, (x1 ++ x2). split; [rewrite E2, app_assoc; reflexivity|].
    rewrite qsz_app. cbn [map csize fold_right length]. fold (csize (map mid xs)). lia.
Qed.

Lemma branch_item_size : forall item, qsz (snd (branch_item item)) < tsize (snd item).
Proof.
  intros [parent token]. rewrite branch_item_eq.
  destruct (branch_fold_size parent (adjacent (concatenation token)) None []) as [err' [extra [E Hs]]].
  rewrite E. cbn [snd app]. unfold adjacent in Hs. rewrite adjacent_aux_mid in Hs.
  pose proof (csize_concatenation token) as Hc.
  destruct token as [sp lf|sp bs|sp ts|sp b lo hi]; cbn [concatenation] in *; unfold adjacent in *; cbn [adjacent_aux length] in Hs; try lia.
  (* a concatenation: its own node is not counted among its children *)
  cbn [tsize]. fold (csize ts). assert (length (adjacent_aux None ts) = length ts) by (rewrite <- (adjacent_aux_mid ts None) at 2; rewrite map_length; reflexivity).
  destruct ts; [cbn in *; lia|]. cbn [length] in *. lia.
Qed.

Theorem branch_loop_enough : forall f q k, qsz q < f -> branch_loop (f + k) q = branch_loop f q.
Proof.
  induction f as [|f IH]; intros q k H; [lia|]. cbn [Nat.add branch_loop]. destruct q as [|item rest]; [reflexivity|].
  pose proof (branch_item_size item) as Hs. destruct (branch_item item) as [err more]. cbn [snd] in Hs.
  destruct err; [reflexivity|]. apply IH. rewrite qsz_app. cbn [qsz fold_right] in H. fold (qsz rest) in H. lia.
Qed.

Theorem rule_branch_fuel_adequate : forall t k, branch_loop (S (tsize t) + k) [(outer_default, t)] = rule_branch t.
Proof. intros t k. unfold rule_branch. apply branch_loop_enough. cbn. lia. Qed.

(* ---- the level-order enumeration reaches every node ---------------------------------------------------------------------- *)
Inductive sub : tok -> tok -> Prop :=     (* [sub x t]: x is t or one of its descendants *)
| sub_refl : forall t, sub t t
| sub_child : forall x c t, In c (children t) -> sub x c -> sub x t.

Lemma bfs_levels_reaches : forall x t, sub x t -> forall f level, In t level -> csize level <= f -> In x (bfs_levels f level).
Proof.
  intros x t H. induction H as [t|x c t Hc _ IH]; intros f level Hin Hf.
  - destruct f as [|f]; [exact Hin|]. cbn [bfs_levels]. destruct level; [contradiction|]. apply in_or_app. left. exact Hin.
  - destruct level as [|t0 level0] eqn:El; [contradiction|]. rewrite <- El in *.
    assert (Hne : level <> []) by (rewrite El; discriminate).
    pose proof (csize_flat_children level Hne) as Hlt.
    destruct f as [|f]; [pose proof (csize_nonempty level Hne); lia|].
    cbn [bfs_levels]. rewrite El. rewrite <- El. apply in_or_app. right. apply IH; [|lia].
    apply in_flat_map. exists t. split; assumption.
Qed.

Theorem bfs_reaches : forall x t, sub x t -> In x (bfs t).
Proof. intros x t H. unfold bfs. eapply bfs_levels_reaches; [exact H|left; reflexivity|cbn; lia]. Qed.

(* corollaries for the rules proved of the enumeration: they hold at every node *)
From WaxProofs Require Import RuleFacts.

Theorem built_bounds_everywhere : forall t, check t = Ok None -> forall x, sub x t -> bad_bounds x = false.
Proof.
  intros t H x Hx. pose proof (check_bounds t H) as Hall. rewrite Forall_forall in Hall. apply Hall. apply bfs_reaches. exact Hx.
Qed.

Theorem built_no_adjacent_boundary_everywhere : forall t, check t = Ok None ->
  forall sp ts, sub (TCat sp ts) t -> adjacent_boundary ts = None.
Proof.
  intros t H sp ts Hx. pose proof (check_boundary t H) as Hall. rewrite Forall_forall in Hall.
  exact (Hall _ (bfs_reaches _ _ Hx)).
Qed.
