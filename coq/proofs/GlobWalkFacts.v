(* GlobWalkFacts.v -- C02 end to end in the model: the walk of a glob, with the component programs the encoder builds for
   it, yields exactly the entries the complete program matches - for every glob whose literals are separator-free (every
   glob the parser produces), every directory tree with valid names, every engine that decides the regular languages. *)
From Coq Require Import Arith Lia.
From WaxModel Require Import Base Token Regex Spec Encode Variance Fold Rule Parse Query Walk.
From WaxProofs Require Import WalkFacts PruneFacts.
Local Open Scope nat_scope.

(* every name in the tree is non-empty and separator-free (what a file system guarantees) *)
Fixpoint names_valid (n : node) : Prop :=
  match n with
  | NDir kids => (fix go (ks : list (name * node)) : Prop :=
                    match ks with [] => True | k :: ks' => valid_name (fst k) /\ names_valid (snd k) /\ go ks' end) kids
  | _ => True
  end.

Lemma all_entries_valid : forall n p q, names_valid n -> Forall valid_name p -> In q (all_entries p n) -> Forall valid_name q.
Proof.
  induction n as [|kids IH| |] using node_ind'; intros p q Hn Hp H; cbn [all_entries] in H.
  - destruct H as [<-|[]]. exact Hp.
  - destruct H as [<-|H]; [exact Hp|]. cbn [names_valid] in Hn.
    induction IH as [|k ks Hk _ IHks]; [contradiction|]. destruct Hn as [Hv [Hnk Hns]].
    apply in_app_or in H. destruct H as [H|H]; [|apply IHks; assumption].
    eapply Hk; [exact Hnk| |exact H]. apply Forall_app. split; [exact Hp|constructor; [exact Hv|constructor]].
  - destruct H as [<-|[]]. exact Hp.
  - contradiction.
Qed.

Section GlobWalkComplete.
Variable orbit : char -> list char.
Hypothesis orbit_nosep : forall c d, In d (orbit c) -> d <> SEP.
Variable t : tok.
Hypothesis Hlits : lits_nosep t = true.
(* the matching engine decides the language of the programs it is given (the regex crate: trusted, tied by the correspondence) *)
Variable complete : str -> bool.
Hypothesis Hcomplete : forall w, complete w = true <-> sem orbit (encode t) w.
Variable progs : list (name -> bool).
Hypothesis Hprogs : Forall2 (fun (pr : name -> bool) r => forall w, pr w = true <-> sem orbit r w) progs (component_programs t).
Variable prefix : rpath.
Hypothesis Hprefix : Forall valid_name prefix.

Lemma prune_holds : forall rel, Forall valid_name rel -> complete (join_path rel) = true ->
  forall i c pr, nth_error rel i = Some c -> nth_error progs i = Some pr -> pr c = true.
Proof.
  intros rel Hv Hc i c pr Hi Hp. apply Hcomplete in Hc. unfold component_programs in Hprogs.
  destruct (tok_is_empty t); [inversion Hprogs; subst; destruct i; discriminate|].
  assert (Hnth : forall (ps : list (name -> bool)) cs, Forall2 (fun (pr : name -> bool) r => forall w, pr w = true <-> sem orbit r w) ps (map enc_component cs) ->
            forall i pr, nth_error ps i = Some pr -> exists comp, nth_error cs i = Some comp /\ forall w, pr w = true <-> sem orbit (enc_component comp) w).
  { clear. induction ps as [|p0 ps IH]; intros cs H i pr Hp; [destruct i; discriminate|].
    destruct cs as [|c0 cs]; inversion H; subst. destruct i as [|i].
    - cbn in Hp. inversion Hp; subst. exists c0. split; [reflexivity|assumption].
    - cbn [nth_error] in Hp |- *. eapply IH; eassumption. }
  destruct (Hnth _ _ Hprogs i pr Hp) as [comp [Hcomp Hpr]]. apply Hpr.
  eapply prune_sound; eassumption.
Qed.

(* C02: the walk yields exactly the entries whose path (below the directory given) the complete program matches, in
   pre-order, each once *)
Theorem glob_walk_complete : forall root, names_valid root ->
  yields (walk 0 None [glob_layer prefix progs complete] root) = filter (keeps prefix progs complete) (all_entries [] root).
Proof.
  intros root Hroot. rewrite walk_refines.
  apply (glob_walk_yields prefix progs complete (Forall valid_name) prune_holds root 0 []).
  intros q Hq. apply Forall_app. split; [exact Hprefix|]. eapply all_entries_valid; [exact Hroot|constructor|exact Hq].
Qed.

End GlobWalkComplete.

(* the conditional form: for arbitrary programs, given pruning soundness on every path *)
Lemma glob_walk_given_pruning : forall prefix (progs : list (name -> bool)) (complete : str -> bool),
  (forall rel, complete (join_path rel) = true ->
     forall i c pr, nth_error rel i = Some c -> nth_error progs i = Some pr -> pr c = true) ->
  forall root,
    yields (walk 0 None [glob_layer prefix progs complete] root) = filter (keeps prefix progs complete) (all_entries [] root).
Proof.
  intros prefix progs complete H root. rewrite walk_refines.
  apply (glob_walk_yields prefix progs complete (fun _ => True) (fun rel _ => H rel) root 0 []). intros; exact I.
Qed.

(* ---- C15: the depth window of a glob walk with a prefix ---------------------------------------------------------------------- *)
(* every entry a glob walk produces lies inside the configured window, measured from the directory given to the walk: its
   depth is the number of prefix components (the pivot) plus its depth below the directory the walk starts at.  The upper
   bound holds when the window reaches the pivot at all (below it the implementation still yields the starting directory:
   the known class max_below_prefix). *)
Theorem glob_walk_in_window : forall root prefix_text mind maxd progs complete rest e t s,
  In (REntry e t s) (glob_walk root prefix_text mind maxd progs complete rest) ->
  let pivot := length (split_components prefix_text) in
  mind <= pivot + length (e_path e) /\
  match maxd with Some m => pivot <= m -> pivot + length (e_path e) <= m | None => True end.
Proof.
  intros root prefix_text mind maxd progs complete rest e t s H pivot. unfold glob_walk, window_at_pivot in H. fold pivot in H.
  rewrite walk_refines in H. unfold walk_spec in H.
  apply entries_in_window in H; [|destruct maxd; reflexivity].
  destruct H as [k [Hl [Hm Ho]]]. cbn [length Nat.add] in *. rewrite Hl. split; [lia|].
  destruct maxd as [m|]; [|exact I]. intros Hp. cbn [over] in Ho. apply Nat.ltb_ge in Ho. lia.
Qed.

(* ---- C02 with a prefix: the walk starts below the directory given ------------------------------------------------------------ *)
(* sibling names are distinct (a file system guarantees it) *)
Fixpoint names_unique (n : node) : Prop :=
  match n with
  | NDir kids => NoDup (map fst kids) /\
                 (fix go (ks : list (name * node)) : Prop := match ks with [] => True | k :: ks' => names_unique (snd k) /\ go ks' end) kids
  | _ => True
  end.

Fixpoint strip (prefix q : rpath) : option rpath :=
  match prefix, q with
  | [], _ => Some q
  | c :: p', d :: q' => if str_eqb c d then strip p' q' else None
  | _ :: _, [] => None
  end.

(* the entries that lie at or below [prefix], relative to it, in order *)
Definition below (prefix : rpath) (l : list rpath) : list rpath :=
  flat_map (fun q => match strip prefix q with Some r => [r] | None => [] end) l.

Lemma str_eqb_refl : forall s, str_eqb s s = true.
Proof. induction s as [|c s IH]; [reflexivity|]. cbn [str_eqb]. rewrite N.eqb_refl. exact IH. Qed.

Lemma str_eqb_true : forall a b, str_eqb a b = true -> a = b.
Proof.
  induction a as [|c a IH]; intros [|d b] H; try reflexivity; try discriminate. cbn [str_eqb] in H. apply andb_prop in H.
  destruct H as [Hc Hs]. apply N.eqb_eq in Hc. subst. f_equal. apply IH. exact Hs.
Qed.

Lemma all_entries_shift : forall n p, all_entries p n = map (app p) (all_entries [] n).
Proof.
  induction n as [|kids IH| |] using node_ind'; intros p; cbn [all_entries map app]; try (rewrite app_nil_r; reflexivity); [|reflexivity].
  rewrite app_nil_r. f_equal. induction IH as [|k ks Hk _ IHks]; [reflexivity|]. rewrite map_app. rewrite IHks. f_equal.
  rewrite (Hk (p ++ [fst k])), (Hk [fst k]). rewrite map_map. apply map_ext. intros q. rewrite <- app_assoc. reflexivity.
Qed.

Lemma below_app : forall prefix a b, below prefix (a ++ b) = below prefix a ++ below prefix b.
Proof. intros. unfold below. apply flat_map_app. Qed.

Lemma below_cons_map : forall c p' d l, below (c :: p') (map (cons d) l) = if str_eqb c d then below p' l else [].
Proof.
  intros c p' d l. unfold below. destruct (str_eqb c d) eqn:E.
  - induction l as [|q l IH]; [reflexivity|]. cbn [map flat_map]. rewrite IH. cbn [strip]. rewrite E. reflexivity.
  - induction l as [|q l IH]; [reflexivity|]. cbn [map flat_map]. rewrite IH. cbn [strip]. rewrite E. reflexivity.
Qed.

Theorem lookup_entries : forall prefix root, names_unique root ->
  below prefix (all_entries [] root) = all_entries [] (lookup root prefix).
Proof.
  induction prefix as [|c p' IH]; intros root Hu.
  - cbn [lookup]. unfold below. cbn [strip]. induction (all_entries [] root) as [|q l IHl]; [reflexivity|]. cbn [flat_map app]. rewrite IHl. reflexivity.
  - destruct root as [|kids| |]; cbn [lookup all_entries]; try reflexivity.
    cbn [names_unique] in Hu. destruct Hu as [Hnd Hkids].
    match goal with |- below _ ([] :: ?l) = _ => change (below (c :: p') ([] :: l)) with (below (c :: p') l) end.
    induction kids as [|k ks IHks]; [reflexivity|]. cbn [map] in Hnd. inversion Hnd as [|? ? Hnotin Hnd']; subst. destruct Hkids as [Hk Hks].
    rewrite below_app. cbn [app]. rewrite (all_entries_shift (snd k) [fst k]). cbn [app].
    rewrite below_cons_map. cbn [find]. destruct (str_eqb (fst k) c) eqn:Ek.
    + apply str_eqb_true in Ek. subst c. rewrite str_eqb_refl. rewrite (IH (snd k) Hk).
      (* no other child has this name *)
      assert (Hrest : below (fst k :: p') ((fix go (ks0 : list (name * node)) : list rpath :=
                        match ks0 with [] => [] | k0 :: ks' => all_entries [fst k0] (snd k0) ++ go ks' end) ks) = []).
      { clear -Hnotin. induction ks as [|k2 ks IHk]; [reflexivity|]. rewrite below_app. rewrite (all_entries_shift (snd k2) [fst k2]). cbn [app].
        rewrite below_cons_map. destruct (str_eqb (fst k) (fst k2)) eqn:E; [apply str_eqb_true in E; exfalso; apply Hnotin; cbn [map In]; left; symmetry; exact E|].
        cbn [app]. apply IHk. intros Hin. apply Hnotin. cbn [map In]. right. exact Hin. }
      rewrite Hrest. cbn [find]. unfold name in *. rewrite ?str_eqb_refl. apply app_nil_r.
    + assert (Ekc : str_eqb c (fst k) = false).
      { destruct (str_eqb c (fst k)) eqn:E; [apply str_eqb_true in E; subst; rewrite str_eqb_refl in Ek; discriminate|reflexivity]. }
      rewrite Ekc. cbn [app find]. unfold name in *. rewrite Ek. apply IHks; assumption.
Qed.

Lemma nosep_rev : forall s, nosep (rev s) = nosep s.
Proof.
  induction s as [|c s IH]; [reflexivity|]. cbn [rev]. rewrite nosep_app. cbn [nosep forallb]. fold (nosep s). rewrite IH.
  destruct (negb (c =? SEP)%N), (nosep s); reflexivity.
Qed.

Lemma split_aux_valid : forall s cur, nosep cur = true -> Forall valid_name (split_aux s cur).
Proof.
  induction s as [|c s IH]; intros cur Hc; cbn [split_aux].
  - destruct cur as [|d cur'] eqn:E; [constructor|]. cbn [is_nil]. constructor; [|constructor]. split.
    + intros H. apply (f_equal (@length char)) in H. rewrite rev_length in H. discriminate.
    + rewrite nosep_rev. exact Hc.
  - destruct (N.eqb_spec c SEP) as [->|Hne].
    + destruct cur as [|d cur'] eqn:E; cbn [is_nil]; [apply IH; reflexivity|]. constructor; [|apply IH; reflexivity]. split.
      * intros H. apply (f_equal (@length char)) in H. rewrite rev_length in H. discriminate.
      * rewrite nosep_rev. exact Hc.
    + apply IH. cbn [nosep forallb]. fold (nosep cur). rewrite Hc. apply N.eqb_neq in Hne. rewrite Hne. reflexivity.
Qed.

Lemma split_components_valid : forall s, Forall valid_name (split_components s).
Proof. intros s. apply split_aux_valid. reflexivity. Qed.

Lemma lookup_valid : forall p root, names_valid root -> names_valid (lookup root p).
Proof.
  induction p as [|c p IH]; intros root H; [exact H|]. destruct root as [|kids| |]; cbn [lookup]; try exact I.
  cbn [names_valid] in H. induction kids as [|k ks IHk]; [exact I|]. cbn [find]. destruct H as [_ [Hk Hks]].
  unfold name in *. destruct (str_eqb (fst k) c); [apply IH; exact Hk|apply IHk; exact Hks].
Qed.

Section PrefixedGlobWalk.
Variable orbit : char -> list char.
Hypothesis orbit_nosep : forall c d, In d (orbit c) -> d <> SEP.
Variable t : tok.
Hypothesis Hlits : lits_nosep t = true.
Variable complete : str -> bool.
Hypothesis Hcomplete : forall w, complete w = true <-> sem orbit (encode t) w.
Variable progs : list (name -> bool).
Hypothesis Hprogs : Forall2 (fun (pr : name -> bool) r => forall w, pr w = true <-> sem orbit r w) progs (component_programs t).

(* C02 for a glob with an invariant prefix: the walk starts at the directory the prefix names, below the directory given;
   what it yields - relative to that starting directory - are exactly the entries of the *whole* tree that lie at or below
   the prefix and that the complete program matches (their paths taken from the directory given) *)
Theorem prefixed_glob_walk_complete : forall root prefix_text,
  names_valid root -> names_unique root ->
  glob_walk_root root prefix_text = lookup root (split_components prefix_text) ->
  yields (glob_walk root prefix_text 0 None progs complete []) =
  filter (keeps (split_components prefix_text) progs complete) (below (split_components prefix_text) (all_entries [] root)).
Proof.
  intros root ptext Hv Hu Hroot. unfold glob_walk, window_at_pivot. cbn [Nat.sub]. rewrite Hroot.
  rewrite (glob_walk_complete orbit orbit_nosep t Hlits complete Hcomplete progs Hprogs (split_components ptext) (split_components_valid ptext)
             (lookup root (split_components ptext)) (lookup_valid _ _ Hv)).
  rewrite (lookup_entries (split_components ptext) root Hu). reflexivity.
Qed.

End PrefixedGlobWalk.
