(* GlobWalkFacts.v -- C02 end to end in the model: the walk of a glob, with the component programs the encoder builds for
   it, yields exactly the entries the complete program matches - for every glob whose literals are separator-free (every
   glob the parser produces), every directory tree with valid names, every engine that decides the regular languages. *)
From Coq Require Import Arith Lia.
From WaxModel Require Import Base Token Regex Spec Encode Variance Fold Rule Parse Query Walk.
From WaxProofs Require Import WalkFacts PruneFacts.
Local Open Scope nat_scope.

(* every name in the tree is non-empty and separator-free (what a file system guarantees) *)
Fixpoint names_valid (n : node) : Prop :=
  match n with
  | NDir kids => (fix go (ks : list (name * node)) : Prop :=
                    match ks with [] => True | k :: ks' => valid_name (fst k) /\ names_valid (snd k) /\ go ks' end) kids
  | _ => True
  end.

Lemma all_entries_valid : forall n p q, names_valid n -> Forall valid_name p -> In q (all_entries p n) -> Forall valid_name q.
Proof.
  induction n as [|kids IH| |] using node_ind'; intros p q Hn Hp H; cbn [all_entries] in H.
  - destruct H as [<-|[]]. exact Hp.
  - destruct H as [<-|H]; [exact Hp|]. cbn [names_valid] in Hn.
    induction IH as [|k ks Hk _ IHks]; [contradiction|]. destruct Hn as [Hv [Hnk Hns]].
    apply in_app_or in H. destruct H as [H|H]; [|apply IHks; assumption].
    eapply Hk; [exact Hnk| |exact H]. apply Forall_app. split; [exact Hp|constructor; [exact Hv|constructor]].
  - destruct H as [<-|[]]. exact Hp.
  - contradiction.
Qed.

Section GlobWalkComplete.
Variable orbit : char -> list char.
Hypothesis orbit_nosep : forall c d, In d (orbit c) -> d <> SEP.
Variable t : tok.
Hypothesis Hlits : lits_nosep t = true.
(* the matching engine decides the language of the programs it is given (the regex crate: trusted, tied by the correspondence) *)
Variable complete : str -> bool.
Hypothesis Hcomplete : forall w, complete w = true <-> sem orbit (encode t) w.
Variable progs : list (name -> bool).
Hypothesis Hprogs : Forall2 (fun (pr : name -> bool) r => forall w, pr w = true <-> sem orbit r w) progs (component_programs t).
Variable prefix : rpath.
Hypothesis Hprefix : Forall valid_name prefix.

Lemma prune_holds : forall rel, Forall valid_name rel -> complete (join_path rel) = true ->
  forall i c pr, nth_error rel i = Some c -> nth_error progs i = Some pr -> pr c = true.
Proof.
  intros rel Hv Hc i c pr Hi Hp. apply Hcomplete in Hc. unfold component_programs in Hprogs.
  destruct (tok_is_empty t); [inversion Hprogs; subst; destruct i; discriminate|].
  assert (Hnth : forall (ps : list (name -> bool)) cs, Forall2 (fun (pr : name -> bool) r => forall w, pr w = true <-> sem orbit r w) ps (map enc_component cs) ->
            forall i pr, nth_error ps i = Some pr -> exists comp, nth_error cs i = Some comp /\ forall w, pr w = true <-> sem orbit (enc_component comp) w).
  { clear. induction ps as [|p0 ps IH]; intros cs H i pr Hp; [destruct i; discriminate|].
    destruct cs as [|c0 cs]; inversion H; subst. destruct i as [|i].
    - cbn in Hp. inversion Hp; subst. exists c0. split; [reflexivity|assumption].
    - cbn [nth_error] in Hp |- *. eapply IH; eassumption. }
  destruct (Hnth _ _ Hprogs i pr Hp) as [comp [Hcomp Hpr]]. apply Hpr.
  eapply prune_sound; eassumption.
Qed.

(* C02: the walk yields exactly the entries whose path (below the directory given) the complete program matches, in
   pre-order, each once *)
Theorem glob_walk_complete : forall root, names_valid root ->
  yields (walk 0 None [glob_layer prefix progs complete] root) = filter (keeps prefix progs complete) (all_entries [] root).
Proof.
  intros root Hroot. rewrite walk_refines.
  apply (glob_walk_yields prefix progs complete (Forall valid_name) prune_holds root 0 []).
  intros q Hq. apply Forall_app. split; [exact Hprefix|]. eapply all_entries_valid; [exact Hroot|constructor|exact Hq].
Qed.

End GlobWalkComplete.

(* the conditional form: for arbitrary programs, given pruning soundness on every path *)
Lemma glob_walk_given_pruning : forall prefix (progs : list (name -> bool)) (complete : str -> bool),
  (forall rel, complete (join_path rel) = true ->
     forall i c pr, nth_error rel i = Some c -> nth_error progs i = Some pr -> pr c = true) ->
  forall root,
    yields (walk 0 None [glob_layer prefix progs complete] root) = filter (keeps prefix progs complete) (all_entries [] root).
Proof.
  intros prefix progs complete H root. rewrite walk_refines.
  apply (glob_walk_yields prefix progs complete (fun _ => True) (fun rel _ => H rel) root 0 []). intros; exact I.
Qed.

(* ---- C15: the depth window of a glob walk with a prefix ---------------------------------------------------------------------- *)
(* every entry a glob walk produces lies inside the configured window, measured from the directory given to the walk: its
   depth is the number of prefix components (the pivot) plus its depth below the directory the walk starts at.  The upper
   bound holds when the window reaches the pivot at all (below it the implementation still yields the starting directory:
   the known class max_below_prefix). *)
Theorem glob_walk_in_window : forall root prefix_text mind maxd progs complete rest e t s,
  In (REntry e t s) (glob_walk root prefix_text mind maxd progs complete rest) ->
  let pivot := length (split_components prefix_text) in
  mind <= pivot + length (e_path e) /\
  match maxd with Some m => pivot <= m -> pivot + length (e_path e) <= m | None => True end.
Proof.
  intros root prefix_text mind maxd progs complete rest e t s H pivot. unfold glob_walk, window_at_pivot in H. fold pivot in H.
  rewrite walk_refines in H. unfold walk_spec in H.
  apply entries_in_window in H; [|destruct maxd; reflexivity].
  destruct H as [k [Hl [Hm Ho]]]. cbn [length Nat.add] in *. rewrite Hl. split; [lia|].
  destruct maxd as [m|]; [|exact I]. intros Hp. cbn [over] in Ho. apply Nat.ltb_ge in Ho. lia.
Qed.
