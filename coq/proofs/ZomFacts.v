(* ZomFacts.v -- C06: the parser itself never produces two adjacent zero-or-more wildcards inside one concatenation
   (`**` is a tree wildcard, `*$`, `$*`, `$$`, `*(?i)*` ... do not parse): a zero-or-more wildcard is only read when
   what follows it (after flags) is not `*` or `$`, or is the terminator of the sub-expression. *)
From Coq Require Import Arith Lia.
From WaxModel Require Import Base Token Regex Spec Parse.
Local Open Scope nat_scope.

Definition head_in (s : str) (cs : list char) : bool := match s with c :: _ => mem c cs | [] => false end.
Definition zom_head (i : input) : bool := head_in (i_s (flags_with_state i)) [c_star; c_dollar].

Fixpoint adj_zom (ts : list tok) : bool :=
  match ts with
  | a :: ((b :: _) as r) => (is_zom a && is_zom b) || adj_zom r
  | _ => false
  end.

(* no concatenation anywhere in the tree has two adjacent zero-or-more wildcards *)
Fixpoint zom_ok (t : tok) : bool :=
  match t with
  | TLeaf _ _ => true
  | TAlt _ bs => forallb zom_ok bs
  | TCat _ ts => negb (adj_zom ts) && forallb zom_ok ts
  | TRep _ b _ _ => zom_ok b
  end.

Lemma flags_without_text : forall i, i_s (flags_without_state i) = i_s (flags_with_state i).
Proof. intros i. reflexivity. Qed.

Lemma zom_lookahead_head : forall i, zom_lookahead i = true -> zom_head i = false.
Proof.
  intros i H. unfold zom_lookahead in H. unfold zom_head, head_in. rewrite flags_without_text in H.
  destruct (i_s (flags_with_state i)) as [|c r]; [reflexivity|]. unfold mem. cbn [existsb]. apply negb_true_iff in H.
  apply orb_false_iff in H. destruct H as [H1 H2]. rewrite H1, H2. reflexivity.
Qed.

(* a zero-or-more wildcard is only produced by the wildcard parser, at `*` or `$`, and what follows it is not `*` / `$` or is
   the terminator *)
Lemma p_wildcard_zom : forall tm i lz i', p_wildcard tm i = Some (LZom lz, i') ->
  head_in (i_s i) [c_star; c_dollar] = true /\ (zom_lookahead i' = true \/ term_ok tm i' = true).
Proof.
  intros tm i lz i' H. unfold p_wildcard in H. cbv zeta in H.
  destruct (match i_s i with d :: _ => (d =? c_qmark)%N | [] => false end).
  - destruct (i_s i); inversion H.
  - match type of H with (match ?T with Some x => Some x | None => _ end) = _ => destruct T as [[l1 i1]|] eqn:Et end.
    + inversion H; subst. exfalso. clear H.
      repeat match type of Et with
             | context [match ?x with _ => _ end] =>
                 lazymatch x with
                 | context [match _ with _ => _ end] => fail
                 | _ => destruct x
                 end
             end; try discriminate; inversion Et.
    + destruct (i_s i) as [|c r] eqn:E; [discriminate|]. unfold head_in, mem. cbn [existsb].
      destruct (c =? c_star)%N eqn:Es.
      * destruct (zom_lookahead (adv1 i c r) || term_ok tm (adv1 i c r)) eqn:El; [|discriminate]. inversion H; subst.
        split; [reflexivity|]. apply orb_prop in El. exact El.
      * destruct (c =? c_dollar)%N eqn:Ed; [|discriminate].
        destruct (zom_lookahead (adv1 i c r) || term_ok tm (adv1 i c r)) eqn:El; [|discriminate]. inversion H; subst.
        split; [reflexivity|]. apply orb_prop in El. exact El.
Qed.

Lemma flags_noop_head : forall i, (match i_s i with c :: _ => (c =? c_lparen)%N | [] => false end) = false -> flags_with_state i = i.
Proof.
  intros i H. unfold flags_with_state. destruct (length (i_s i)) as [|n]; [reflexivity|]. cbn [flags_with_state_f].
  unfold flag_group. destruct (i_s i) as [|c1 [|c2 r]]; try reflexivity. rewrite H. reflexivity.
Qed.

Lemma term_not_zom_head : forall tm i, term_ok tm i = true -> zom_head i = false.
Proof.
  intros tm i H. unfold zom_head. unfold term_ok in H. destruct tm; destruct (i_s i) as [|c r] eqn:E; try discriminate.
  - rewrite flags_noop_head; [rewrite E; reflexivity|rewrite E; reflexivity].
  - apply orb_prop in H. rewrite flags_noop_head; rewrite E.
    + unfold head_in, mem. cbn [existsb]. destruct H as [H|H]; apply N.eqb_eq in H; subst c; reflexivity.
    + destruct H as [H|H]; apply N.eqb_eq in H; subst c; reflexivity.
  - apply orb_prop in H. rewrite flags_noop_head; rewrite E.
    + unfold head_in, mem. cbn [existsb]. destruct H as [H|H]; apply N.eqb_eq in H; subst c; reflexivity.
    + destruct H as [H|H]; apply N.eqb_eq in H; subst c; reflexivity.
Qed.

(* one token: a zero-or-more wildcard begins (after flags) with `*` or `$` and is followed by something that does not *)
Lemma p_token_zom : forall f tm i sp lz i', p_token f tm i = POk (TLeaf sp (LZom lz), i') ->
  zom_head i = true /\ zom_head i' = false.
Proof.
  intros f tm i sp lz i' H. destruct f as [|f]; [discriminate|]. cbn [p_token] in H. set (iF := flags_with_state i) in *.
  destruct (p_literal iF) as [[l1 i1]|] eqn:El; cbn [leaf_tok] in H.
  { inversion H; subst. unfold p_literal in El. destruct (lit_chars (i_s iF)) as [[tx rs]|]; [|discriminate]. destruct (is_nil tx); [discriminate|]. inversion El. }
  assert (Tail : forall (x : pres (option (tok * input))),
     (forall y, x = POk (Some y) -> fst y <> TLeaf sp (LZom lz)) ->
     match x with
     | PFuel => PFuel
     | PErr => PErr
     | POk (Some x) => POk x
     | POk None =>
         match leaf_tok i (p_wildcard tm iF) with
         | Some x => POk x
         | None => match leaf_tok i (p_class iF) with
                   | Some x => POk x
                   | None => match (match i_s iF with c :: r => if (c =? SEP)%N then Some (c, r) else None | [] => None end) with
                             | Some (c, r) => POk (TLeaf (mk_span i (adv1 iF c r)) LSep, adv1 iF c r)
                             | None => PErr
                             end
                   end
         end
     end = POk (TLeaf sp (LZom lz), i') -> zom_head i = true /\ zom_head i' = false).
  { intros x Hx HA. destruct x as [[y|]| |]; try discriminate.
    - inversion HA; subst. exfalso. eapply Hx; reflexivity.
    - destruct (p_wildcard tm iF) as [[lw iw]|] eqn:Ew; cbn [leaf_tok] in HA.
      + inversion HA; subst. apply p_wildcard_zom in Ew. destruct Ew as [Hh Hpost]. split; [exact Hh|].
        destruct Hpost as [Hl|Ht]; [apply zom_lookahead_head; exact Hl|eapply term_not_zom_head; exact Ht].
      + destruct (p_class iF) as [[lc ic]|] eqn:Ec; cbn [leaf_tok] in HA.
        * inversion HA; subst. unfold p_class in Ec. exfalso.
          repeat match type of Ec with
                 | context [match ?x with _ => _ end] =>
                     lazymatch x with
                     | context [match _ with _ => _ end] => fail
                     | _ => destruct x
                     end
                 end; try discriminate; inversion Ec.
        * destruct (match i_s iF with c :: r => if (c =? SEP)%N then Some (c, r) else None | [] => None end) as [[c r]|]; [|discriminate]. inversion HA. }
  match type of H with
  | match ?R with _ => _ end = _ => destruct R as [[y|]| |] eqn:ER; try discriminate
  end.
  - (* a repetition *) inversion H; subst. exfalso.
    destruct (match i_s iF with c :: r => if (c =? c_lt)%N then Some (c, r) else None | [] => None end) as [[c r]|]; [|discriminate].
    destruct (p_glob f TermRep (adv1 iF c r)) as [[body i1]| |]; try discriminate.
    destruct (p_bounds i1) as [[lo hi] i2]. destruct (tag1 c_gt i2); inversion ER.
  - revert H. match goal with |- match ?A with _ => _ end = _ -> _ => intros H; apply (Tail A); [|exact H] end.
    intros y Hy. destruct (match i_s iF with c :: r => if (c =? c_lbrace)%N then Some (c, r) else None | [] => None end) as [[c r]|]; [|discriminate].
    destruct (p_branches f (adv1 iF c r)) as [[bs i1]| |]; try discriminate. destruct (tag1 c_rbrace i1); inversion Hy. cbn. discriminate.
Qed.

(* ---- the grammar --------------------------------------------------------------------------------------------------------------- *)
Definition first_zom (ts : list tok) : bool := match ts with t0 :: _ => is_zom t0 | [] => false end.

Definition tokens_z (f : nat) : Prop := forall tm i ts i', p_tokens f tm i = POk (ts, i') ->
  adj_zom ts = false /\ forallb zom_ok ts = true /\ (first_zom ts = true -> zom_head i = true).
Definition token_z (f : nat) : Prop := forall tm i t i', p_token f tm i = POk (t, i') -> zom_ok t = true.
Definition branches_z (f : nat) : Prop := forall i bs i', p_branches f i = POk (bs, i') -> forallb zom_ok bs = true.
Definition glob_z (f : nat) : Prop := forall tm i t i', p_glob f tm i = POk (t, i') -> zom_ok t = true.

Ltac leaf_tail_z H :=
  match type of H with context [p_wildcard ?tm ?iF] =>
    destruct (p_wildcard tm iF) as [[? ?]|]; cbn [leaf_tok] in H;
    [ inversion H; subst; reflexivity
    | destruct (p_class iF) as [[? ?]|]; cbn [leaf_tok] in H;
      [ inversion H; subst; reflexivity
      | match type of H with (match ?T with _ => _ end) = _ =>
          destruct T as [[? ?]|]; [|discriminate]; inversion H; subst; reflexivity
        end ] ]
  end.

Lemma step_z : forall f, tokens_z f -> token_z f -> branches_z f -> glob_z f ->
  tokens_z (S f) /\ token_z (S f) /\ branches_z (S f) /\ glob_z (S f).
Proof.
  intros f IHts IHt IHb IHg. split; [|split; [|split]].
  - intros tm i ts i' H. cbn [p_tokens] in H.
    destruct (p_token f tm i) as [[t i1]| |] eqn:Et; [| |discriminate].
    + destruct (p_tokens f tm i1) as [[ts' i2]| |] eqn:Ets; try discriminate. inversion H; subst.
      destruct (IHts _ _ _ _ Ets) as [Ha [Hz Hf]]. pose proof (IHt _ _ _ _ Et) as Hzt.
      assert (Hzom : is_zom t = true -> zom_head i = true /\ zom_head i1 = false).
      { intros Hiz. destruct t as [sp [| | | |lz|]| | |]; try discriminate. eapply p_token_zom. exact Et. }
      split; [|split].
      * cbn [adj_zom]. destruct ts' as [|t2 ts'']; [reflexivity|]. rewrite Ha, orb_false_r.
        destruct (is_zom t) eqn:E1; [|reflexivity]. destruct (is_zom t2) eqn:E2; [|reflexivity]. exfalso.
        destruct (Hzom eq_refl) as [_ Hn]. cbn [first_zom] in Hf. rewrite (Hf E2) in Hn. discriminate.
      * cbn [forallb]. rewrite Hzt, Hz. reflexivity.
      * cbn [first_zom]. intros Hiz. exact (proj1 (Hzom Hiz)).
    + inversion H; subst. split; [reflexivity|]. split; [reflexivity|]. discriminate.
  - intros tm i t i' H. cbn [p_token] in H. set (iF := flags_with_state i) in *.
    destruct (p_literal iF) as [[l1 i1]|] eqn:El; cbn [leaf_tok] in H.
    { inversion H; subst. reflexivity. }
    assert (AltTail :
      match
        match (match i_s iF with c :: r => if (c =? c_lbrace)%N then Some (c, r) else None | [] => None end) with
        | Some (c, r) =>
            match p_branches f (adv1 iF c r) with
            | PFuel => PFuel
            | PErr => POk None
            | POk (bs, i1) => match tag1 c_rbrace i1 with Some i2 => POk (Some (TAlt (mk_span i i2) bs, i2)) | None => POk None end
            end
        | None => POk None
        end
      with
      | PFuel => PFuel
      | PErr => PErr
      | POk (Some x) => POk x
      | POk None =>
          match leaf_tok i (p_wildcard tm iF) with
          | Some x => POk x
          | None => match leaf_tok i (p_class iF) with
                    | Some x => POk x
                    | None => match (match i_s iF with c :: r => if (c =? SEP)%N then Some (c, r) else None | [] => None end) with
                              | Some (c, r) => POk (TLeaf (mk_span i (adv1 iF c r)) LSep, adv1 iF c r)
                              | None => PErr
                              end
                    end
          end
      end = POk (t, i') -> zom_ok t = true).
    { intros HA.
      destruct (match i_s iF with c :: r => if (c =? c_lbrace)%N then Some (c, r) else None | [] => None end) as [[c r]|] eqn:Elb.
      - destruct (p_branches f (adv1 iF c r)) as [[bs i1]| |] eqn:Eb; [| |discriminate].
        + destruct (tag1 c_rbrace i1) as [i2|] eqn:Etg.
          * inversion HA; subst. cbn [zom_ok]. eapply IHb. exact Eb.
          * leaf_tail_z HA.
        + leaf_tail_z HA.
      - leaf_tail_z HA. }
    destruct (match i_s iF with c :: r => if (c =? c_lt)%N then Some (c, r) else None | [] => None end) as [[c r]|] eqn:Elt.
    + destruct (p_glob f TermRep (adv1 iF c r)) as [[body i1]| |] eqn:Eg; [| |discriminate].
      * destruct (p_bounds i1) as [[lo hi] i2] eqn:Ebd.
        destruct (tag1 c_gt i2) as [i3|] eqn:Etg.
        -- inversion H; subst. cbn [zom_ok]. eapply IHg. exact Eg.
        -- apply AltTail. exact H.
      * apply AltTail. exact H.
    + apply AltTail. exact H.
  - intros i bs i' H. cbn [p_branches] in H.
    destruct (p_glob f TermAlt i) as [[b i1]| |] eqn:Eg; try discriminate. pose proof (IHg _ _ _ _ Eg) as Hb.
    destruct (match i_s i1 with c :: r => if (c =? c_comma)%N then Some (c, r) else None | [] => None end) as [[c r]|] eqn:Ec.
    + destruct (p_branches f (adv1 i1 c r)) as [[bs' i2]| |] eqn:Eb; [| |discriminate].
      * inversion H; subst. cbn [forallb]. rewrite Hb, (IHb _ _ _ Eb). reflexivity.
      * inversion H; subst. cbn [forallb]. rewrite Hb. reflexivity.
    + inversion H; subst. cbn [forallb]. rewrite Hb. reflexivity.
  - intros tm i t i' H. cbn [p_glob] in H.
    destruct (p_tokens f tm (set_sub i)) as [[ts i1]| |] eqn:Ets; try discriminate.
    destruct ts as [|t0 ts']; [discriminate|]. destruct (term_ok tm i1); [|discriminate]. inversion H; subst.
    destruct (IHts _ _ _ _ Ets) as [Ha [Hz _]]. cbn [zom_ok]. rewrite Ha, Hz. reflexivity.
Qed.

Theorem grammar_z : forall f, tokens_z f /\ token_z f /\ branches_z f /\ glob_z f.
Proof.
  induction f as [|f [H1 [H2 [H3 H4]]]].
  - split; [|split; [|split]]; intro; intros; cbn in *; discriminate.
  - apply step_z; assumption.
Qed.

(* C06: no concatenation of a parsed expression, at any depth, has two adjacent zero-or-more wildcards *)
Theorem parse_no_adjacent_zom : forall e t, parse e = ParseOk t -> zom_ok t = true.
Proof.
  intros e t H. unfold parse in H. destruct e as [|c e]; [inversion H; subst; reflexivity|].
  destruct (p_tokens (parse_fuel (c :: e)) TermTop (set_sub (init_input (c :: e)))) as [[ts i1]| |] eqn:E; try discriminate.
  destruct ts as [|t0 ts]; [discriminate|]. destruct (i_s i1); [|discriminate]. inversion H; subst.
  destruct (proj1 (grammar_z _) _ _ _ _ E) as [Ha [Hz _]]. cbn [zom_ok]. rewrite Ha, Hz. reflexivity.
Qed.
