(* DepthRootedRep.v -- C10 with repetitions and the rootedness condition stated through the query has_root, as in the property's
   quantifier: for a glob that builds, with repetitions that are written out at least once, have a single depth term and a body that
   begins and ends with a leaf, and that starts plainly (never "sometimes rooted"), every canonical path of the documented language
   that begins with a separator exactly when the glob reports "always rooted" has a component count within the reported variance. *)
From Coq Require Import Arith Lia.
From WaxModel Require Import Base Token Regex Spec Encode Variance Fold Rule Parse Query Glob.
From WaxProofs Require Import AlgebraClosure SpecFacts EncodeLang RuleFacts DepthFacts ExhaustFacts PruneFacts DepthTreeFacts DepthAltFacts DepthRepFacts BuiltNonempty RuleAdjFacts ParseShape RootFacts BuiltDepth DepthRooted.
From WaxProofs Require Import AlgebraFacts BuiltFacts RuleAdjRep RuleZomRep RootRep RepClosed PartitionRootRep.
Local Open Scope N_scope.

Lemma required_lower_bounded : forall lo hi, 1 <= lo -> (match hi with Some h => lo <= h | None => True end) -> nr_lower (rep_range lo hi) <> NBUnb.
Proof.
  intros lo hi Hlo Hhi Hc. unfold rep_range, from_closed_open in Hc.
  destruct hi as [h|].
  - assert (E : (h <? lo) = false) by (apply N.ltb_ge; exact Hhi). rewrite E in Hc.
    destruct lo; [lia|]. unfold try_lower_upper in Hc; repeat break_if_in Hc; cbn in Hc; try discriminate; arith_hyps; try lia.
  - destruct lo; [lia|]. unfold try_lower_upper in Hc. cbn in Hc. discriminate.
Qed.

(* the verdict of the root query decides how every expansion begins *)
Lemma root_expansions_r : forall t, tok_bounds_ok t -> nonempty_branches t = true -> shr t = true -> forall w, has_root_fold t = Some w -> w <> Sometimes ->
  forall x, Expands t x -> hd_rooting x = (match w with Always => true | _ => false end).
Proof.
  induction t as [sp l|sp bs IH|sp ts IH|sp b lo hi IH] using tok_ind'; intros Hbd Hn Hr w Hw Hns x Hx.
  - inversion Hx; subst. cbn [has_root_fold] in Hw. inversion Hw; subst. cbn [hd_rooting]. destruct (leaf_is_rooting l); reflexivity.
  - inversion Hx as [|sp0 bs0 bb x0 Hin Hxb| |]; subst. cbn [nonempty_branches shr has_root_fold] in *. apply andb_prop in Hn. destruct Hn as [Hnil Hn].
    rewrite forallb_forall in Hn, Hr. rewrite Forall_forall in IH. specialize (Hr bb Hin). apply andb_prop in Hr.
    destruct (has_root_fold_some bb (Hn bb Hin)) as [wb Hwb].
    assert (Hinw : In wb (flat_map (fun b => opt_list (has_root_fold b)) bs)) by (apply in_flat_map; exists bb; split; [exact Hin|rewrite Hwb; left; reflexivity]).
    destruct (flat_map (fun b => opt_list (has_root_fold b)) bs) as [|a l] eqn:Ef; [contradiction|]. cbn [reduce_pure] in Hw. inversion Hw as [Hfold].
    destruct (certainty_fold l a w Hfold Hns) as [Ha Hl]. assert (wb = w) by (destruct Hinw as [<-|Hinl]; [exact Ha|rewrite Forall_forall in Hl; exact (Hl wb Hinl)]). subst wb.
    rewrite Hfold. cbn [tok_bounds_ok] in Hbd. pose proof (blist_forall bs Hbd) as HbF. rewrite Forall_forall in HbF. exact (IH bb Hin (HbF bb Hin) (Hn bb Hin) (proj2 Hr) w Hwb Hns x Hxb).
  - inversion Hx as [| |sp0 ts0 xs HF|]; subst. cbn [nonempty_branches shr has_root_fold] in *. apply andb_prop in Hn. destruct Hn as [Hnil Hn].
    destruct HF as [|t0 x0 ts' xs' Hx0 HF']; [discriminate|]. inversion IH as [|? ? I0 _]; subst. cbn [forallb] in Hn, Hr. apply andb_prop in Hn, Hr.
    destruct Hr as [Hr0 _]. apply andb_prop in Hr0.
    destruct (has_root_fold_some t0 (proj1 Hn)) as [w0 Hw0]. rewrite Hw0 in Hw. cbn [opt_list reduce_pure fold_left] in Hw. inversion Hw; subst w0.
    cbn [tok_bounds_ok] in Hbd. pose proof (I0 (proj1 Hbd) (proj1 Hn) (proj2 Hr0) w Hw0 Hns x0 Hx0) as H0. cbn [concat].
    pose proof (expands_nonempty_r t0 x0 (proj1 Hn) (proj2 Hr0) Hx0) as Nx. destruct x0 as [|a x0']; [congruence|]. exact H0.
  - destruct (rep_parts _ _ _ _ Hr) as [_ [Hsb [Hlo _]]]. destruct (rep_copies _ _ _ _ _ Hlo Hx) as [y [ys [-> HF]]]. inversion HF as [|? ? Hy _]; subst.
    cbn [nonempty_branches has_root_fold] in *. apply andb_prop in Hn. destruct Hn as [Hnb _].
    destruct (has_root_fold b) as [wb|] eqn:Hwb; [|discriminate].
    cbn [tok_bounds_ok] in Hbd. destruct Hbd as [Hbb [_ Hbh]].
    assert (Ew : w = wb). { pose proof (required_lower_bounded lo hi Hlo ltac:(destruct hi; [exact (proj1 Hbh)|exact I])) as Hnu. destruct (nr_lower (rep_range lo hi)); try congruence; inversion Hw; reflexivity. }
    subst wb. pose proof (IH Hbb Hnb Hsb w eq_refl Hns y Hy) as H0. cbn [concat].
    pose proof (expands_nonempty_r b y Hnb Hsb Hy) as Ny. destruct y as [|a y']; [congruence|]. exact H0.
Qed.

Section DepthRootedRep.
Variable orbit : char -> list char.
Hypothesis orbit_nosep : forall c d, In d (orbit c) -> d <> SEP.

Theorem built_rep_depth_sound_rooted : forall e t r v p,
  build e = BuildOk t r -> simple_reps t = true -> rep_class t = true -> starts_plainly t = true ->
  depth_variance t = Ok v -> depth_closed_variant t = false ->
  Lang orbit t p -> canonical p = true -> 1 <= ncomp p ->
  starts_sep p = (match has_root t with Always => true | _ => false end) ->
  in_variance (ncomp p) v.
Proof.
  intros e t r v p Hb Hs Hrc Hsp Hv Hcv HL Hcan Hn Hroot.
  eapply (built_rep_depth_sound_lang orbit orbit_nosep); try eassumption.
  intros x Hx _. rewrite Hroot. pose proof (built_nonempty_branches e t r Hb) as Hne. destruct (built_parts e t r Hb) as [Ep _].
  destruct (has_root_fold_some t Hne) as [w Hw]. unfold has_root. rewrite Hw.
  assert (Hns : w <> Sometimes).
  { intros ->. apply (built_never_sometimes_r e t r Hb Hsp). unfold has_root. rewrite Hw. reflexivity. }
  symmetry. exact (root_expansions_r t (built_bounds_ok e t r Hb) Hne (sh_shr t (parse_sh e t Ep) Hrc) w Hw Hns x Hx).
Qed.

End DepthRootedRep.
