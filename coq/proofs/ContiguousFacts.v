(* ContiguousFacts.v -- the arithmetic behind the 13th repair: the depth terms that the exhaustiveness fold multiplies by an unbounded range
   (`nvar_contiguous`: zero, one, or no upper bound and a lower bound of at most one) are exactly those for which one more copy of the body
   can add exactly one component, so the depths reachable by repeating the body are closed under successor; a term with gaps
   ({2, 4}: `<{*/*/,*/*/*/*/}:1,>`) is not. *)
From Coq Require Import Lia.
From WaxModel Require Import Base Token Regex Encode Variance Fold.
From WaxProofs Require Import RuleFacts.

(* a depth reachable by n copies of a body whose term has the members D *)
Inductive reach (D : list nvar) : nat -> N -> Prop :=
| reach_0 : reach D 0 0
| reach_S : forall n s d k, reach D n s -> In d D -> in_variance k d -> reach D (S n) (s + k).

Lemma contiguous_reaches_one : forall v, nvar_contiguous v = true -> v <> Inv 0 -> in_variance 1 v.
Proof.
  intros [n|[[k|k|l e]|]] H Hz; cbn [nvar_contiguous in_variance] in *; try discriminate; try exact I.
  - apply Bool.orb_prop in H. destruct H as [H|H]; apply N.eqb_eq in H; subst; [congruence|reflexivity].
  - apply N.leb_le in H. exact H.
Qed.

Theorem contiguous_closed_under_successor : forall D, forallb nvar_contiguous D = true -> (exists d, In d D /\ d <> Inv 0) ->
  forall n s, reach D n s -> reach D (S n) (s + 1).
Proof.
  intros D Hc [d [Hin Hnz]] n s Hr. rewrite forallb_forall in Hc.
  exact (reach_S D n s d 1 Hr Hin (contiguous_reaches_one d (Hc d Hin) Hnz)).
Qed.

(* a term with gaps: two or four components per copy reach only even depths *)
Lemma gaps_even : forall n s, reach [Inv 2; Inv 4] n s -> exists h, s = 2 * h.
Proof.
  intros n s H. induction H as [|n s d k _ [h ->] Hin Hk]; [exists 0; reflexivity|].
  destruct Hin as [<-|[<-|[]]]; cbn [in_variance] in Hk; subst k; [exists (h + 1)|exists (h + 2)]; lia.
Qed.

Example gaps_not_closed : reach [Inv 2; Inv 4] 1 2 /\ forall n, ~ reach [Inv 2; Inv 4] n 3.
Proof.
  split; [change 2%N with (0 + 2)%N; apply (reach_S [Inv 2%N; Inv 4%N] 0 0%N (Inv 2%N) 2%N (reach_0 _)); [left; reflexivity|reflexivity]|].
  intros n H. destruct (gaps_even n 3 H) as [h Hh]. lia.
Qed.

Example gaps_not_contiguous : exh_rep_finalizes (BDisj [(TOpen, Inv 2); (TOpen, Inv 4)]) = false /\ exh_rep_finalizes (BConj (TOpen, Var (Bounded (BBoth 3 1)))) = false /\
  exh_rep_finalizes (BConj (TClosed, Inv 1)) = true.
Proof. repeat split; reflexivity. Qed.
