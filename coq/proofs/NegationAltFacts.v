(* NegationAltFacts.v -- C03 for negations whose alternatives have sound exhaustive verdicts: the statement of NegationWalkFacts with the
   promise abstracted, and its instance for a negated glob that builds, has no repetition and is not an alternation at its top
   (`**/{.git,node_modules}/**`, `{src,tests}/**/*.tmp` is an alternation inside a concatenation): C09 for such globs discharges the promise. *)
From Coq Require Import Arith Lia.
From WaxModel Require Import Base Token Regex Spec Encode Variance Fold Rule Parse Query Glob Walk.
From WaxProofs Require Import AlgebraFacts SpecFacts OwnedFacts ComposeFacts WalkFacts PruneFacts GlobWalkFacts NotWalkFacts NegationFacts ZomFacts ExhaustFacts NegationWalkFacts.
From WaxProofs Require Import DepthAltFacts BuiltFacts ExhaustAltFacts.
Local Open Scope nat_scope.

Section NegationAlt.
Variable orbit : char -> list char.
Notation Lang := (Spec.Lang orbit).

(* an alternative whose `Always` verdict is sound *)
Definition sound_alt (a : tok) : Prop :=
  tok_bounds_ok a /\ (is_exhaustive a = Ok Always -> forall w z, nosep z = true -> Lang a w -> Lang a (w ++ SEP :: z)).

Lemma sound_descendants : forall a r, sound_alt a -> is_exhaustive a = Ok Always ->
  Forall valid_name r -> forall w, Lang a w -> Lang a (fold_left (fun acc c => acc ++ SEP :: c) r w).
Proof.
  intros a r [_ Hs] He Hr. induction Hr as [|c r [_ Hc] _ IH]; intros w Hw; [exact Hw|]. cbn [fold_left]. apply IH. apply Hs; assumption.
Qed.

Theorem negation_walk_sound_alts : forall t ext nxt exh nonexh,
  Forall sound_alt (into_alternatives t) -> not_partition t = Ok (ext, nxt) ->
  decides orbit exh ext -> decides orbit nonexh nxt -> opt_match exh [] = false ->
  (forall q, matched exh nonexh q = true <-> Lang t (join_path q)) /\
  forall ls mind maxd root, names_valid root ->
    yields (walk mind maxd (ls ++ [nl exh nonexh]) root) =
    filter (fun q => negb (matched exh nonexh q)) (yields (walk mind maxd ls root)).
Proof.
  intros t ext nxt exh nonexh Hsound Hpart Hde Hdn Hroot.
  assert (Hb : Forall tok_bounds_ok (into_alternatives t)) by (eapply Forall_impl; [|exact Hsound]; intros a [Ha _]; exact Ha).
  destruct (not_partition_parts t ext nxt Hb Hpart) as [ex [nx [Pex [Pnx [Hex Hnx]]]]].
  split.
  - intros q. unfold matched. rewrite orb_true_iff, (decides_lang orbit exh ext _ Hde), (decides_lang orbit nonexh nxt _ Hdn).
    apply (not_partition_lang orbit t ext nxt (join_path q) Hb Hpart).
  - intros ls mind maxd root Hvalid. rewrite !walk_refines.
    apply (not_walk_yields ls exh nonexh (Forall valid_name)).
    + intros p r Hv Hr Hm. unfold matched. apply orb_true_iff. left.
      destruct p as [|c0 p0]; [cbn [join_path] in Hm; congruence|].
      apply (decides_lang orbit exh ext _ Hde). apply (decides_lang orbit exh ext _ Hde) in Hm.
      apply (part_lang orbit ex ext _ Pex). apply (part_lang orbit ex ext _ Pex) in Hm. destruct Hm as [a [Hin Hl]].
      exists a. split; [exact Hin|]. destruct (Hex a Hin) as [Halt Halways].
      rewrite Forall_forall in Hsound. pose proof (Hsound a Halt) as Hsa. rewrite join_fold by discriminate.
      apply (sound_descendants a r Hsa Halways); [|exact Hl]. apply Forall_app in Hv. exact (proj2 Hv).
    + intros q Hq. eapply all_entries_valid; [exact Hvalid|constructor|exact Hq].
Qed.

(* the instance: a negated glob that builds, has no repetition, cannot end with a separator and is its own only alternative *)
Theorem negation_of_built_glob : forall e t r ext nxt exh nonexh,
  build e = BuildOk t r -> rep_free t = true -> may_end_sep t = false -> into_alternatives t = [t] ->
  not_partition t = Ok (ext, nxt) -> decides orbit exh ext -> decides orbit nonexh nxt -> opt_match exh [] = false ->
  (forall q, matched exh nonexh q = true <-> Lang t (join_path q)) /\
  forall ls mind maxd root, names_valid root ->
    yields (walk mind maxd (ls ++ [nl exh nonexh]) root) =
    filter (fun q => negb (matched exh nonexh q)) (yields (walk mind maxd ls root)).
Proof.
  intros e t r ext nxt exh nonexh Hb Hrf Hms Halts. apply negation_walk_sound_alts. rewrite Halts. constructor; [|constructor]. split.
  - exact (built_bounds_ok e t r Hb).
  - intros He w z Hz Hw. exact (built_rep_free_always_sound orbit e t r w z Hb Hrf He Hms Hz Hw).
Qed.

End NegationAlt.
