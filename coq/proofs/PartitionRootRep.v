(* PartitionRootRep.v -- C08 with repetitions: the postfix of a partition is never rooted (and partitioning it again changes nothing) for
   globs that build, whose repetitions are written out at least once with bodies that begin and end with a leaf (the class of C06 over
   expansions with repetitions), and whose starting chain holds no repetition (a glob rooted through a repetition at its very
   beginning keeps its root: known class rooted_repetition).  The proof of PartitionRoot with the repetition cases: a repetition that
   reports a root has an expansion that begins with one, and after a boundary that contradicts C06. *)
From Coq Require Import Arith Lia.
From WaxModel Require Import Base Token Regex Spec Encode Variance Fold Rule Parse Query Glob.
From WaxProofs Require Import AlgebraFacts SpecFacts EncodeLang OwnedFacts ComposeFacts RuleFacts FuelFacts BuiltFacts BuiltNonempty DepthTreeFacts DepthAltFacts
  ExhaustFacts RuleAdjFacts ParseShape RootFacts PartitionLang PartitionIdem PartitionRoot RuleAdjRep RuleZomRep RootRep.
Local Open Scope nat_scope.

Definition blist (l : list tok) : Prop := (fix go (l : list tok) : Prop := match l with [] => True | x :: l' => tok_bounds_ok x /\ go l' end) l.

Lemma blist_forall : forall l, blist l -> Forall tok_bounds_ok l.
Proof. induction l as [|x l IH]; intros H; [constructor|]. destruct H as [H0 H']. constructor; [exact H0|exact (IH H')]. Qed.

Lemma expands_repeat : forall b x n, Expands b x -> Forall (Expands b) (repeat x n).
Proof. intros b x n H. induction n; [constructor|cbn [repeat]; constructor; assumption]. Qed.

(* every tree with ordered bounds and non-empty branches has an expansion *)
Lemma exists_expansion_r : forall t, tok_bounds_ok t -> nonempty_branches t = true -> exists x, Expands t x.
Proof.
  induction t as [sp l|sp bs IH|sp ts IH|sp b lo hi IH] using tok_ind'; intros Hb Hn.
  - exists [l]. constructor.
  - cbn [nonempty_branches tok_bounds_ok] in *. apply andb_prop in Hn. destruct Hn as [Hnil Hn]. destruct bs as [|b0 bs']; [discriminate|].
    inversion IH as [|? ? I0 _]; subst. cbn [forallb] in Hn. apply andb_prop in Hn. destruct Hb as [Hb0 _]. destruct (I0 Hb0 (proj1 Hn)) as [x Hx].
    exists x. econstructor; [left; reflexivity|exact Hx].
  - cbn [nonempty_branches tok_bounds_ok] in *. apply andb_prop in Hn. destruct Hn as [_ Hn].
    assert (Hall : exists xs, Forall2 Expands ts xs).
    { induction IH as [|t0 ts' H0 _ IHt]; [exists []; constructor|]. cbn [forallb] in Hn. apply andb_prop in Hn. destruct Hb as [Hb0 Hb'].
      destruct (H0 Hb0 (proj1 Hn)) as [x0 Hx0]. destruct (IHt Hb' (proj2 Hn)) as [xs Hxs]. exists (x0 :: xs). constructor; assumption. }
    destruct Hall as [xs Hxs]. exists (concat xs). constructor. exact Hxs.
  - cbn [nonempty_branches tok_bounds_ok] in *. apply andb_prop in Hn. destruct Hn as [Hnb _]. destruct Hb as [Hbb [Hlo Hhi]].
    destruct (IH Hbb Hnb) as [x Hx]. exists (concat (repeat x (N.to_nat lo))). apply E_rep; [|apply expands_repeat; exact Hx].
    unfold in_bounds. rewrite repeat_length, N2Nat.id. split; [lia|]. destruct hi as [h|]; [lia|exact I].
Qed.

Lemma forall2_expansions_r : forall ts, blist ts -> forallb nonempty_branches ts = true -> exists xs, Forall2 Expands ts xs.
Proof.
  induction ts as [|t ts IH]; intros Hb Hn; [exists []; constructor|]. cbn [forallb] in Hn. apply andb_prop in Hn. destruct Hb as [Hb0 Hb'].
  destruct (exists_expansion_r t Hb0 (proj1 Hn)) as [x Hx]. destruct (IH Hb' (proj2 Hn)) as [xs Hxs]. exists (x :: xs). constructor; assumption.
Qed.

(* a token that is not "never rooted" has an expansion that begins with a boundary *)
Lemma rooted_expansion_r : forall t, tok_bounds_ok t -> nonempty_branches t = true -> has_root_fold t <> Some Never ->
  exists x, Expands t x /\ fb x = true.
Proof.
  induction t as [sp l|sp bs IH|sp ts IH|sp b lo hi IH] using tok_ind'; intros Hb Hn Hh.
  - exists [l]. split; [constructor|]. cbn [has_root_fold] in Hh. cbn [fb]. destruct l; try (exfalso; apply Hh; reflexivity); try reflexivity.
  - cbn [nonempty_branches has_root_fold tok_bounds_ok] in *. apply andb_prop in Hn. destruct Hn as [Hnil Hn].
    assert (Hex : exists b, In b bs /\ has_root_fold b <> Some Never).
    { destruct (existsb (fun b => match has_root_fold b with Some Never => false | _ => true end) bs) eqn:E.
      - apply existsb_exists in E. destruct E as [b [Hin Hb0]]. exists b. split; [exact Hin|]. intros Hc. rewrite Hc in Hb0. discriminate.
      - exfalso. apply Hh. apply certainty_never.
        + destruct bs as [|b0 bs']; [discriminate|]. cbn [flat_map]. cbn [existsb] in E. apply orb_false_iff in E. destruct E as [E0 _].
          destruct (has_root_fold b0) as [[]|]; discriminate.
        + apply Forall_forall. intros w Hw. apply in_flat_map in Hw. destruct Hw as [b [Hin Hw]].
          assert (Hb0 : (match has_root_fold b with Some Never => false | _ => true end) = false).
          { destruct (match has_root_fold b with Some Never => false | _ => true end) eqn:Eb; [|reflexivity].
            assert (existsb (fun b => match has_root_fold b with Some Never => false | _ => true end) bs = true) by (apply existsb_exists; exists b; auto). congruence. }
          destruct (has_root_fold b) as [[]|]; try discriminate; cbn [opt_list] in Hw; destruct Hw as [<-|[]]. reflexivity. }
    destruct Hex as [b [Hin Hb0]]. rewrite forallb_forall in Hn. rewrite Forall_forall in IH. pose proof (blist_forall bs Hb) as HbF. rewrite Forall_forall in HbF.
    destruct (IH b Hin (HbF b Hin) (Hn b Hin) Hb0) as [x [Hx Hf]]. exists x. split; [econstructor; eassumption|exact Hf].
  - cbn [nonempty_branches has_root_fold tok_bounds_ok] in *. apply andb_prop in Hn. destruct Hn as [Hnil Hn]. destruct ts as [|t0 ts']; [discriminate|].
    inversion IH as [|? ? I0 _]; subst. cbn [forallb] in Hn. apply andb_prop in Hn. destruct Hb as [Hb0 Hb'].
    assert (H0 : has_root_fold t0 <> Some Never).
    { intros Hc. apply Hh. rewrite Hc. reflexivity. }
    destruct (I0 Hb0 (proj1 Hn) H0) as [x0 [Hx0 Hf0]].
    destruct (forall2_expansions_r ts' Hb' (proj2 Hn)) as [xs Hxs]. exists (concat (x0 :: xs)). split; [constructor; constructor; assumption|].
    cbn [concat]. rewrite fb_app; [exact Hf0|]. intros ->. discriminate.
  - cbn [nonempty_branches has_root_fold tok_bounds_ok] in *. apply andb_prop in Hn. destruct Hn as [Hnb Hnz]. destruct Hb as [Hbb [Hlo Hhi]].
    assert (H0 : has_root_fold b <> Some Never).
    { intros Hc. apply Hh. rewrite Hc. destruct (nr_lower (rep_range lo hi)); reflexivity. }
    destruct (IH Hbb Hnb H0) as [x [Hx Hf]].
    exists (concat (repeat x (N.to_nat (N.max lo 1)))). split.
    + apply E_rep; [|apply expands_repeat; exact Hx]. unfold in_bounds. rewrite repeat_length, N2Nat.id. split; [lia|]. destruct hi as [h|]; [|exact I].
      apply negb_true_iff in Hnz. destruct (N.eqb_spec lo 0); destruct (N.eqb_spec h 0); cbn in Hnz; try discriminate; lia.
    + destruct (N.to_nat (N.max lo 1)) as [|k] eqn:Ek; [lia|]. cbn [repeat concat]. rewrite fb_app; [exact Hf|]. intros ->. discriminate.
Qed.

Theorem built_postfix_never_rooted_r : forall hc e sp ts r text post e',
  build e = BuildOk (TCat sp ts) r -> rep_class (TCat sp ts) = true -> chain_rep_free (TCat sp ts) = true ->
  partition hc e (TCat sp ts) = Ok (PartSome text post e') -> has_root post = Never.
Proof.
  intros hc e sp ts r text post e' Hb Hrc Hcrf Hp.
  pose proof (built_bounds_ok e _ r Hb) as Hbounds. cbn [tok_bounds_ok] in Hbounds. fold (blist ts) in Hbounds.
  pose proof (built_nonempty_branches e _ r Hb) as Hne.
  destruct (built_parts e _ r Hb) as [Ep Hck]. pose proof (parse_sh e _ Ep) as Hsh.
  destruct (partition_shape hc _ _ _ _ _ _ Hbounds Hp) as [n [first [rest [g [Hi [Hs [Hlen ->]]]]]]].
  rewrite has_root_respan. unfold has_root. cbn [has_root_fold].
  assert (Goal : has_root_fold (fst (unroot first)) = Some Never).
  2:{ rewrite Goal. reflexivity. }
  assert (Hin : In first ts) by (rewrite <- (firstn_skipn (N.to_nat n) ts), Hs; apply in_or_app; right; left; reflexivity).
  cbn [nonempty_branches] in Hne. apply andb_prop in Hne. destruct Hne as [_ Hne].
  assert (Hshm : forall m, In m ts -> is_cat m = false /\ sh m).
  { clear - Hsh. cbn [sh] in Hsh. induction ts as [|x l IH]; intros m Hm; [contradiction|]. destruct Hsh as [Hx Hl]. destruct Hm as [<-|Hm]; [exact Hx|exact (IH Hl m Hm)]. }
  assert (Hfs : is_cat first = false /\ nonempty_branches first = true /\ tok_bounds_ok first).
  { rewrite forallb_forall in Hne. pose proof (blist_forall ts Hbounds) as HbF. rewrite Forall_forall in HbF. split; [exact (proj1 (Hshm first Hin))|]. split; [exact (Hne first Hin)|exact (HbF first Hin)]. }
  destruct Hfs as [Hnc [Hnf Hbf]].
  (* a tree wildcard gives up its root; an alternation at the very beginning is never rooted *)
  assert (Tree : is_tree first = true -> has_root_fold (fst (unroot first)) = Some Never).
  { intros Ht. destruct first as [[a b] l| | |]; try discriminate. destruct l; try discriminate. destruct root; reflexivity. }
  assert (Leaf : forall s0 l0, first = TLeaf s0 l0 -> is_boundary first = false -> has_root_fold (fst (unroot first)) = Some Never).
  { intros s0 l0 -> Hnb. destruct s0. destruct l0; try discriminate; reflexivity. }
  unfold invariant_text_prefix in Hi. cbn [concatenation] in Hi.
  destruct ts as [|t0 ts0]; [cbn in Hlen; lia|].
  match type of Hi with rbind ?X _ = _ => destruct X as [rv|] eqn:Erv end; [|discriminate]. cbn [rbind] in Hi.
  assert (Hok := check_item_ok _ Hck).
  cbn [chain_rep_free] in Hcrf.
  assert (AltStart : forall s0 bs0, t0 = TAlt s0 bs0 -> has_root_fold t0 = Some Never).
  { intros s0 bs0 ->. destruct (branch_item_decomp outer_default (TCat sp (TAlt s0 bs0 :: ts0))) as [_ Herr]. pose proof (proj1 Herr (Hok _ (reach_refl _))) as Hsteps.
    cbn [concatenation] in Hsteps. unfold adjacent in Hsteps. cbn [adjacent_aux] in Hsteps. inversion Hsteps as [|? ? He _]; subst. cbn [step_err] in He.
    apply first_some_l_none in He. rewrite Forall_forall in He.
    set (o' := outer_or outer_default None (match ts0 with r0 :: _ => Some r0 | [] => None end)) in *.
    assert (Hbb : forall b, In b bs0 -> item_ok o' b /\ alt_ok_b o' b).
    { intros b Hinb. split.
      - apply (item_ok_child outer_default (TCat sp (TAlt s0 bs0 :: ts0)) (o', b) Hok). unfold item_children. cbn [fst snd concatenation]. unfold adjacent. cbn [adjacent_aux flat_map step_children].
        apply in_or_app. left. apply in_map_iff. exists b. auto.
      - specialize (He b Hinb). unfold alt_ok_b. fold o' in He. destruct (terminals_of (concatenation b)) as [tm|]; [|exact I]. exact (proj2 (opt_first_none2 _ _ He)). }
    cbn [forallb] in Hne. apply andb_prop in Hne.
    exact (starting_chain_unrooted _ (sh_srf _ (proj2 (Hshm _ (or_introl eq_refl))) Hcrf) (proj1 Hne) o' eq_refl Hbb). }
  (* after a boundary, a token that reports a root would put two boundaries side by side in some expansion *)
  assert (After : forall pb pre, is_boundary pb = true -> t0 :: ts0 = pre ++ pb :: first :: rest -> has_root_fold first <> Some Never -> False).
  { intros pb pre Hbpb Ets Hh. destruct (rooted_expansion_r first Hbf Hnf Hh) as [xf [Hxf Hff]].
    destruct (boundary_token_leaf pb Hbpb) as [sb [lb0 [-> Hlb]]].
    rewrite Ets in Hne, Hbounds. rewrite !forallb_app in Hne. apply andb_prop in Hne. destruct Hne as [Hne1 Hne2].
    cbn [forallb] in Hne2. apply andb_prop in Hne2. destruct Hne2 as [_ Hne2]. apply andb_prop in Hne2.
    assert (Hb1 : blist pre /\ blist rest).
    { clear - Hbounds. induction pre as [|x pre IH]; [cbn [app] in Hbounds; destruct Hbounds as [_ [_ H]]; split; [exact I|exact H]|].
      cbn [app] in Hbounds. destruct Hbounds as [Hx H]. destruct (IH H) as [H1 H2]. split; [split; assumption|exact H2]. }
    destruct (forall2_expansions_r pre (proj1 Hb1) Hne1) as [xpre Hxpre]. destruct (forall2_expansions_r rest (proj2 Hb1) (proj2 Hne2)) as [xrest Hxrest].
    assert (Hx : Expands (TCat sp (t0 :: ts0)) (concat (xpre ++ [lb0] :: xf :: xrest))).
    { constructor. rewrite Ets. apply Forall2_app; [exact Hxpre|]. constructor; [constructor|]. constructor; [exact Hxf|exact Hxrest]. }
    pose proof (built_no_adjacent_boundaries_r e _ r Hb Hrc _ Hx) as Hc.
    rewrite concat_app in Hc. cbn [concat] in Hc. destruct (chain_ok_app_r' (concat xpre) ([lb0] ++ xf ++ concat xrest) false Hc) as [pb' Hc'].
    cbn [app] in Hc'. apply chain_ok_cons' in Hc'. rewrite Hlb in Hc'. destruct xf as [|a xf']; [discriminate|]. cbn [app chain_ok fb] in Hc', Hff. rewrite Hff in Hc'. discriminate. }
  destruct rv.
  - (* the glob begins with a rooted variant token: a tree wildcard *)
    inversion Hi; subst n text. cbn [N.to_nat skipn] in Hs. inversion Hs; subst first rest.
    destruct (has_root t0) eqn:Ehr; try discriminate. unfold has_root in Ehr.
    destruct t0 as [s0 l0|s0 bs0|s0 cs0|s0 b0 lo0 hi0]; try discriminate.
    + destruct (text_variance hc (TLeaf s0 l0)) as [v|] eqn:Ev; [|discriminate]. cbn [rbind] in Erv. inversion Erv as [Hv].
      destruct l0; cbn [has_root_fold leaf_is_rooting when_of_bool] in Ehr; try discriminate.
      * unfold text_variance in Ev. cbn in Ev. inversion Ev; subst. discriminate.
      * apply Tree. reflexivity.
    + rewrite (AltStart s0 bs0 eq_refl) in Ehr. discriminate.
  - destruct (prefix_loop hc 0 (t0 :: ts0) None None) as [lr|] eqn:El; [|discriminate]. cbn [rbind] in Hi.
    pose proof (loop_stop hc (t0 :: ts0) [] 0%N None None lr eq_refl I I El) as Hst. cbn [app] in Hst.
    destruct lr as [[i s]|].
    + (* a prefix was popped *)
      inversion Hi; subst n text. replace (N.to_nat (i + 1)) with (S (N.to_nat i)) in * by lia. destruct Hst as [Hle [Heq|[Hv|Hpb]]]; [lia| |].
      * destruct Hv as [v [rest' [Hsk [Hvar Hbv]]]]. rewrite Hs in Hsk. inversion Hsk; subst v rest'. destruct (boundary_token_leaf first Hbv) as [s1 [l1 [-> Hl1]]].
        destruct l1; try discriminate.
        -- exfalso. destruct Hvar as [b Hb0]. unfold text_variance in Hb0. cbn in Hb0. discriminate.
        -- apply Tree. reflexivity.
      * destruct Hpb as [pb [Hnth Hbpb]]. destruct (nth_skipn_split _ _ _ _ _ Hnth Hs) as [pre Ets].
        pose proof (built_no_adjacent_boundary_everywhere _ Hck sp (t0 :: ts0) (sub_refl _)) as Hadj. rewrite Ets in Hadj.
        apply adjacent_boundary_app_tail in Hadj. cbn [adjacent_boundary] in Hadj. rewrite Hbpb in Hadj. cbn [andb] in Hadj.
        destruct (is_boundary first) eqn:Ebf; [discriminate|].
        destruct first as [s1 l1|s1 bs1|s1 cs1|s1 b1 lo1 hi1]; try discriminate.
        -- apply (Leaf s1 l1 eq_refl eq_refl).
        -- cbn [unroot fst]. destruct (has_root_fold (TAlt s1 bs1)) as [[]|] eqn:Eh; try reflexivity.
           ++ exfalso. apply (After pb pre Hbpb Ets). discriminate.
           ++ exfalso. apply (After pb pre Hbpb Ets). discriminate.
           ++ exfalso. destruct (has_root_fold_some _ Hnf) as [w Hw]. congruence.
        -- cbn [unroot fst]. destruct (has_root_fold (TRep s1 b1 lo1 hi1)) as [[]|] eqn:Eh; try reflexivity.
           ++ exfalso. apply (After pb pre Hbpb Ets). discriminate.
           ++ exfalso. apply (After pb pre Hbpb Ets). discriminate.
           ++ exfalso. destruct (has_root_fold_some _ Hnf) as [w Hw]. congruence.
    + (* nothing was popped and the glob does not begin with a rooted variant token *)
      inversion Hi; subst n text. cbn [N.to_nat skipn] in Hs. inversion Hs; subst first rest.
      destruct t0 as [s0 l0|s0 bs0|s0 cs0|s0 b0 lo0 hi0]; try discriminate.
      * destruct l0; try (destruct s0; reflexivity).
        -- exfalso. cbn [Query.prefix_loop] in El. unfold text_variance in El. cbn [text_fold text_leaf rbind is_boundary tboundary leaf_boundary] in El.
           apply loop_some in El; [congruence|discriminate|discriminate].
        -- destruct root; [|destruct s0; reflexivity]. exfalso. unfold has_root in Erv. cbn [has_root_fold leaf_is_rooting when_of_bool] in Erv.
           unfold text_variance in Erv. cbn in Erv. discriminate.
      * cbn [unroot fst]. exact (AltStart s0 bs0 eq_refl).
Qed.

(* C08: partitioning the postfix again yields an empty prefix and the postfix itself *)
Theorem built_partition_idempotent_r : forall hc e sp ts r text post e',
  build e = BuildOk (TCat sp ts) r -> rep_class (TCat sp ts) = true -> chain_rep_free (TCat sp ts) = true ->
  partition hc e (TCat sp ts) = Ok (PartSome text post e') -> partition hc e' post = Ok (PartSome [] post e').
Proof.
  intros hc e sp ts r text post e' Hb Hrc Hcrf Hp. pose proof (built_postfix_never_rooted_r hc e sp ts r text post e' Hb Hrc Hcrf Hp) as Hroot.
  pose proof (built_bounds_ok e _ r Hb) as Hbounds. cbn [tok_bounds_ok] in Hbounds.
  apply (partition_idempotent hc e sp ts text post e' Hbounds Hp).
  destruct post as [| |sp' [|t0 ts']|]; try exact I. unfold has_root in *. cbn [has_root_fold] in Hroot.
  destruct (has_root_fold t0) as [w|]; [|discriminate]. cbn [opt_list reduce_pure fold_left] in Hroot. rewrite Hroot. discriminate.
Qed.
