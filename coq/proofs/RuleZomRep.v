(* RuleZomRep.v -- C06 with repetitions, second rule: if the check passes, no expansion of the tree has two adjacent zero-or-more
   wildcards, for trees of the class of RuleAdjRep whose repetition bodies do not both begin and end with a zero-or-more wildcard (the
   rule checker does not compare the two ends of a body for this rule: `<*a*:2>` builds).  Generated from RuleAdjRep.v by substitution,
   then adjusted where the two rules differ. *)
From Coq Require Import Arith Lia.
From WaxModel Require Import Base Token Regex Spec Encode Variance Fold Rule Parse Query Glob.
From WaxProofs Require Import SpecFacts EncodeLang RuleFacts FuelFacts ComposeFacts DepthFacts DepthTreeFacts DepthAltFacts ZomFacts ExhaustFacts BuiltNonempty RuleAdjFacts ParseShape RuleZomFacts.
From WaxProofs Require Import RuleAdjRep.
Local Open Scope nat_scope.

(* a token that cannot begin with a boundary has no expansion that does *)
Lemma starts_z_sound_r : forall t, nonempty_branches t = true -> shr t = true -> starts_z t = false ->
  forall x, Expands t x -> fz x = false.
Proof.
  unfold starts_z. induction t as [sp l|sp bs IH|sp ts IH|sp b lo hi IH] using tok_ind'; intros Hn Hr Hs x Hx.
  - inversion Hx; subst. cbn [starts_with] in Hs. rewrite orb_false_r, is_zom_leaf in Hs. exact Hs.
  - inversion Hx as [|sp0 bs0 bb x0 Hin Hxb| |]; subst. cbn [starts_with nonempty_branches shr] in *. cbn [is_zom tboundary orb] in Hs.
    apply andb_prop in Hn. destruct Hn as [_ Hn]. rewrite forallb_forall in Hn, Hr. rewrite Forall_forall in IH. specialize (Hr bb Hin). apply andb_prop in Hr.
    apply (IH bb Hin (Hn bb Hin) (proj2 Hr)); [|exact Hxb].
    destruct (starts_with is_zom bb) eqn:E; [|reflexivity]. assert (existsb (starts_with is_zom) bs = true) by (apply existsb_exists; eauto). congruence.
  - inversion Hx as [| |sp0 ts0 xs HF|]; subst. cbn [starts_with nonempty_branches shr] in *. cbn [is_zom tboundary orb] in Hs.
    apply andb_prop in Hn. destruct Hn as [_ Hn]. destruct HF as [|t0 x0 ts' xs' Hx0 HF']; [reflexivity|].
    inversion IH as [|? ? I0 _]; subst. cbn [forallb] in Hn, Hr. apply andb_prop in Hn, Hr. destruct Hr as [Hr0 _]. apply andb_prop in Hr0. cbn [concat].
    rewrite fz_app by (eapply expands_nonempty_r; [apply Hn|apply Hr0|exact Hx0]). apply (I0 (proj1 Hn) (proj2 Hr0) Hs _ Hx0).
  - destruct (rep_parts _ _ _ _ Hr) as [_ [Hsb [Hlo _]]]. destruct (rep_copies _ _ _ _ _ Hlo Hx) as [y [ys [-> HF]]]. inversion HF as [|? ? Hy _]; subst.
    cbn [starts_with nonempty_branches] in *. cbn [is_zom tboundary orb] in Hs. apply andb_prop in Hn. destruct Hn as [Hnb _].
    cbn [concat]. rewrite fz_app by (eapply expands_nonempty_r; [exact Hnb|exact Hsb|exact Hy]). exact (IH Hnb Hsb Hs y Hy).
Qed.


Lemma ends_z_sound_r : forall t, nonempty_branches t = true -> shr t = true -> ends_z t = false ->
  forall x, Expands t x -> lz x = false.
Proof.
  unfold ends_z. induction t as [sp l|sp bs IH|sp ts IH|sp b lo hi IH] using tok_ind'; intros Hn Hr Hs x Hx.
  - inversion Hx; subst. cbn [ends_with] in Hs. rewrite orb_false_r, is_zom_leaf in Hs. exact Hs.
  - inversion Hx as [|sp0 bs0 bb x0 Hin Hxb| |]; subst. cbn [ends_with nonempty_branches shr] in *. cbn [is_zom tboundary orb] in Hs.
    apply andb_prop in Hn. destruct Hn as [_ Hn]. rewrite forallb_forall in Hn, Hr. rewrite Forall_forall in IH. specialize (Hr bb Hin). apply andb_prop in Hr.
    apply (IH bb Hin (Hn bb Hin) (proj2 Hr)); [|exact Hxb].
    destruct (ends_with is_zom bb) eqn:E; [|reflexivity]. assert (existsb (ends_with is_zom) bs = true) by (apply existsb_exists; eauto). congruence.
  - inversion Hx as [| |sp0 ts0 xs HF|]; subst. cbn [nonempty_branches shr] in *.
    apply andb_prop in Hn. destruct Hn as [Hnil Hn]. destruct (last_opt_nonempty ts) as [tl Htl]; [destruct ts; [discriminate|discriminate]|].
    rewrite (ends_with_cat _ sp ts tl Htl) in Hs. cbn [is_zom tboundary orb] in Hs.
    destruct (forall2_last _ _ _ _ HF Htl) as [pre [b [-> Hb]]].
    assert (Hin : In tl ts). { clear - Htl. induction ts as [|a ts IH]; [discriminate|]. destruct ts as [|c ts']; [cbn in Htl; inversion Htl; left; reflexivity|right; apply IH; exact Htl]. }
    rewrite forallb_forall in Hn, Hr. rewrite Forall_forall in IH. specialize (Hr tl Hin). apply andb_prop in Hr.
    rewrite lz_concat_snoc by (eapply expands_nonempty_r; [apply (Hn tl Hin)|apply (proj2 Hr)|exact Hb]).
    apply (IH tl Hin (Hn tl Hin) (proj2 Hr) Hs _ Hb).
  - destruct (rep_parts _ _ _ _ Hr) as [_ [Hsb [Hlo _]]]. destruct (rep_copies _ _ _ _ _ Hlo Hx) as [y [ys [-> HF]]].
    destruct (concat_snoc_last ys y) as [pre [yl E]]. rewrite E in *. apply Forall_app in HF. destruct HF as [_ HF]. inversion HF as [|? ? Hyl _]; subst.
    cbn [ends_with nonempty_branches] in *. cbn [is_zom tboundary orb] in Hs. apply andb_prop in Hn. destruct Hn as [Hnb _].
    rewrite lz_concat_snoc by (eapply expands_nonempty_r; [exact Hnb|exact Hsb|exact Hyl]). exact (IH Hnb Hsb Hs yl Hyl).
Qed.

(* ---- the claims ------------------------------------------------------------------------------------------------------------------------------------- *)

Definition Pzr (t : tok) : Prop := forall o,
  match t with
  | TCat sp ts => item_ok o t -> forall x, Expands t x -> zchain false x = true /\ (term_ok_b o t -> ctxz o x)
  | TAlt sp bs => (forall b, In b bs -> item_ok o b /\ term_ok_b o b) -> forall x, Expands t x -> zchain false x = true /\ ctxz o x
  | TRep sp b lo hi => item_ok o b -> term_ok_b o b -> rep_ok o b lo hi -> forall x, Expands t x -> zchain false x = true /\ ctxz o x
  | _ => True
  end.


Definition mfactz_r (o : outer) (tr : option tok * tok * option tok) : Prop :=
  let '(l, m, r) := tr in forall x, Expands m x -> x <> [] /\ zchain false x = true /\
     match m with TAlt _ _ | TRep _ _ _ _ => ctxz (outer_or o l r) x | _ => True end.


Lemma mfactz_of_r : forall o l m r, Pzr m -> member_r m -> step_err o (l, m, r) = None ->
  (forall c, In c (step_children o (l, m, r)) -> item_ok (fst c) (snd c)) -> mfactz_r o (l, m, r).
Proof.
  intros o l m r HP [Hnc [Hs Hn]] He Hc x Hx. pose proof (expands_nonempty_r m x Hn Hs Hx) as Hne. split; [exact Hne|].
  destruct m as [sp lf|sp bs|sp ts|sp b lo hi]; try discriminate.
  - inversion Hx; subst. split; [reflexivity|exact I].
  - cbn [step_err step_children] in He, Hc. apply first_some_l_none in He. rewrite Forall_forall in He.
    assert (Hb : forall b, In b bs -> item_ok (outer_or o l r) b /\ term_ok_b (outer_or o l r) b).
    { intros b Hin. split; [apply (Hc (outer_or o l r, b)); apply in_map_iff; exists b; auto|].
      specialize (He b Hin). unfold term_ok_b. destruct (terminals_of (concatenation b)) as [tm|]; [|exact I]. eapply opt_first_none; exact He. }
    exact (HP (outer_or o l r) Hb x Hx).
  - cbn [step_err step_children] in He, Hc.
    assert (Hi : item_ok (outer_or o l r) b) by (apply (Hc (outer_or o l r, b)); left; reflexivity).
    assert (Ht : term_ok_b (outer_or o l r) b) by (unfold term_ok_b; destruct (terminals_of (concatenation b)) as [tm|]; [eapply opt_first_none; exact He|exact I]).
    assert (Hr : rep_ok (outer_or o l r) b lo hi) by (unfold rep_ok; destruct (terminals_of (concatenation b)) as [tm|]; [eapply opt_first_none_r; exact He|exact I]).
    exact (HP (outer_or o l r) Hi Ht Hr x Hx).
Qed.

Lemma junction_zr : forall o l a b r xa xb,
  mfactz_r o (l, a, Some b) -> mfactz_r o (Some a, b, r) -> member_r a -> member_r b ->
  is_zom a && is_zom b = false -> Expands a xa -> Expands b xb -> lz xa && fz xb = false.
Proof.
  intros o l a b r xa xb Ma Mb [Hca [Hsa Hna]] [Hcb [Hsb Hnb]] Hadj Hxa Hxb.
  destruct (Ma xa Hxa) as [_ [_ Ca]]. destruct (Mb xb Hxb) as [_ [_ Cb]].
  assert (Right : ctxz (outer_or o l (Some b)) xa -> lz xa && fz xb = false).
  { intros [_ Ca']. cbn [outer_or o_right opt_or has_starting_zom opt_any] in Ca'.
    destruct (starts_with is_zom b) eqn:Esb.
    + rewrite (Ca' eq_refl). reflexivity.
    + rewrite (starts_z_sound_r b Hnb Hsb Esb xb Hxb). apply andb_false_r. }
  destruct a as [spa la|spa bsa|spa tsa|spa ba loa hia]; try discriminate; [|exact (Right Ca)|exact (Right Ca)].
  inversion Hxa; subst. change (lz [la]) with (is_zl la). rewrite is_zom_leaf in Hadj. destruct (is_zl la) eqn:Ela; [|reflexivity]. cbn [andb] in *.
  assert (Left : ctxz (outer_or o (Some (TLeaf spa la)) r) xb -> fz xb = false).
  { intros [Cb' _]. apply Cb'. cbn [outer_or o_left opt_or has_ending_zom opt_any]. cbn [ends_with]. rewrite is_zom_leaf, Ela. reflexivity. }
  destruct b as [spb lb0|spb bsb|spb tsb|spb bb lob hib]; try discriminate; [|exact (Left Cb)|exact (Left Cb)].
  inversion Hxb; subst. rewrite is_zom_leaf in Hadj. exact Hadj.
Qed.

Lemma members_facts_zr : forall o ms xs, Forall2 Expands ms xs -> forall lf,
  (forall tr, In tr (adjacent_aux lf ms) -> mfactz_r o tr) -> Forall member_r ms -> adj_zom ms = false ->
  Forall (fun x => x <> [] /\ zchain false x = true) xs /\ zjuncs xs.
Proof.
  intros o ms xs HF. induction HF as [|m x ms' xs' Hx HF' IH]; intros lf Hm Hmem Hadj; [split; [constructor|exact I]|].
  inversion Hmem as [|? ? Hm0 Hmem']; subst. cbn [adjacent_aux] in Hm.
  pose proof (Hm _ (or_introl eq_refl)) as M0. destruct (M0 x Hx) as [Nx [Cx _]].
  destruct (IH (Some m) (fun tr Hin => Hm tr (or_intror Hin)) Hmem' (adj_zom_tail _ _ Hadj)) as [F' J'].
  split; [constructor; [split; assumption|exact F']|].
  destruct HF' as [|m2 y ms2 ys Hy HF2]; [exact I|]. cbn [zjuncs]. split; [|exact J'].
  inversion Hmem' as [|? ? Hm2 _]; subst. cbn [adjacent_aux] in Hm.
  eapply (junction_zr o lf m m2 _ x y); [exact M0|apply Hm; right; left; reflexivity|exact Hm0|exact Hm2| |exact Hx|exact Hy].
  cbn [adj_zom] in Hadj. apply orb_false_iff in Hadj. exact (proj1 Hadj).
Qed.

(* the outer context of an item reaches its first and last members *)
Lemma item_ctx_zr : forall o sp ts xs, ts <> [] -> Forall2 Expands ts xs -> Forall member_r ts ->
  (forall tr, In tr (adjacent ts) -> mfactz_r o tr) -> term_ok_b o (TCat sp ts) -> ctxz o (concat xs).
Proof.
  intros o sp ts xs Hne HF Hmem Hm Ht. unfold term_ok_b in Ht. cbn [concatenation] in Ht.
  destruct HF as [|m1 x1 ts' xs' Hx1 HF']; [congruence|]. inversion Hmem as [|? ? Hm1 Hmem']; subst.
  assert (N1 : x1 <> []) by (destruct Hm1 as [_ [Hs Hn]]; eapply expands_nonempty_r; [exact Hn|exact Hs|exact Hx1]).
  split.
  - (* left *) intros Hl. cbn [concat]. rewrite fz_app by exact N1. unfold adjacent in Hm. cbn [adjacent_aux] in Hm.
    pose proof (Hm _ (or_introl eq_refl)) as M1. destruct (M1 x1 Hx1) as [_ [_ C1]].
    destruct m1 as [s1 l1|s1 bs1|s1 cs1|s1 b1 lo1 hi1]; try (destruct Hm1 as [Hc _]; discriminate).
    + inversion Hx1; subst. change (fz [l1]) with (is_zl l1). rewrite <- (is_zom_leaf s1 l1).
      destruct ts' as [|m2 ts2]; cbn [terminals_of] in Ht.
      * unfold check_branch in Ht. crack Ht. rewrite ?Hl, ?andb_true_r in *. destruct (is_zom (TLeaf s1 l1)); cbn in *; try discriminate; reflexivity.
      * destruct (last_opt_nonempty (m2 :: ts2)) as [e He]; [discriminate|]. rewrite He in Ht.
        unfold check_branch in Ht. crack Ht. rewrite ?Hl, ?andb_true_r in *. destruct (is_zom (TLeaf s1 l1)); cbn in *; try discriminate; reflexivity.
    + destruct C1 as [C1 _]. apply C1. cbn [outer_or o_left opt_or]. exact Hl.
    + destruct C1 as [C1 _]. apply C1. cbn [outer_or o_left opt_or]. exact Hl.
  - (* right *) intros Hr. destruct (last_opt_nonempty (m1 :: ts')) as [e He]; [discriminate|].
    destruct (forall2_last _ _ _ _ (Forall2_cons _ _ Hx1 HF') He) as [pre [xe [Exs Hxe]]]. rewrite Exs.
    assert (Hine : In e (m1 :: ts')). { clear - He. revert He. generalize (m1 :: ts'). induction l as [|a l IH]; [discriminate|]. destruct l as [|c l']; [cbn; intros H; inversion H; auto|intros H; right; apply IH; exact H]. }
    rewrite Forall_forall in Hmem. destruct (Hmem e Hine) as [Hce [Hse Hne']].
    rewrite lz_concat_snoc by (eapply expands_nonempty_r; [exact Hne'|exact Hse|exact Hxe]).
    destruct (adjacent_last (m1 :: ts') None e He) as [le Hle]. pose proof (Hm _ Hle) as Me. destruct (Me xe Hxe) as [_ [_ Ce]].
    destruct e as [se le0|se bse|se cse|se be loe hie]; try discriminate.
    + inversion Hxe; subst. change (lz [le0]) with (is_zl le0). rewrite <- (is_zom_leaf se le0).
      destruct ts' as [|m2 ts2]; cbn [terminals_of] in Ht.
      * cbn in He. inversion He; subst. unfold check_branch in Ht. crack Ht. rewrite ?Hr, ?andb_true_r in *. destruct (is_zom (TLeaf se le0)); cbn in *; try discriminate; reflexivity.
      * change (last_opt (m1 :: m2 :: ts2)) with (last_opt (m2 :: ts2)) in He. rewrite He in Ht. unfold check_branch in Ht. crack Ht.
        rewrite ?Hr, ?andb_true_r in *. destruct (is_zom (TLeaf se le0)); cbn in *; try discriminate; reflexivity.
    + destruct Ce as [_ Ce]. apply Ce. cbn [outer_or o_right opt_or]. exact Hr.
    + destruct Ce as [_ Ce]. apply Ce. cbn [outer_or o_right opt_or]. exact Hr.
Qed.

(* ---- the copies of a body meet at its leaf terminals ------------------------------------------------------------------------------------------ *)
Definition zwrap_ok (b : tok) : bool :=
  match concatenation b with
  | m :: rest => negb (is_zom m && match last_opt (m :: rest) with Some e => is_zom e | None => false end)
  | [] => true
  end.

Fixpoint shz (t : tok) : bool :=
  match t with
  | TLeaf _ _ => true
  | TAlt _ bs => forallb shz bs
  | TCat _ ts => forallb shz ts
  | TRep _ b _ _ => zwrap_ok b && shz b
  end.

Lemma rep_wrap_z : forall spb tsb, leaf_ends (TCat spb tsb) = true -> zwrap_ok (TCat spb tsb) = true ->
  forall y y', Expands (TCat spb tsb) y -> Expands (TCat spb tsb) y' -> lz y && fz y' = false.
Proof.
  intros spb tsb Hle Hw y y' Hy Hy'. unfold leaf_ends, zwrap_ok in *. cbn [concatenation] in *.
  destruct tsb as [|m1 rest]; [discriminate|]. apply andb_prop in Hle. destruct Hle as [Hl1 Hle].
  destruct (last_opt (m1 :: rest)) as [e|] eqn:He; [|discriminate].
  destruct m1 as [s1 l1| | |]; try discriminate. destruct e as [se le| | |]; try discriminate.
  assert (Hf : fz y' = is_zl l1).
  { inversion Hy' as [| |sp0 ts0 xs HF|]; subst. inversion HF as [|? x1 ? xs' Hx1 _]; subst. inversion Hx1; subst. reflexivity. }
  assert (Hlb : lz y = is_zl le).
  { inversion Hy as [| |sp0 ts0 xs HF|]; subst. destruct (forall2_last _ _ _ _ HF He) as [pre [xe [-> Hxe]]]. inversion Hxe; subst.
    rewrite lz_concat_snoc by discriminate. reflexivity. }
  rewrite Hf, Hlb. rewrite !is_zom_leaf in Hw. apply negb_true_iff in Hw. rewrite andb_comm. exact Hw.
Qed.

Lemma copies_zjuncs : forall b ys, Forall (Expands b) ys ->
  (forall y y', Expands b y -> Expands b y' -> lz y && fz y' = false) -> (forall y, Expands b y -> y <> []) -> zjuncs ys.
Proof.
  intros b ys HF Hw Hne. induction HF as [|y ys Hy HF' IH]; [exact I|]. destruct HF' as [|y2 ys2 Hy2 HF2]; [exact I|].
  pose proof (Hne y2 Hy2) as N2. destruct y2 as [|a y2']; [congruence|]. cbn [zjuncs]. split; [exact (Hw _ _ Hy Hy2)|exact IH].
Qed.

(* ---- the induction ------------------------------------------------------------------------------------------------------------------------------------ *)
Theorem claims_zr : forall t, shr t = true -> shz t = true -> nonempty_branches t = true -> zcats_ok t -> Pzr t.
Proof.
  induction t as [sp l|sp bs IH|sp ts IH|sp b lo hi IH] using tok_ind'; intros Hs Hz Hn Hc o; cbn [Pzr]; try exact I.
  - (* an alternation in the context o: every branch is an item *)
    intros Hb x Hx. inversion Hx as [|sp0 bs0 bb x0 Hin Hxb| |]; subst.
    cbn [shr shz nonempty_branches] in Hs, Hz, Hn. apply andb_prop in Hn. destruct Hn as [_ Hn]. rewrite forallb_forall in Hs, Hz, Hn. rewrite Forall_forall in IH.
    specialize (Hs bb Hin). apply andb_prop in Hs. destruct Hs as [Hcat Hsb].
    destruct (Hb bb Hin) as [Hok Ht].
    pose proof (IH bb Hin Hsb (Hz bb Hin) (Hn bb Hin) (zzcats_ok_child _ _ Hc Hin) o) as HP.
    destruct bb as [| |spb tsb|]; try discriminate. destruct (HP Hok x Hxb) as [C1 C2]. split; [exact C1|exact (C2 Ht)].
  - (* a concatenation as an item *)
    intros Hok x Hx. inversion Hx as [| |sp0 ts0 xs HF|]; subst.
    cbn [shr shz nonempty_branches] in Hs, Hz, Hn. apply andb_prop in Hn. destruct Hn as [Hnil Hn].
    assert (Hmem : Forall member_r ts).
    { apply Forall_forall. intros m Hm. rewrite forallb_forall in Hs, Hn. specialize (Hs m Hm). apply andb_prop in Hs. destruct Hs as [H1 H2]. split; [exact H1|]. split; [exact H2|exact (Hn m Hm)]. }
    destruct (branch_item_decomp o (TCat sp ts)) as [_ Herr]. pose proof (proj1 Herr (Hok _ (reach_refl _))) as Hsteps. cbn [concatenation] in Hsteps.
    rewrite Forall_forall in Hsteps.
    assert (Hm : forall tr, In tr (adjacent ts) -> mfactz_r o tr).
    { intros [[l m] r] Hin. pose proof (adjacent_member _ _ _ _ _ Hin) as Hmin. rewrite Forall_forall in IH, Hmem. rewrite forallb_forall in Hz.
      destruct (Hmem m Hmin) as [Hc1 [Hs1 Hn1]].
      apply mfactz_of_r; [apply (IH m Hmin Hs1 (Hz m Hmin) Hn1 (zzcats_ok_child (TCat sp ts) m Hc Hmin))|exact (Hmem m Hmin)|exact (Hsteps _ Hin)|].
      intros c Hcin. apply (item_ok_child o (TCat sp ts) c Hok). unfold item_children. cbn [fst snd concatenation]. apply in_flat_map. exists (l, m, r). split; [exact Hin|exact Hcin]. }
    pose proof (Hc sp ts (sub_refl _)) as Hadj.
    destruct (members_facts_zr o ts xs HF None Hm Hmem Hadj) as [F J]. split; [apply zchain_concat; assumption|].
    intros Ht. apply (item_ctx_zr o sp ts xs); try assumption. destruct ts; [discriminate|discriminate].
  - (* a repetition in the context o: its body is an item; the copies meet at the body's leaf terminals *)
    intros Hok Ht Hr x Hx. destruct (rep_parts _ _ _ _ Hs) as [Hcat [Hsb [Hlo Hle]]].
    cbn [nonempty_branches shz] in Hn, Hz. apply andb_prop in Hn. destruct Hn as [Hnb _]. apply andb_prop in Hz. destruct Hz as [Hw Hzb].
    assert (Hcb : zcats_ok b) by (apply (zzcats_ok_child (TRep sp b lo hi) b Hc); left; reflexivity).
    pose proof (IH Hsb Hzb Hnb Hcb o) as HP. destruct b as [| |spb tsb|]; try discriminate. cbn [Pzr] in HP.
    destruct (rep_copies _ _ _ _ _ Hlo Hx) as [y [ys [-> HF]]].
    assert (Hne : forall z, Expands (TCat spb tsb) z -> z <> []) by (intros z Hz; exact (expands_nonempty_r _ z Hnb Hsb Hz)).
    assert (Hall : Forall (fun z => z <> [] /\ zchain false z = true) (y :: ys)).
    { eapply Forall_impl; [|exact HF]. intros z Hz. split; [exact (Hne z Hz)|exact (proj1 (HP Hok z Hz))]. }
    split.
    + apply zchain_concat; [exact Hall|]. apply (copies_zjuncs (TCat spb tsb)); [exact HF| |exact Hne].
      exact (rep_wrap_z spb tsb Hle Hw).
    + inversion HF as [|? ? Hy _]; subst. split.
      * intros Hl. cbn [concat]. rewrite fz_app by exact (Hne y Hy). exact (proj1 (proj2 (HP Hok y Hy) Ht) Hl).
      * intros Hrr. destruct (concat_snoc_last ys y) as [pre [yl E]]. rewrite E in *. apply Forall_app in HF. destruct HF as [_ HF]. inversion HF as [|? ? Hyl _]; subst.
        rewrite lz_concat_snoc by exact (Hne yl Hyl). exact (proj2 (proj2 (HP Hok yl Hyl) Ht) Hrr).
Qed.

(* C06 / C09: every expansion of a checked glob of the class is free of adjacent zero-or-more wildcards *)
Theorem check_no_adjacent_zoms_r : forall t, check t = Ok None -> zom_ok t = true -> root_ok t = true -> shr t = true -> shz t = true -> nonempty_branches t = true ->
  forall x, Expands t x -> zchain false x = true.
Proof.
  intros t Hck Hzo Hcat Hs Hz Hn x Hx. pose proof (zom_ok_cats t Hzo) as Hc.
  pose proof (claims_zr t Hs Hz Hn Hc outer_default) as HP. pose proof (check_item_ok t Hck) as Hok.
  destruct t as [sp l|sp bs|sp ts|sp b lo hi]; try discriminate; [inversion Hx; subst; reflexivity|]. exact (proj1 (HP Hok x Hx)).
Qed.

(* ---- built globs -------------------------------------------------------------------------------------------------------------------------------------- *)
(* the class on built globs: every repetition is written out at least once and its body begins and ends with a leaf *)
Fixpoint rep_class (t : tok) : bool :=
  match t with
  | TLeaf _ _ => true
  | TAlt _ bs => forallb rep_class bs
  | TCat _ ts => forallb rep_class ts
  | TRep _ b lo _ => (1 <=? lo)%N && leaf_ends b && rep_class b
  end.

Lemma sh_shr : forall t, sh t -> rep_class t = true -> shr t = true.
Proof.
  induction t as [sp l|sp bs IH|sp ts IH|sp b lo hi IH] using tok_ind'; intros Hs Hr; try reflexivity; cbn [sh shr rep_class] in *.
  - induction IH as [|x l Hx _ IHl]; [reflexivity|]. destruct Hs as [[Hc Hsx] Hs']. cbn [forallb] in *. apply andb_prop in Hr. destruct Hr as [Hr1 Hr2].
    rewrite Hc, (Hx Hsx Hr1), (IHl Hs' Hr2). reflexivity.
  - induction IH as [|x l Hx _ IHl]; [reflexivity|]. destruct Hs as [[Hc Hsx] Hs']. cbn [forallb] in *. apply andb_prop in Hr. destruct Hr as [Hr1 Hr2].
    rewrite Hc, (Hx Hsx Hr1), (IHl Hs' Hr2). reflexivity.
  - destruct Hs as [Hc Hsb]. apply andb_prop in Hr. destruct Hr as [Hr Hrb]. apply andb_prop in Hr. destruct Hr as [Hlo Hle].
    rewrite Hc, (IH Hsb Hrb), Hlo, Hle. reflexivity.
Qed.

Lemma parse_root_cat : forall e t, parse e = ParseOk t -> root_ok t = true.
Proof.
  intros e t H. unfold parse in H. destruct e as [|c e]; [inversion H; subst; reflexivity|].
  destruct (p_tokens (parse_fuel (c :: e)) TermTop (set_sub (init_input (c :: e)))) as [[ts i1]| |] eqn:E; try discriminate.
  destruct ts as [|t0 ts]; [discriminate|]. destruct (i_s i1); [|discriminate]. inversion H; subst. reflexivity.
Qed.

Lemma built_parts : forall e t r, build e = BuildOk t r -> parse e = ParseOk t /\ check t = Ok None.
Proof.
  intros e t r Hb. unfold build in Hb. destruct (parse e) as [t0| |] eqn:Ep; try discriminate.
  destruct (check t0) as [[[k sp]|]|s] eqn:Ec; try discriminate. destruct (compile_ok (encode t0)) eqn:Eco; [|discriminate]. inversion Hb; subst. auto.
Qed.

Theorem built_no_adjacent_boundaries_r : forall e t r, build e = BuildOk t r -> rep_class t = true ->
  forall x, Expands t x -> chain_ok false x = true.
Proof.
  intros e t r Hb Hr x Hx. destruct (built_parts e t r Hb) as [Ep Ec].
  apply (check_no_adjacent_boundaries_r t Ec (parse_root_cat e t Ep) (sh_shr t (parse_sh e t Ep) Hr) (built_nonempty_branches e t r Hb) x Hx).
Qed.

Theorem built_no_adjacent_zoms_r : forall e t r, build e = BuildOk t r -> rep_class t = true -> shz t = true ->
  forall x, Expands t x -> zchain false x = true.
Proof.
  intros e t r Hb Hr Hz x Hx. destruct (built_parts e t r Hb) as [Ep Ec].
  apply (check_no_adjacent_zoms_r t Ec (parse_no_adjacent_zom e t Ep) (parse_root_cat e t Ep) (sh_shr t (parse_sh e t Ep) Hr) Hz (built_nonempty_branches e t r Hb) x Hx).
Qed.

(* no expansion ends with a separator *)
Lemma shr_fnull : forall t, nonempty_branches t = true -> shr t = true -> fnull t = false.
Proof.
  induction t as [sp l|sp bs IH|sp ts IH|sp b lo hi IH] using tok_ind'; cbn [fnull nonempty_branches]; intros Hn Hs.
  - reflexivity.
  - cbn [shr] in Hs. apply andb_prop in Hn. destruct Hn as [_ Hn]. rewrite forallb_forall in Hn, Hs. rewrite Forall_forall in IH.
    destruct (existsb fnull bs) eqn:E; [|reflexivity]. apply existsb_exists in E. destruct E as [b [Hin Hb]]. specialize (Hs b Hin). apply andb_prop in Hs.
    rewrite (IH b Hin (Hn b Hin) (proj2 Hs)) in Hb. discriminate.
  - cbn [shr] in Hs. apply andb_prop in Hn. destruct Hn as [Hnil Hn]. destruct ts as [|t0 ts']; [discriminate|]. inversion IH as [|? ? I0 _]; subst.
    cbn [forallb] in *. apply andb_prop in Hn, Hs. destruct Hs as [Hs0 _]. apply andb_prop in Hs0. rewrite (I0 (proj1 Hn) (proj2 Hs0)). reflexivity.
  - destruct (rep_parts _ _ _ _ Hs) as [_ [Hsb [Hlo _]]]. apply andb_prop in Hn. destruct Hn as [Hnb _]. rewrite (IH Hnb Hsb).
    destruct (N.eqb_spec lo 0); [lia|reflexivity].
Qed.

Lemma no_trailing_sep_r : forall t, nonempty_branches t = true -> shr t = true -> may_end_sep t = false ->
  forall x, Expands t x -> last_opt x <> Some LSep.
Proof.
  induction t as [sp l|sp bs IH|sp ts IH|sp b lo hi IH] using tok_ind'; intros Hn Hr Hm x Hx.
  - inversion Hx; subst. destruct l; discriminate.
  - inversion Hx as [|sp0 bs0 bb x0 Hin Hxb| |]; subst. cbn [nonempty_branches shr may_end_sep] in *. apply andb_prop in Hn. destruct Hn as [_ Hn].
    rewrite forallb_forall in Hn, Hr. rewrite Forall_forall in IH. specialize (Hr bb Hin). apply andb_prop in Hr. apply (IH bb Hin (Hn bb Hin) (proj2 Hr)); [|exact Hxb].
    destruct (may_end_sep bb) eqn:E; [|reflexivity]. assert (existsb may_end_sep bs = true) by (apply existsb_exists; eauto). congruence.
  - inversion Hx as [| |sp0 ts0 xs HF|]; subst. cbn [nonempty_branches shr may_end_sep] in *. apply andb_prop in Hn. destruct Hn as [Hnil Hn]. clear Hx Hnil.
    induction HF as [|t0 x0 ts' xs' Hx0 HF' IHF]; [discriminate|]. inversion IH as [|? ? I0 I']; subst.
    cbn [forallb] in Hn, Hr. apply andb_prop in Hn, Hr. destruct Hn as [Hn0 Hn']. destruct Hr as [Hr0 Hr']. apply andb_prop in Hr0. destruct Hr0 as [_ Hr0]. cbn [concat].
    destruct ts' as [|t1 ts''].
    + inversion HF'; subst. cbn [concat]. rewrite app_nil_r. cbn [forallb] in Hm. apply orb_false_iff in Hm. exact (I0 Hn0 Hr0 (proj1 Hm) x0 Hx0).
    + assert (Hf : forallb fnull (t1 :: ts'') = false).
      { cbn [forallb] in *. apply andb_prop in Hn', Hr'. destruct Hr' as [Hr1 _]. apply andb_prop in Hr1. rewrite (shr_fnull t1 (proj1 Hn') (proj2 Hr1)). reflexivity. }
      rewrite Hf in Hm. inversion HF' as [|? x1 ? xs'' Hx1 HF'']; subst.
      assert (Nrest : concat (x1 :: xs'') <> []).
      { cbn [concat]. cbn [forallb] in Hn', Hr'. apply andb_prop in Hn', Hr'. destruct Hr' as [Hr1 _]. apply andb_prop in Hr1.
        pose proof (expands_nonempty_r t1 x1 (proj1 Hn') (proj2 Hr1) Hx1). destruct x1; [congruence|discriminate]. }
      rewrite ExhaustFacts.last_opt_app by exact Nrest. exact (IHF I' Hn' Hr' Hm).
  - destruct (rep_parts _ _ _ _ Hr) as [_ [Hsb [Hlo _]]]. destruct (rep_copies _ _ _ _ _ Hlo Hx) as [y [ys [-> HF]]].
    cbn [nonempty_branches may_end_sep] in *. apply andb_prop in Hn. destruct Hn as [Hnb _].
    destruct (concat_snoc_last ys y) as [pre [yl E]]. rewrite E in *. apply Forall_app in HF. destruct HF as [_ HF]. inversion HF as [|? ? Hyl _]; subst.
    rewrite concat_app. cbn [concat]. rewrite app_nil_r. rewrite ExhaustFacts.last_opt_app by exact (expands_nonempty_r _ yl Hnb Hsb Hyl).
    exact (IH Hnb Hsb Hm yl Hyl).
Qed.
