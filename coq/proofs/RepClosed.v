(* RepClosed.v -- the theorems of C09 and C10 about repetitions with their adjacency hypotheses discharged: for globs that build and
   whose repetitions are written out at least once with a body that begins and ends with a leaf, the rule checker guarantees every
   expansion (RuleAdjRep, RuleZomRep), so the verdicts are sound for every match, not per expansion. *)
From Coq Require Import Arith Lia.
From WaxModel Require Import Base Token Regex Spec Encode Variance Fold Rule Parse Query Glob.
From WaxProofs Require Import SpecFacts EncodeLang RuleFacts DepthFacts ExhaustFacts BuiltNonempty DepthTreeFacts DepthAltFacts DepthRepFacts RuleAdjFacts ParseShape.
From WaxProofs Require Import RuleZomFacts ExhaustAltFacts ExhaustRepFacts BuiltDepth.
From WaxProofs Require Import RuleAdjRep RuleZomRep.

(* C09: an `Always` verdict is sound - outside the known classes trailing_boundary (may_end_sep) and optional_repetition (required_reps) *)
Theorem built_required_reps_always_sound_closed : forall orbit e t r p z,
  build e = BuildOk t r -> required_reps t = true -> rep_class t = true -> shz t = true ->
  is_exhaustive t = Ok Always -> may_end_sep t = false -> nosep z = true ->
  Lang orbit t p -> Lang orbit t (p ++ SEP :: z).
Proof.
  intros orbit e t r p z Hb Hrq Hrc Hz He Hms Hnz [x [Hx Hm]]. destruct (built_parts e t r Hb) as [Ep Ec].
  exists x. split; [exact Hx|].
  apply (built_required_reps_always_sound orbit e t r p z x Hb Hrq He Hnz Hx).
  - exact (built_no_adjacent_boundaries_r e t r Hb Hrc x Hx).
  - exact (built_no_adjacent_zoms_r e t r Hb Hrc Hz x Hx).
  - exact (no_trailing_sep_r t (built_nonempty_branches e t r Hb) (sh_shr t (parse_sh e t Ep) Hrc) Hms x Hx).
  - exact Hm.
Qed.

(* C10: the depth variance contains the component count of every match *)
Theorem built_rep_depth_sound_closed : forall (orbit : char -> list char), (forall c d, In d (orbit c) -> d <> SEP) ->
  forall e t r v p x,
  build e = BuildOk t r -> simple_reps t = true -> rep_class t = true ->
  depth_variance t = Ok v -> depth_closed_variant t = false ->
  Expands t x -> FlatMatch orbit true true x p ->
  canonical p = true -> (1 <= ncomp p)%N ->
  starts_sep p = (match x with a :: _ => leaf_is_rooting a | [] => false end) ->
  in_variance (ncomp p) v.
Proof.
  intros orbit Ho e t r v p x Hb Hs Hrc Hv Hcv Hx Hm Hcan Hn Hroot.
  exact (built_rep_depth_sound orbit Ho e t r v p x Hb Hs Hv Hcv Hx Hm (built_no_adjacent_boundaries_r e t r Hb Hrc x Hx) Hcan Hn Hroot).
Qed.

Theorem built_rep_depth_sound_lang : forall (orbit : char -> list char), (forall c d, In d (orbit c) -> d <> SEP) ->
  forall e t r v p,
  build e = BuildOk t r -> simple_reps t = true -> rep_class t = true ->
  depth_variance t = Ok v -> depth_closed_variant t = false ->
  Lang orbit t p -> canonical p = true -> (1 <= ncomp p)%N ->
  (forall x, Expands t x -> FlatMatch orbit true true x p -> starts_sep p = (match x with a :: _ => leaf_is_rooting a | [] => false end)) ->
  in_variance (ncomp p) v.
Proof.
  intros orbit Ho e t r v p Hb Hs Hrc Hv Hcv [x [Hx Hm]] Hcan Hn Hroot.
  exact (built_rep_depth_sound_closed orbit Ho e t r v p x Hb Hs Hrc Hv Hcv Hx Hm Hcan Hn (Hroot x Hx Hm)).
Qed.
