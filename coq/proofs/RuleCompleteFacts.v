(* RuleCompleteFacts.v -- C06, the other direction for the boundary rule (no false rejection, "context-free"): for globs without repetitions,
   if the rule checker answers AdjacentBoundary then some expansion of the tree - some choice of branches - does hold two adjacent boundaries.
   Every item the breadth-first branch check reaches is *embedded*: its expansions occur in expansions of the whole tree, immediately between
   expansions of the outer left and right tokens it is checked against (the contexts nested branches inherit are real neighbours). *)
From Coq Require Import Arith Lia.
From WaxModel Require Import Base Token Regex Spec Encode Variance Fold Rule.
From WaxProofs Require Import SpecFacts EncodeLang RuleFacts FuelFacts ComposeFacts DepthFacts DepthTreeFacts DepthAltFacts RuleAdjFacts.
Local Open Scope nat_scope.

(* ---- expansions exist, and a token that can end / begin with a boundary has an expansion that does ------------------------------------------------ *)
Lemma exists_expansion : forall t, nonempty_branches t = true -> rep_free t = true -> exists x, Expands t x.
Proof.
  induction t as [sp l|sp bs IH|sp ts IH|sp b lo hi IH] using tok_ind'; intros Hn Hr; try discriminate.
  - exists [l]. constructor.
  - cbn [nonempty_branches rep_free] in *. apply andb_prop in Hn. destruct Hn as [Hnil Hn]. destruct bs as [|b0 bs']; [discriminate|].
    inversion IH as [|? ? I0 _]; subst. cbn [forallb] in Hn, Hr. apply andb_prop in Hn, Hr. destruct (I0 (proj1 Hn) (proj1 Hr)) as [x Hx].
    exists x. econstructor; [left; reflexivity|exact Hx].
  - cbn [nonempty_branches rep_free] in *. apply andb_prop in Hn. destruct Hn as [_ Hn].
    assert (Hall : exists xs, Forall2 Expands ts xs).
    { induction IH as [|t0 ts' H0 _ IHt]; [exists []; constructor|]. cbn [forallb] in Hn, Hr. apply andb_prop in Hn, Hr.
      destruct (H0 (proj1 Hn) (proj1 Hr)) as [x0 Hx0]. destruct (IHt (proj2 Hn) (proj2 Hr)) as [xs Hxs]. exists (x0 :: xs). constructor; assumption. }
    destruct Hall as [xs Hxs]. exists (concat xs). constructor. exact Hxs.
Qed.

Lemma forall2_expansions : forall ts, forallb nonempty_branches ts = true -> forallb rep_free ts = true -> exists xs, Forall2 Expands ts xs.
Proof.
  induction ts as [|t ts IH]; intros Hn Hr; [exists []; constructor|]. cbn [forallb] in Hn, Hr. apply andb_prop in Hn, Hr.
  destruct (exists_expansion t (proj1 Hn) (proj1 Hr)) as [x Hx]. destruct (IH (proj2 Hn) (proj2 Hr)) as [xs Hxs]. exists (x :: xs). constructor; assumption.
Qed.

Lemma starts_b_witness : forall t, nonempty_branches t = true -> rep_free t = true -> starts_with is_boundary t = true ->
  exists x, Expands t x /\ fb x = true.
Proof.
  induction t as [sp l|sp bs IH|sp ts IH|sp b lo hi IH] using tok_ind'; intros Hn Hr Hs; try discriminate.
  - exists [l]. split; [constructor|]. cbn [starts_with] in Hs. rewrite orb_false_r, is_boundary_leaf in Hs. exact Hs.
  - cbn [starts_with nonempty_branches rep_free] in *. cbn [is_boundary tboundary orb] in Hs. apply andb_prop in Hn. destruct Hn as [_ Hn].
    apply existsb_exists in Hs. destruct Hs as [b [Hin Hb]]. rewrite forallb_forall in Hn, Hr. rewrite Forall_forall in IH.
    destruct (IH b Hin (Hn b Hin) (Hr b Hin) Hb) as [x [Hx Hf]]. exists x. split; [econstructor; eassumption|exact Hf].
  - cbn [starts_with nonempty_branches rep_free] in *. cbn [is_boundary tboundary orb] in Hs. apply andb_prop in Hn. destruct Hn as [_ Hn].
    destruct ts as [|t0 ts']; [discriminate|]. inversion IH as [|? ? I0 _]; subst. cbn [forallb] in Hn, Hr. apply andb_prop in Hn, Hr.
    destruct (I0 (proj1 Hn) (proj1 Hr) Hs) as [x0 [Hx0 Hf0]]. destruct (forall2_expansions ts' (proj2 Hn) (proj2 Hr)) as [xs Hxs].
    exists (concat (x0 :: xs)). split; [constructor; constructor; assumption|]. cbn [concat]. rewrite fb_app; [exact Hf0|]. intros ->. discriminate.
Qed.

Lemma ends_b_witness : forall t, nonempty_branches t = true -> rep_free t = true -> ends_with is_boundary t = true ->
  exists x, Expands t x /\ lb x = true.
Proof.
  induction t as [sp l|sp bs IH|sp ts IH|sp b lo hi IH] using tok_ind'; intros Hn Hr Hs; try discriminate.
  - exists [l]. split; [constructor|]. cbn [ends_with] in Hs. rewrite orb_false_r, is_boundary_leaf in Hs. exact Hs.
  - cbn [ends_with nonempty_branches rep_free] in *. cbn [is_boundary tboundary orb] in Hs. apply andb_prop in Hn. destruct Hn as [_ Hn].
    apply existsb_exists in Hs. destruct Hs as [b [Hin Hb]]. rewrite forallb_forall in Hn, Hr. rewrite Forall_forall in IH.
    destruct (IH b Hin (Hn b Hin) (Hr b Hin) Hb) as [x [Hx Hf]]. exists x. split; [econstructor; eassumption|exact Hf].
  - cbn [nonempty_branches rep_free] in *. apply andb_prop in Hn. destruct Hn as [Hnil Hn].
    destruct (last_opt_nonempty ts) as [tl Htl]; [destruct ts; discriminate|]. rewrite (ends_with_cat _ sp ts tl Htl) in Hs. cbn [is_boundary tboundary orb] in Hs.
    assert (Hsplit : exists pre, ts = pre ++ [tl]) by (apply last_opt_some; exact Htl). destruct Hsplit as [pre Ets]. subst ts.
    rewrite !forallb_app in Hn, Hr. apply andb_prop in Hn, Hr. destruct Hn as [Hn1 Hn2]. destruct Hr as [Hr1 Hr2]. cbn [forallb] in Hn2, Hr2. rewrite andb_true_r in Hn2, Hr2.
    rewrite Forall_forall in IH. destruct (IH tl ltac:(apply in_or_app; right; left; reflexivity) Hn2 Hr2 Hs) as [xl [Hxl Hfl]].
    destruct (forall2_expansions pre Hn1 Hr1) as [xs Hxs]. exists (concat (xs ++ [xl])). split.
    + constructor. apply Forall2_app; [exact Hxs|constructor; [exact Hxl|constructor]].
    + rewrite starts_concat_snoc; [exact Hfl|]. intros ->. discriminate.
Qed.

(* ---- embedding ------------------------------------------------------------------------------------------------------------------------------------------ *)
Definition ctx_exp (o : option tok) (x : list leaf) : Prop := match o with Some t => Expands t x | None => x = [] end.
Definition good (t : tok) : Prop := nonempty_branches t = true /\ rep_free t = true.
Definition opt_good (o : option tok) : Prop := match o with Some t => good t | None => True end.

Definition embeds (root : tok) (L : option tok) (tk : tok) (R : option tok) : Prop :=
  forall xk xl xr, Expands tk xk -> ctx_exp L xl -> ctx_exp R xr -> exists pre post, Expands root (pre ++ xl ++ xk ++ xr ++ post).

Lemma ctx_exp_exists : forall o, opt_good o -> exists x, ctx_exp o x.
Proof. intros [t|] H; [destruct H as [Hn Hr]; exact (exists_expansion t Hn Hr)|exists []; reflexivity]. Qed.

Lemma expands_concatenation : forall tk x, Expands tk x <-> exists xs, Forall2 Expands (concatenation tk) xs /\ x = concat xs.
Proof.
  intros tk x. destruct tk as [sp l|sp bs|sp ts|sp b lo hi]; cbn [concatenation].
  - split; [intros H; exists [x]; split; [constructor; [exact H|constructor]|cbn; rewrite app_nil_r; reflexivity]|].
    intros [xs [HF ->]]. inversion HF as [|? y ? ys Hy Hr]; subst. inversion Hr; subst. cbn. rewrite app_nil_r. exact Hy.
  - split; [intros H; exists [x]; split; [constructor; [exact H|constructor]|cbn; rewrite app_nil_r; reflexivity]|].
    intros [xs [HF ->]]. inversion HF as [|? y ? ys Hy Hr]; subst. inversion Hr; subst. cbn. rewrite app_nil_r. exact Hy.
  - split; [intros H; inversion H; subst; eexists; split; [eassumption|reflexivity]|]. intros [xs [HF ->]]. constructor. exact HF.
  - split; [intros H; exists [x]; split; [constructor; [exact H|constructor]|cbn; rewrite app_nil_r; reflexivity]|].
    intros [xs [HF ->]]. inversion HF as [|? y ? ys Hy Hr]; subst. inversion Hr; subst. cbn. rewrite app_nil_r. exact Hy.
Qed.

Definition hd_opt {A} (l : list A) : option A := match l with a :: _ => Some a | [] => None end.

Lemma adjacent_decomp : forall ms lf l m r, In (l, m, r) (adjacent_aux lf ms) ->
  exists A B, ms = A ++ m :: B /\ l = (match last_opt A with Some a => Some a | None => lf end) /\ r = hd_opt B.
Proof.
  induction ms as [|t ms IH]; intros lf l m r H; [contradiction|]. cbn [adjacent_aux] in H. destruct H as [H|H].
  - inversion H; subst. exists [], ms. split; [reflexivity|]. split; [reflexivity|destruct ms; reflexivity].
  - destruct (IH (Some t) l m r H) as [A [B [-> [Hl Hr]]]]. exists (t :: A), B. split; [reflexivity|]. split; [|exact Hr].
    destruct A as [|a A']; [exact Hl|]. change (last_opt (t :: a :: A')) with (last_opt (a :: A')).
    destruct (last_opt_nonempty (a :: A')) as [z Hz]; [discriminate|]. rewrite Hz in *. exact Hl.
Qed.

Lemma good_members : forall tk, good tk -> Forall good (concatenation tk).
Proof.
  intros tk [Hn Hr]. destruct tk as [sp l|sp bs|sp ts|sp b lo hi]; cbn [concatenation]; try (constructor; [split; assumption|constructor]).
  cbn [nonempty_branches rep_free] in *. apply andb_prop in Hn. destruct Hn as [_ Hn]. rewrite forallb_forall in Hn, Hr. apply Forall_forall. intros m Hm. split; [exact (Hn m Hm)|exact (Hr m Hm)].
Qed.

Lemma good_branch : forall sp bs b, good (TAlt sp bs) -> In b bs -> good b.
Proof. intros sp bs b [Hn Hr] Hin. cbn [nonempty_branches rep_free] in *. apply andb_prop in Hn. destruct Hn as [_ Hn]. rewrite forallb_forall in Hn, Hr. split; [exact (Hn b Hin)|exact (Hr b Hin)]. Qed.

Lemma forall2_good : forall ms, Forall good ms -> exists xs, Forall2 Expands ms xs.
Proof.
  induction ms as [|m ms IH]; intros H; [exists []; constructor|]. inversion H as [|? ? [Hn Hr] H']; subst.
  destruct (exists_expansion m Hn Hr) as [x Hx]. destruct (IH H') as [xs Hxs]. exists (x :: xs). constructor; assumption.
Qed.

(* the state carried along the queue *)
Definition Inv (root : tok) (it : outer * tok) : Prop :=
  good (snd it) /\ opt_good (o_left (fst it)) /\ opt_good (o_right (fst it)) /\ embeds root (o_left (fst it)) (snd it) (o_right (fst it)).

Lemma last_opt_snoc : forall {A} (l : list A) a, last_opt (l ++ [a]) = Some a.
Proof. intros A l a. apply SpecFacts.last_opt_app. Qed.

Lemma Inv_child : forall root o tk c, Inv root (o, tk) -> In c (item_children (o, tk)) -> Inv root c.
Proof.
  intros root o tk [oc b] [Hg [HgL [HgR Hemb]]] Hin. cbn [fst snd] in *. unfold item_children in Hin. cbn [fst snd] in Hin.
  apply in_flat_map in Hin. destruct Hin as [[[l m] r] [Htr Hc]]. pose proof (good_members tk Hg) as Hmem.
  destruct (adjacent_decomp _ _ _ _ _ Htr) as [A [B [Ems [El Er]]]].
  assert (Hgm : good m) by (rewrite Forall_forall in Hmem; apply Hmem; rewrite Ems; apply in_or_app; right; left; reflexivity).
  destruct m as [sm lm|sm bs|sm cs|sm bm lo hi]; cbn [step_children] in Hc; try contradiction.
  2:{ destruct Hgm as [_ Hr]. discriminate. }
  apply in_map_iff in Hc. destruct Hc as [b' [E Hb]]. inversion E; subst oc b'. clear E.
  assert (HgA : Forall good A /\ Forall good B).
  { rewrite Ems in Hmem. apply Forall_app in Hmem. destruct Hmem as [HA HB]. inversion HB; subst. auto. }
  destruct HgA as [HgA HgB].
  assert (Hgl : opt_good l).
  { subst l. destruct (last_opt A) as [a|] eqn:Ea; [|exact I]. rewrite Forall_forall in HgA. apply HgA. apply last_opt_some in Ea. destruct Ea as [A' ->]. apply in_or_app. right. left. reflexivity. }
  assert (Hgr : opt_good r).
  { subst r. destruct B as [|b0 B']; [exact I|]. inversion HgB; subst. assumption. }
  split; [eapply good_branch; eassumption|]. cbn [outer_or o_left o_right].
  split; [destruct l; [exact Hgl|exact HgL]|]. split; [destruct r; [exact Hgr|exact HgR]|].
  (* the embedding *)
  intros xb xl xr Hxb Hxl Hxr.
  assert (HxAlt : Expands (TAlt sm bs) xb) by (econstructor; eassumption).
  (* expansions of the members before and after *)
  cbn [hd_opt] in Er.
  destruct (last_opt A) as [lt|] eqn:Ea.
  - (* a left neighbour inside the concatenation *)
    subst l. cbn [opt_or] in Hxl. apply last_opt_some in Ea. destruct Ea as [A' ->]. apply Forall_app in HgA. destruct HgA as [HgA' _].
    destruct (forall2_good A' HgA') as [xsA HxsA]. destruct (ctx_exp_exists _ HgL) as [xL0 HxL0].
    destruct B as [|rt B'].
    + subst r. cbn [opt_or] in Hxr. destruct (ctx_exp_exists _ HgR) as [xR0 HxR0] eqn:Eunused. clear Eunused.
      assert (Hxtk : Expands tk (concat (xsA ++ [xl] ++ [xb]))).
      { apply expands_concatenation. eexists. split; [|reflexivity]. rewrite Ems, <- app_assoc. apply Forall2_app; [exact HxsA|]. constructor; [exact Hxl|]. constructor; [exact HxAlt|constructor]. }
      destruct (Hemb _ xL0 xr Hxtk HxL0 Hxr) as [pre [post He]]. exists (pre ++ xL0 ++ concat xsA), post.
      rewrite !concat_app in He. cbn [concat] in He. rewrite !app_nil_r in He. rewrite <- !app_assoc in *. exact He.
    + subst r. cbn [opt_or] in Hxr. inversion HgB as [|? ? _ HgB']; subst. destruct (forall2_good B' HgB') as [xsB HxsB]. destruct (ctx_exp_exists _ HgR) as [xR0 HxR0].
      assert (Hxtk : Expands tk (concat (xsA ++ [xl] ++ [xb] ++ [xr] ++ xsB))).
      { apply expands_concatenation. eexists. split; [|reflexivity]. rewrite Ems, <- app_assoc. apply Forall2_app; [exact HxsA|]. constructor; [exact Hxl|]. constructor; [exact HxAlt|]. constructor; [exact Hxr|exact HxsB]. }
      destruct (Hemb _ xL0 xR0 Hxtk HxL0 HxR0) as [pre [post He]]. exists (pre ++ xL0 ++ concat xsA), (concat xsB ++ xR0 ++ post).
      rewrite !concat_app in He. cbn [concat] in He. rewrite !app_nil_r in He. rewrite <- !app_assoc in *. exact He.
  - (* the alternation is the first member: the left context is inherited *)
    subst l. cbn [opt_or] in Hxl. assert (A = []) by (destruct A as [|a A']; [reflexivity|]; destruct (last_opt_nonempty (a :: A')) as [z Hz]; [discriminate|congruence]). subst A. cbn [app] in Ems.
    destruct B as [|rt B'].
    + subst r. cbn [opt_or] in Hxr.
      assert (Hxtk : Expands tk (concat [xb])).
      { apply expands_concatenation. eexists. split; [|reflexivity]. rewrite Ems. constructor; [exact HxAlt|constructor]. }
      destruct (Hemb _ xl xr Hxtk Hxl Hxr) as [pre [post He]]. exists pre, post. cbn [concat] in He. rewrite app_nil_r in He. exact He.
    + subst r. cbn [opt_or] in Hxr. inversion HgB as [|? ? _ HgB']; subst. destruct (forall2_good B' HgB') as [xsB HxsB]. destruct (ctx_exp_exists _ HgR) as [xR0 HxR0].
      assert (Hxtk : Expands tk (concat ([xb] ++ [xr] ++ xsB))).
      { apply expands_concatenation. eexists. split; [|reflexivity]. rewrite Ems. constructor; [exact HxAlt|]. constructor; [exact Hxr|exact HxsB]. }
      destruct (Hemb _ xl xR0 Hxtk Hxl HxR0) as [pre [post He]]. exists pre, (concat xsB ++ xR0 ++ post).
      cbn [app concat] in He. rewrite <- !app_assoc in *. exact He.
Qed.

Lemma reach_inv : forall root it d, reach it d -> Inv root it -> Inv root d.
Proof. intros root it d H. induction H as [it|it c d Hc _ IH]; intros HI; [exact HI|]. apply IH. destruct it as [o tk]. eapply Inv_child; eassumption. Qed.

Lemma root_inv : forall root, good root -> Inv root (outer_default, root).
Proof.
  intros root Hg. split; [exact Hg|]. split; [exact I|]. split; [exact I|]. intros xk xl xr Hk Hl Hr. cbn [fst snd outer_default o_left o_right ctx_exp] in *. subst xl xr.
  exists [], []. cbn [app]. rewrite app_nil_r. exact Hk.
Qed.

(* ---- an error comes from a reachable item, a member of its concatenation and a branch ------------------------------------------------------------ *)
Lemma loop_some_item : forall f q e, branch_loop f q = Some e -> exists it d, In it q /\ reach it d /\ fst (branch_item d) = Some e.
Proof.
  induction f as [|f IH]; intros q e H; [discriminate|]. cbn [branch_loop] in H. destruct q as [|item rest]; [discriminate|].
  destruct (branch_item item) as [err more] eqn:Eb. destruct err as [e0|].
  - inversion H; subst. exists item, item. split; [left; reflexivity|]. split; [constructor|rewrite Eb; reflexivity].
  - destruct (IH _ _ H) as [it [d [Hin [Hr He]]]]. apply in_app_or in Hin. destruct Hin as [Hin|Hin].
    + exists it, d. split; [right; exact Hin|]. split; assumption.
    + exists item, d. split; [left; reflexivity|]. split; [|exact He]. destruct item as [o tk]. destruct (branch_item_decomp o tk) as [H1 _]. rewrite Eb in H1. cbn [snd] in H1. subst more.
      eapply reach_step; [exact Hin|exact Hr].
Qed.

Lemma bstep_err : forall o err q x err' q', bstep o (err, q) x = (err', q') -> forall e, err' = Some e ->
  err = Some e \/ exists k, step_err o x = Some k /\ fst e = k.
Proof.
  intros o err q [[l t] r] err' q' H e He. unfold bstep in H. destruct t as [sp lf|sp bs|sp ts|sp b lo hi]; try (injection H as H1 H2; rewrite <- H1 in He; left; exact He).
  - injection H as H1 H2. rewrite <- H1 in He. clear H1 H2. destruct err as [e1|]; cbn [opt_first] in He; [left; exact He|]. right. cbn [step_err].
    destruct (first_some_l _ bs) as [k|]; cbn [option_map] in He; [|discriminate]. injection He as <-. exists k. split; reflexivity.
  - injection H as H1 H2. rewrite <- H1 in He. clear H1 H2. destruct err as [e1|]; cbn [opt_first] in He; [left; exact He|]. right. cbn [step_err].
    destruct (match terminals_of (concatenation b) with Some tm => _ | None => None end) as [k|]; cbn [option_map] in He; [|discriminate]. injection He as <-. exists k. split; reflexivity.
Qed.

Lemma fold_bstep_err : forall o xs err q err' q', fold_left (bstep o) xs (err, q) = (err', q') -> forall e, err' = Some e ->
  err = Some e \/ exists x k, In x xs /\ step_err o x = Some k /\ fst e = k.
Proof.
  intros o. induction xs as [|x xs IH]; intros err q err' q' H e He; [cbn in H; inversion H; subst; left; reflexivity|].
  cbn [fold_left] in H. destruct (bstep o (err, q) x) as [e1 q1] eqn:E1. destruct (IH _ _ _ _ H e He) as [H1|[x0 [k [Hin [Hs Hk]]]]].
  - destruct (bstep_err _ _ _ _ _ _ E1 e H1) as [H2|[k [Hs Hk]]]; [left; exact H2|right; exists x, k; split; [left; reflexivity|split; assumption]].
  - right. exists x0, k. split; [right; exact Hin|split; assumption].
Qed.

Lemma first_some_l_some : forall {A B} (f : A -> option B) l b, first_some_l f l = Some b -> exists a, In a l /\ f a = Some b.
Proof.
  induction l as [|a l IH]; intros b H; [discriminate|]. cbn [first_some_l] in H. destruct (f a) as [b0|] eqn:E.
  - inversion H; subst. exists a. split; [left; reflexivity|exact E].
  - destruct (IH b H) as [a0 [Hin Hf]]. exists a0. split; [right; exact Hin|exact Hf].
Qed.

(* ---- two adjacent boundaries break the chain ----------------------------------------------------------------------------------------------------- *)
Lemma chain_ok_cons1 : forall a x pb, chain_ok pb (a :: x) = true -> chain_ok (is_bnd a) x = true.
Proof. intros a x pb H. cbn [chain_ok] in H. apply andb_prop in H. exact (proj2 H). Qed.
Lemma chain_ok_suffix : forall x y pb, chain_ok pb (x ++ y) = true -> exists pb', chain_ok pb' y = true.
Proof. induction x as [|a x IH]; intros y pb H; [exists pb; exact H|]. cbn [app] in H. apply chain_ok_cons1 in H. exact (IH _ _ H). Qed.

Lemma adjacent_breaks : forall pre xl y pb, lb xl = true -> fb y = true -> chain_ok pb (pre ++ xl ++ y) = true -> False.
Proof.
  intros pre xl y pb Hl Hf H. destruct (chain_ok_suffix pre (xl ++ y) pb H) as [pb' H'].
  assert (Nxl : xl <> []) by (intros ->; discriminate). destruct (chain_ok_app xl y pb' H' Nxl) as [_ H2]. rewrite Hl in H2.
  destruct y as [|a y']; [discriminate|]. cbn [chain_ok fb] in H2, Hf. rewrite Hf in H2. discriminate.
Qed.

Lemma first_member_fb : forall tk m rest x sp l, concatenation tk = m :: rest -> m = TLeaf sp l -> Expands tk x -> fb x = is_bnd l.
Proof.
  intros tk m rest x sp l Hc -> Hx. apply expands_concatenation in Hx. destruct Hx as [xs [HF ->]]. rewrite Hc in HF.
  inversion HF as [|? x0 ? xs' H0 _]; subst. inversion H0; subst. reflexivity.
Qed.

Lemma last_member_lb : forall tk m x sp l, last_opt (concatenation tk) = Some m -> m = TLeaf sp l -> Expands tk x -> lb x = is_bnd l.
Proof.
  intros tk m x sp l Hc -> Hx. apply expands_concatenation in Hx. destruct Hx as [xs [HF ->]].
  destruct (forall2_last _ _ _ _ HF Hc) as [pre [b [-> Hb]]]. inversion Hb; subst. rewrite starts_concat_snoc by discriminate. reflexivity.
Qed.

(* what an AdjacentBoundary verdict of check_branch says *)
Lemma check_branch_adjacent : forall tk tm o, terminals_of (concatenation tk) = Some tm -> check_branch tm o = Some AdjacentBoundary ->
  (exists m rest, concatenation tk = m :: rest /\ is_boundary m = true /\ has_ending_boundary (o_left o) = true) \/
  (exists m, last_opt (concatenation tk) = Some m /\ is_boundary m = true /\ has_starting_boundary (o_right o) = true).
Proof.
  intros tk tm o Ht Hc. destruct (concatenation tk) as [|m1 rest] eqn:Ec; [discriminate|]. cbn [terminals_of] in Ht. destruct rest as [|m2 rest'].
  - inversion Ht; subst tm. unfold check_branch in Hc.
    destruct (is_sep m1 && has_ending_boundary (o_left o)) eqn:E1.
    { left. apply andb_prop in E1. exists m1, []. split; [reflexivity|]. split; [destruct m1 as [? []| | |]; try discriminate (proj1 E1); reflexivity|exact (proj2 E1)]. }
    destruct (is_sep m1 && has_starting_boundary (o_right o)) eqn:E2.
    { right. apply andb_prop in E2. exists m1. split; [reflexivity|]. split; [destruct m1 as [? []| | |]; try discriminate (proj1 E2); reflexivity|exact (proj2 E2)]. }
    destruct (is_tree m1); [discriminate|]. destruct (is_zom m1 && has_ending_zom (o_left o)); [discriminate|]. destruct (is_zom m1 && has_starting_zom (o_right o)); discriminate.
  - destruct (last_opt (m2 :: rest')) as [e|] eqn:El; [|discriminate]. inversion Ht; subst tm. unfold check_branch in Hc.
    assert (Hlast : last_opt (m1 :: m2 :: rest') = Some e) by exact El.
    destruct (is_sep m1 && has_ending_boundary (o_left o)) eqn:E1.
    { left. apply andb_prop in E1. exists m1, (m2 :: rest'). split; [reflexivity|]. split; [destruct m1 as [? []| | |]; try discriminate (proj1 E1); reflexivity|exact (proj2 E1)]. }
    destruct (is_sep e && has_starting_boundary (o_right o)) eqn:E2.
    { right. apply andb_prop in E2. exists e. split; [exact Hlast|]. split; [destruct e as [? []| | |]; try discriminate (proj1 E2); reflexivity|exact (proj2 E2)]. }
    destruct (is_tree m1 && has_ending_boundary (o_left o)) eqn:E3.
    { left. apply andb_prop in E3. exists m1, (m2 :: rest'). split; [reflexivity|]. split; [destruct m1 as [? []| | |]; try discriminate (proj1 E3); reflexivity|exact (proj2 E3)]. }
    destruct (is_tree e && has_starting_boundary (o_right o)) eqn:E4.
    { right. apply andb_prop in E4. exists e. split; [exact Hlast|]. split; [destruct e as [? []| | |]; try discriminate (proj1 E4); reflexivity|exact (proj2 E4)]. }
    destruct (is_zom m1 && has_ending_zom (o_left o)); [discriminate|]. destruct (is_zom e && has_starting_zom (o_right o)); discriminate.
Qed.

Lemma boundary_is_leaf : forall m, is_boundary m = true -> exists sp l, m = TLeaf sp l /\ is_bnd l = true.
Proof. intros [sp l| | |] H; try discriminate. exists sp, l. split; [reflexivity|]. destruct l; try discriminate; reflexivity. Qed.

(* the branch check: an AdjacentBoundary verdict has a witness *)
Theorem branch_adjacent_witness : forall root sp, good root -> rule_branch root = Some (AdjacentBoundary, sp) ->
  exists x, Expands root x /\ chain_ok false x = false.
Proof.
  intros root sp Hg H. unfold rule_branch in H. destruct (loop_some_item _ _ _ H) as [it [d [Hin [Hr He]]]]. destruct Hin as [<-|[]].
  pose proof (reach_inv root _ _ Hr (root_inv root Hg)) as HI. destruct d as [o tk]. rewrite branch_item_eq in He.
  destruct (fold_left (bstep o) (adjacent (concatenation tk)) (None, [])) as [err' q'] eqn:Ef. cbn [fst] in He.
  destruct (fold_bstep_err _ _ _ _ _ _ Ef _ He) as [Hn|[[[l m] r] [k [Hx [Hs Hk]]]]]; [discriminate|]. cbn [fst] in Hk. subst k.
  assert (Hchild : forall c, In c (step_children o (l, m, r)) -> Inv root c).
  { intros c Hc. apply (Inv_child root o tk c HI). unfold item_children. cbn [fst snd]. apply in_flat_map. exists (l, m, r). split; assumption. }
  destruct m as [sm lm|sm bs|sm cs|sm bm lo hi]; cbn [step_err] in Hs; try discriminate.
  2:{ (* a repetition among the members: excluded *) destruct HI as [Hgt _]. pose proof (good_members tk Hgt) as Hmem. rewrite Forall_forall in Hmem.
      assert (Hm : In (TRep sm bm lo hi) (concatenation tk)) by (unfold adjacent in Hx; eapply adjacent_member; exact Hx). destruct (Hmem _ Hm) as [_ Hrf]. discriminate. }
  destruct (first_some_l_some _ _ _ Hs) as [b [Hb Hfb]]. set (o' := outer_or o l r) in *.
  destruct (terminals_of (concatenation b)) as [tm|] eqn:Et; [|discriminate].
  assert (Hcb : check_branch tm o' = Some AdjacentBoundary).
  { destruct (check_branch tm o') as [k|] eqn:Ecb; cbn [opt_first] in Hfb; [inversion Hfb; reflexivity|]. unfold check_alternation in Hfb.
    destruct ((is_sep _ || is_rooted_tree _) && negb (isSome (o_left o'))); discriminate. }
  destruct (Hchild (o', b) ltac:(cbn [step_children]; apply in_map_iff; exists b; auto)) as [Hgb [HgL [HgR Hemb]]]. cbn [fst snd] in *.
  destruct (exists_expansion b (proj1 Hgb) (proj2 Hgb)) as [xb Hxb].
  destruct (check_branch_adjacent b tm o' Et Hcb) as [[m1 [rest [Hc [Hbm Hend]]]]|[m1 [Hc [Hbm Hst]]]].
  - (* the branch begins with a boundary and the left context can end with one *)
    destruct (o_left o') as [L|] eqn:EL; [|discriminate]. cbn [has_ending_boundary opt_any] in Hend.
    destruct (ends_b_witness L (proj1 HgL) (proj2 HgL) Hend) as [xl [Hxl Hlb]].
    destruct (ctx_exp_exists _ HgR) as [xr Hxr]. destruct (Hemb xb xl xr Hxb Hxl Hxr) as [pre [post He']].
    destruct (boundary_is_leaf m1 Hbm) as [s1 [l1 [-> Hl1]]].
    exists (pre ++ xl ++ xb ++ xr ++ post). split; [exact He'|]. destruct (chain_ok false (pre ++ xl ++ xb ++ xr ++ post)) eqn:Ech; [|reflexivity].
    exfalso. apply (adjacent_breaks pre xl (xb ++ xr ++ post) false Hlb); [|exact Ech].
    rewrite fb_app; [rewrite (first_member_fb b _ rest xb s1 l1 Hc eq_refl Hxb); exact Hl1|]. eapply expands_nonempty; [exact (proj1 Hgb)|exact (proj2 Hgb)|exact Hxb].
  - (* the branch ends with a boundary and the right context can begin with one *)
    destruct (o_right o') as [R|] eqn:ER; [|discriminate]. cbn [has_starting_boundary opt_any] in Hst.
    destruct (starts_b_witness R (proj1 HgR) (proj2 HgR) Hst) as [xr [Hxr Hfr]].
    destruct (ctx_exp_exists _ HgL) as [xl Hxl]. destruct (Hemb xb xl xr Hxb Hxl Hxr) as [pre [post He']].
    destruct (boundary_is_leaf m1 Hbm) as [s1 [l1 [-> Hl1]]].
    exists (pre ++ xl ++ xb ++ xr ++ post). split; [exact He'|]. destruct (chain_ok false (pre ++ xl ++ xb ++ xr ++ post)) eqn:Ech; [|reflexivity].
    exfalso. replace (pre ++ xl ++ xb ++ xr ++ post) with ((pre ++ xl) ++ xb ++ (xr ++ post)) in Ech by (rewrite <- !app_assoc; reflexivity).
    apply (adjacent_breaks (pre ++ xl) xb (xr ++ post) false); [rewrite (last_member_lb b _ xb s1 l1 Hc eq_refl Hxb); exact Hl1| |exact Ech].
    rewrite fb_app; [exact Hfr|]. intros ->. discriminate.
Qed.

(* ---- the in-concatenation rule ------------------------------------------------------------------------------------------------------------------------ *)
Lemma bfs_levels_sub : forall f level x, In x (bfs_levels f level) -> exists t0, In t0 level /\ sub x t0.
Proof.
  induction f as [|f IH]; intros level x H; cbn [bfs_levels] in H.
  - exists x. split; [exact H|constructor].
  - destruct level as [|t level']; [contradiction|]. apply in_app_or in H. destruct H as [H|H]; [exists x; split; [exact H|constructor]|].
    destruct (IH _ _ H) as [c [Hc Hs]]. apply in_flat_map in Hc. destruct Hc as [t0 [Ht0 Hc]]. exists t0. split; [exact Ht0|]. eapply sub_child; eassumption.
Qed.

Lemma bfs_sub : forall t x, In x (bfs t) -> sub x t.
Proof. intros t x H. destruct (bfs_levels_sub _ _ _ H) as [t0 [[<-|[]] Hs]]. exact Hs. Qed.

Lemma good_child : forall t c, good t -> In c (children t) -> good c.
Proof.
  intros t c [Hn Hr] Hin. destruct t as [sp l|sp bs|sp ts|sp b lo hi]; cbn [children nonempty_branches rep_free] in *; try contradiction; try discriminate.
  - apply andb_prop in Hn. destruct Hn as [_ Hn]. rewrite forallb_forall in Hn, Hr. split; [exact (Hn c Hin)|exact (Hr c Hin)].
  - apply andb_prop in Hn. destruct Hn as [_ Hn]. rewrite forallb_forall in Hn, Hr. split; [exact (Hn c Hin)|exact (Hr c Hin)].
Qed.

(* every expansion of a descendant occurs inside an expansion of the tree *)
Lemma sub_embeds : forall c t, sub c t -> good t -> good c /\ forall xc, Expands c xc -> exists pre post, Expands t (pre ++ xc ++ post).
Proof.
  intros c t H. induction H as [t|x c0 t Hin Hs IH]; intros Hg.
  - split; [exact Hg|]. intros xc Hx. exists [], []. rewrite app_nil_r. exact Hx.
  - pose proof (good_child t c0 Hg Hin) as Hgc. destruct (IH Hgc) as [Hgx Hemb]. split; [exact Hgx|]. intros xc Hx.
    destruct (Hemb xc Hx) as [pre [post Hc0]].
    destruct t as [sp l|sp bs|sp ts|sp b lo hi]; cbn [children] in Hin; try contradiction.
    + exists pre, post. econstructor; eassumption.
    + apply in_split in Hin. destruct Hin as [A [B ->]]. pose proof (good_members (TCat sp (A ++ c0 :: B)) Hg) as Hmem. cbn [concatenation] in Hmem.
      apply Forall_app in Hmem. destruct Hmem as [HA HB]. inversion HB as [|? ? _ HB']; subst.
      destruct (forall2_good A HA) as [xsA HxsA]. destruct (forall2_good B HB') as [xsB HxsB].
      exists (concat xsA ++ pre), (post ++ concat xsB).
      replace ((concat xsA ++ pre) ++ xc ++ post ++ concat xsB) with (concat (xsA ++ [pre ++ xc ++ post] ++ xsB)).
      * constructor. apply Forall2_app; [exact HxsA|]. constructor; [exact Hc0|exact HxsB].
      * rewrite !concat_app. cbn [concat]. rewrite app_nil_r, <- !app_assoc. reflexivity.
    + destruct Hg as [_ Hr]. discriminate.
Qed.

Lemma adjacent_boundary_some : forall ts sp, adjacent_boundary ts = Some sp ->
  exists A a b B, ts = A ++ a :: b :: B /\ is_boundary a = true /\ is_boundary b = true.
Proof.
  induction ts as [|a ts IH]; intros sp H; [discriminate|]. destruct ts as [|b ts']; [discriminate|]. cbn [adjacent_boundary] in H.
  destruct (is_boundary a && is_boundary b) eqn:E.
  - apply andb_prop in E. exists [], a, b, ts'. split; [reflexivity|exact E].
  - destruct (IH sp H) as [A [a' [b' [B [E' Hab]]]]]. exists (a :: A), a', b', B. split; [rewrite E'; reflexivity|exact Hab].
Qed.

Theorem boundary_rule_witness : forall root e, good root -> rule_boundary root = Some e -> exists x, Expands root x /\ chain_ok false x = false.
Proof.
  intros root e Hg H. unfold rule_boundary in H.
  destruct (first_some_l (fun x => match x with TCat _ ts => adjacent_boundary ts | _ => None end) (bfs root)) as [sp|] eqn:E; [|discriminate].
  destruct (first_some_l_some _ _ _ E) as [c [Hin Hc]]. destruct c as [| |sc ts|]; try discriminate.
  destruct (sub_embeds _ _ (bfs_sub _ _ Hin) Hg) as [Hgc Hemb].
  destruct (adjacent_boundary_some ts sp Hc) as [A [a [b [B [-> [Ha Hb]]]]]].
  destruct (boundary_is_leaf a Ha) as [sa [la [-> Hla]]]. destruct (boundary_is_leaf b Hb) as [sb [lb0 [-> Hlb]]].
  pose proof (good_members _ Hgc) as Hmem. cbn [concatenation] in Hmem. apply Forall_app in Hmem. destruct Hmem as [HA HB]. inversion HB as [|? ? _ HB1]; subst. inversion HB1 as [|? ? _ HB2]; subst.
  destruct (forall2_good A HA) as [xsA HxsA]. destruct (forall2_good B HB2) as [xsB HxsB].
  assert (Hxc : Expands (TCat sc (A ++ TLeaf sa la :: TLeaf sb lb0 :: B)) (concat (xsA ++ [la] :: [lb0] :: xsB))).
  { constructor. apply Forall2_app; [exact HxsA|]. constructor; [constructor|]. constructor; [constructor|exact HxsB]. }
  destruct (Hemb _ Hxc) as [pre [post Hr]]. eexists. split; [exact Hr|].
  destruct (chain_ok false (pre ++ concat (xsA ++ [la] :: [lb0] :: xsB) ++ post)) eqn:Ech; [|reflexivity]. exfalso.
  rewrite concat_app in Ech. cbn [concat] in Ech. rewrite <- !app_assoc in Ech.
  replace (pre ++ concat xsA ++ [la] ++ [lb0] ++ concat xsB ++ post) with ((pre ++ concat xsA) ++ [la] ++ ([lb0] ++ concat xsB ++ post)) in Ech by (rewrite <- !app_assoc; reflexivity).
  apply (adjacent_breaks (pre ++ concat xsA) [la] ([lb0] ++ concat xsB ++ post) false); [exact Hla|exact Hlb|exact Ech].
Qed.

(* C06: the rule checker never answers AdjacentBoundary for a tree without repetitions none of whose expansions holds two adjacent boundaries *)
Theorem check_adjacent_boundary_is_real : forall t sp, nonempty_branches t = true -> rep_free t = true ->
  check t = Ok (Some (AdjacentBoundary, sp)) -> exists x, Expands t x /\ chain_ok false x = false.
Proof.
  intros t sp Hn Hr H. assert (Hg : good t) by (split; assumption). unfold check in H.
  destruct (rule_boundary t) as [e|] eqn:Eb; [eapply boundary_rule_witness; eassumption|].
  destruct (rule_bounds t) as [e|] eqn:Ebd.
  { inversion H; subst. unfold rule_bounds in Ebd. destruct (find bad_bounds (bfs t)); inversion Ebd. }
  destruct (rule_branch t) as [e|] eqn:Ebr.
  { inversion H; subst. eapply branch_adjacent_witness; eassumption. }
  unfold rule_size in H. exfalso. clear - H. induction (bfs t) as [|x l IH]; [discriminate|]. cbn [rule_size_list] in H.
  destruct (size_variance x) as [v|]; [|discriminate]. cbn [rbind] in H. destruct v as [n|b]; [|exact (IH H)]. destruct (MAX_INVARIANT_SIZE <=? n)%N; [discriminate|exact (IH H)].
Qed.

(* for parsed expressions *)
From WaxModel Require Import Parse Query Glob.
From WaxProofs Require Import BuiltNonempty.

Lemma ne_rep_free_nonempty : forall t, ne t -> rep_free t = true -> nonempty_branches t = true.
Proof.
  induction t as [sp l|sp bs IH|sp ts IH|sp b lo hi IH] using tok_ind'; intros Hn Hr; try reflexivity; try discriminate.
  - cbn [nonempty_branches ne rep_free] in *. destruct Hn as [Hnil Hn]. replace (is_nil bs) with false by (destruct bs; [congruence|reflexivity]). cbn [negb andb].
    clear Hnil. induction IH as [|b1 bs' Hb1 _ IHbs]; [reflexivity|]. destruct Hn as [Hn1 Hn']. cbn [forallb] in *. apply andb_prop in Hr. rewrite (Hb1 Hn1 (proj1 Hr)). exact (IHbs Hn' (proj2 Hr)).
  - cbn [nonempty_branches ne rep_free] in *. destruct Hn as [Hnil Hn]. replace (is_nil ts) with false by (destruct ts; [congruence|reflexivity]). cbn [negb andb].
    clear Hnil. induction IH as [|b1 bs' Hb1 _ IHbs]; [reflexivity|]. destruct Hn as [Hn1 Hn']. cbn [forallb] in *. apply andb_prop in Hr. rewrite (Hb1 Hn1 (proj1 Hr)). exact (IHbs Hn' (proj2 Hr)).
Qed.

Theorem parsed_adjacent_boundary_is_real : forall e t sp, parse e = ParseOk t -> rep_free t = true ->
  check t = Ok (Some (AdjacentBoundary, sp)) -> exists x, Expands t x /\ chain_ok false x = false.
Proof.
  intros e t sp Hp Hr Hc. apply (check_adjacent_boundary_is_real t sp); [apply ne_rep_free_nonempty; [eapply parse_ne; exact Hp|exact Hr]|exact Hr|exact Hc].
Qed.
