(* RuleFacts.v -- facts about the rule checker model (Rule.v). *)
From WaxModel Require Import Base Token Regex Encode Variance Fold Rule.

Lemma first_some_l_none :
  forall {A B} (f : A -> option B) l, first_some_l f l = None -> Forall (fun a => f a = None) l.
Proof.
  induction l as [|a l IH]; intros H; [constructor|].
  cbn [first_some_l] in H. destruct (f a) eqn:E; [discriminate|]. constructor; [exact E|apply IH; exact H].
Qed.

Lemma find_none_forall : forall {A} (p : A -> bool) l, find p l = None -> Forall (fun a => p a = false) l.
Proof.
  induction l as [|a l IH]; intros H; [constructor|].
  cbn [find] in H. destruct (p a) eqn:E; [discriminate|]. constructor; [exact E|apply IH; exact H].
Qed.

(* a glob that builds has, at every depth, ordered and non-degenerate repetition bounds *)
Lemma check_bounds : forall t, check t = Ok None -> Forall (fun x => bad_bounds x = false) (bfs t).
Proof.
  intros t H. unfold check in H. destruct (rule_boundary t); [discriminate|].
  destruct (rule_bounds t) eqn:E; [discriminate|]. unfold rule_bounds in E.
  destruct (find bad_bounds (bfs t)) eqn:F; [discriminate|]. apply find_none_forall. exact F.
Qed.

(* a glob that builds has no two adjacent boundary tokens in any of its concatenations *)
Lemma check_boundary :
  forall t, check t = Ok None ->
    Forall (fun x => match x with TCat _ ts => adjacent_boundary ts = None | _ => True end) (bfs t).
Proof.
  intros t H. unfold check in H. destruct (rule_boundary t) eqn:E; [discriminate|]. unfold rule_boundary in E.
  match type of E with match ?x with _ => _ end = _ => destruct x eqn:F; [discriminate|] end.
  apply first_some_l_none in F. eapply Forall_impl; [|exact F].
  intros a Ha. destruct a; try exact I. exact Ha.
Qed.

Lemma adjacent_boundary_tail : forall x rest, adjacent_boundary (x :: rest) = None -> adjacent_boundary rest = None.
Proof.
  intros x [|y rest] H; [reflexivity|].
  change (adjacent_boundary (x :: y :: rest)) with
    (if is_boundary x && is_boundary y then Some (span_union (tspan x) (tspan y)) else adjacent_boundary (y :: rest)) in H.
  destruct (is_boundary x && is_boundary y); [discriminate|exact H].
Qed.

Lemma adjacent_boundary_none :
  forall l a b r, adjacent_boundary (l ++ a :: b :: r) = None -> is_boundary a && is_boundary b = false.
Proof.
  induction l as [|x l IH]; intros a b r H.
  - cbn [app] in H.
    change (adjacent_boundary (a :: b :: r)) with
      (if is_boundary a && is_boundary b then Some (span_union (tspan a) (tspan b)) else adjacent_boundary (b :: r)) in H.
    destruct (is_boundary a && is_boundary b); [discriminate|reflexivity].
  - cbn [app] in H. apply adjacent_boundary_tail in H. eapply IH. exact H.
Qed.

(* ---- depth: the variance of the leaves (first step of C10) -------------------------------------------- *)
Definition in_variance (k : N) (v : nvar) : Prop :=
  match v with
  | Inv n => k = n
  | Var Unbounded => True
  | Var (Bounded (BLower lo)) => lo <= k
  | Var (Bounded (BUpper hi)) => k <= hi
  | Var (Bounded (BBoth lo ext)) => lo <= k /\ k <= lo + ext
  end.

Lemma depth_single_leaf :
  forall sp l, depth_variance (TLeaf sp l) =
    match l with
    | LSep => Ok (Inv 0)
    | LTree _ => Ok (Var Unbounded)
    | _ => Ok (Inv 1)
    end.
Proof. intros sp l. destruct l; reflexivity. Qed.
