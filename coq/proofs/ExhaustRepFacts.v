(* ExhaustRepFacts.v -- C09 with repetitions: an `Always` verdict is sound for every pattern whose repetitions are written out at least
   once and are either bounded above or have a body that holds a bounded token (`<a/:1,>`, `<*.{rs,md}:1,3>`), given the rule checker's
   guarantees on the expansion.  The coverage predicate of ExhaustAltFacts without the restriction on the shape of the variances: what
   is needed of the algebra is only that an upper bound never disappears under conjunction, finalisation, or a product by a range that
   is bounded above. *)
From Coq Require Import Arith Lia.
From WaxModel Require Import Base Token Regex Spec Encode Variance Fold Rule Parse Query Glob.
From WaxProofs Require Import SpecFacts EncodeLang RuleFacts DepthFacts ExhaustFacts TextFacts DepthTreeFacts DepthAltFacts BuiltNonempty RuleAdjFacts ParseShape.
From WaxProofs Require Import RuleZomFacts AlgebraFacts AlgebraClosure ExhaustAltFacts.
Local Open Scope nat_scope.

(* ---- upper bounds do not disappear ---------------------------------------------------------------------------------------------------- *)
Lemma vform_hi : forall v, vform v <-> hi_of v = None.
Proof. intros [n|[[k|k|l e]|]]; cbn; split; intros H; try exact I; try reflexivity; try discriminate; try destruct H. Qed.

Lemma safe_ok_inv : forall {A} (P : A -> Prop) r x, safe P r -> r = Ok x -> P x.
Proof. intros A P r x H ->. exact H. Qed.

Lemma tlu_hi : forall l u r, (l <= u)%N -> try_lower_upper l (Some u) = Some r -> hi_of (Var (Bounded r)) = Some u.
Proof.
  intros l u r Hle H. unfold try_lower_upper in H. repeat break_if_in H; try discriminate; inversion H; subst; cbn [hi_of]; arith_hyps; try (f_equal; lia).
Qed.

Lemma fco_hi : forall c u, hi_of (from_closed_open c (Some u)) = Some (N.max c u).
Proof.
  intros c u. unfold from_closed_open. destruct (u <? c)%N eqn:E; arith_hyps.
  - assert (Hm : N.max c u = c) by lia. rewrite Hm.
    destruct (try_lower_upper u (Some c)) as [r|] eqn:Et.
    + pose proof (tlu_hi u c r ltac:(lia) Et) as Hr. destruct u; exact Hr.
    + unfold try_lower_upper in Et. repeat break_if_in Et; try discriminate; arith_hyps; try lia.
  - assert (Hm : N.max c u = u) by lia. rewrite Hm.
    destruct (try_lower_upper c (Some u)) as [r|] eqn:Et.
    + pose proof (tlu_hi c u r E Et) as Hr. destruct c; exact Hr.
    + unfold try_lower_upper in Et. repeat break_if_in Et; try discriminate; arith_hyps; try lia. all: destruct c; cbn [hi_of]; f_equal; lia.
Qed.

Lemma conj_keeps_upper : forall a b c, nv_ok a -> nv_ok b -> nvar_conj a b = Ok c -> vform c -> vform a \/ vform b.
Proof.
  intros [i|[a|]] [j|[b|]] c Ha Hb H Hc; cbn [nvar_conj] in H; try (left; exact I); try (right; exact I).
  - destruct (cadd i j); [|discriminate]. inversion H; subst. destruct Hc.
  - destruct (bvr_translation b i) as [x|] eqn:E; [|discriminate]. inversion H; subst. right.
    destruct b; cbn [bvr_translation] in E; destruct (cadd _ _); try discriminate; inversion E; subst; try destruct Hc; exact I.
  - destruct (bvr_translation a j) as [x|] eqn:E; [|discriminate]. inversion H; subst. left.
    destruct a; cbn [bvr_translation] in E; destruct (cadd _ _); try discriminate; inversion E; subst; try destruct Hc; exact I.
  - destruct (bvr_conj a b) as [x|] eqn:E; [|discriminate]. inversion H; subst. cbn [nv_ok vr_ok] in Ha, Hb.
    destruct a as [ka|ka|la ea]; [left; exact I| |]; (destruct b as [kb|kb|lb eb]; [right; exact I| |]); exfalso;
      unfold bvr_conj in E; cbn [bvr_upper bvr_lower lower_usize upper_usize rbind] in E; unfold cadd in E; cbn [bvr_ok] in Ha, Hb;
      repeat (break_if_in E; cbn [rbind upper_usize lower_usize] in E; try discriminate);
      match type of E with context [try_lower_upper ?l ?u] => destruct (try_lower_upper l u) as [r|] eqn:Et; [|discriminate] end;
      inversion E; subst; unfold try_lower_upper in Et; repeat break_if_in Et; try discriminate; inversion Et; subst; try destruct Hc; arith_hyps; lia.
Qed.

Lemma finalize_keeps_upper : forall s v, st_ok s -> sterm_finalize s = Ok v -> nv_ok v /\ (vform v -> vform (snd s)).
Proof.
  intros [T w] v Hs H. split; [exact (safe_ok_inv _ _ _ (sterm_finalize_safe _ Hs) H)|]. unfold st_ok in Hs. unfold sterm_finalize in H. cbn [fst snd] in *. intros Hv. destruct T.
  - destruct (conj_keeps_upper w (Inv 1%N) v Hs I H Hv) as [H1|[]]. exact H1.
  - inversion H; subst. exact Hv.
  - inversion H; subst. exact Hv.
  - inversion H; subst. destruct w; [destruct Hv|exact Hv].
  - inversion H; subst. exact Hv.
Qed.

Lemma sterm_conj_keeps_upper : forall a b c, st_ok a -> st_ok b -> sterm_conj a b = Ok c -> st_ok c /\ (vform (snd c) -> vform (snd a) \/ vform (snd b)).
Proof.
  intros a b c Ha Hb H. split; [exact (safe_ok_inv _ _ _ (sterm_conj_safe _ _ Ha Hb) H)|]. unfold sterm_conj in H.
  destruct (term_conj (fst a) (fst b)) as [t|t|t].
  - destruct (sterm_finalize a) as [lv|] eqn:Ef; [|discriminate]. cbn [rbind] in H. destruct (nvar_conj lv (snd b)) as [v|] eqn:Ec; [|discriminate]. inversion H; subst. cbn [snd].
    destruct (finalize_keeps_upper a lv Ha Ef) as [F1 F2]. intros Hv. destruct (conj_keeps_upper _ _ _ F1 Hb Ec Hv) as [H1|H1]; [left; exact (F2 H1)|right; exact H1].
  - destruct (sterm_finalize b) as [rv|] eqn:Ef; [|discriminate]. cbn [rbind] in H. destruct (nvar_conj (snd a) rv) as [v|] eqn:Ec; [|discriminate]. inversion H; subst. cbn [snd].
    destruct (finalize_keeps_upper b rv Hb Ef) as [F1 F2]. intros Hv. destruct (conj_keeps_upper _ _ _ Ha F1 Ec Hv) as [H1|H1]; [left; exact H1|right; exact (F2 H1)].
  - destruct (nvar_conj (snd a) (snd b)) as [v|] eqn:Ec; [|discriminate]. inversion H; subst. cbn [snd]. intros Hv. exact (conj_keeps_upper _ _ _ Ha Hb Ec Hv).
Qed.

(* a product by a range that is bounded above keeps an upper bound *)
Lemma product_keeps_upper : forall v r v' h, nv_ok v -> nv_ok r -> hi_of r = Some h -> nvar_product v r = Ok v' -> vform v' -> vform v.
Proof.
  intros v r v' h Hv Hr Hh H Hv'. apply vform_hi in Hv'. apply vform_hi.
  destruct v as [a|[a|]]; [| |reflexivity].
  - exfalso. destruct r as [n|[b|]]; cbn [nvar_product] in H.
    + destruct (cmul a n); [|discriminate]. inversion H; subst. discriminate.
    + destruct (a =? 0)%N; [inversion H; subst; discriminate|]. destruct (bvr_product_nz b a) as [c|] eqn:E; [|discriminate]. inversion H; subst.
      unfold bvr_product_nz in E. destruct (by_bound_product (Var (Bounded b)) (Inv a)) as [x|] eqn:Ex; [|discriminate]. cbn [rbind] in E.
      pose proof (safe_ok_inv _ _ _ (by_bound_product_view _ _) Ex) as Hx. cbn beta in Hx. rewrite Hh in Hx. cbn [hi_of mul_opt] in Hx.
      destruct x as [i|[y|]]; try discriminate. inversion E; subst. rewrite Hx, fco_hi in Hv'. discriminate.
    + discriminate.
  - destruct r as [n|[b|]]; cbn [nvar_product] in H.
    + destruct (n =? 0)%N; [inversion H; subst; discriminate|]. destruct (bvr_product_nz a n) as [c|] eqn:E; [|discriminate]. inversion H; subst.
      unfold bvr_product_nz in E. destruct (by_bound_product (Var (Bounded a)) (Inv n)) as [x|] eqn:Ex; [|discriminate]. cbn [rbind] in E.
      pose proof (safe_ok_inv _ _ _ (by_bound_product_view _ _) Ex) as Hx. cbn beta in Hx.
      destruct (hi_of (Var (Bounded a))) as [ha|] eqn:Ea; [|reflexivity]. exfalso. cbn [hi_of mul_opt] in Hx.
      destruct x as [i|[y|]]; try discriminate. inversion E; subst. rewrite Hx, fco_hi in Hv'. discriminate.
    + destruct (bvr_product a b) as [c|] eqn:E; [|discriminate]. inversion H; subst.
      unfold bvr_product in E. destruct (by_bound_product (Var (Bounded a)) (Var (Bounded b))) as [x|] eqn:Ex; [|discriminate]. cbn [rbind] in E.
      pose proof (safe_ok_inv _ _ _ (by_bound_product_view _ _) Ex) as Hx. cbn beta in Hx. rewrite Hh in Hx.
      destruct (hi_of (Var (Bounded a))) as [ha|] eqn:Ea; [|reflexivity]. exfalso. cbn [mul_opt] in Hx.
      destruct x as [i|y]; try discriminate. inversion E; subst. rewrite Hx, fco_hi in Hv'. discriminate.
    + discriminate.
Qed.

Lemma rep_range_hi : forall lo h, hi_of (rep_range lo (Some h)) = Some (N.max lo h).
Proof. intros lo h. unfold rep_range. apply fco_hi. Qed.

Lemma bterm_product_members : forall x r y, bterm_product x r = Ok y ->
  forall m, In m (members x) -> exists m', In m' (members y) /\ sterm_product m r = Ok m'.
Proof.
  intros [a|ss] r y H m Hm; cbn [bterm_product members] in *.
  - destruct Hm as [<-|[]]. destruct (sterm_product a r) as [c|] eqn:E; [|discriminate]. inversion H; subst. exists c. split; [left; reflexivity|reflexivity].
  - destruct (rmapM (fun a => sterm_product a r) ss) as [cs|] eqn:E; [|discriminate]. inversion H; subst. cbn [members]. clear H.
    revert cs E. induction ss as [|s ss IH]; intros cs E; [contradiction|]. cbn [rmapM rbind] in E.
    destruct (sterm_product s r) as [c|] eqn:Ec; [|discriminate]. cbn [rbind] in E. destruct (rmapM (fun a => sterm_product a r) ss) as [cs'|] eqn:E'; [|discriminate]. cbn [rbind] in E. inversion E; subst.
    destruct Hm as [<-|Hm].
    + exists c. split; [apply set_of_list_in; left; reflexivity|exact Ec].
    + destruct (IH Hm cs' eq_refl) as [m' [H1 H2]]. exists m'. split; [apply set_of_list_in; right; apply set_of_list_in; exact H1|exact H2].
Qed.

(* ---- the class: repetitions written out at least once, bounded above or with a bounded body ---------------------------------------------- *)
Fixpoint frp (t : tok) : bool :=
  match t with
  | TLeaf _ _ => true
  | TAlt _ bs => forallb (fun b => is_branch b && frp b) bs
  | TCat _ ts => forallb frp ts
  | TRep _ b lo hi => is_branch b && (1 <=? lo)%N && (match hi with Some _ => true | None => bounded_branch b end) && frp b
  end.

Definition Cov (t : tok) : Prop :=
  (forall r, exh_fold t = Ok r -> r <> None) /\
  forall b, exh_fold t = Ok (Some b) -> forall x, Expands t x -> exists m, In m (members b) /\ (vform (snd m) -> has_ft x).

Lemma bt_ok_members : forall b, bt_ok b -> forall m, In m (members b) -> st_ok m.
Proof. intros [a|ss] H m Hm; cbn [bt_ok members] in *; [destruct Hm as [<-|[]]; exact H|rewrite Forall_forall in H; exact (H m Hm)]. Qed.

Lemma exh_fold_ok : forall t b, exh_fold t = Ok (Some b) -> bt_ok b.
Proof. intros t b H. exact (safe_ok_inv _ _ _ (exh_fold_safe t) H). Qed.

Lemma forallb_concat : forall (p : leaf -> bool) xs, Forall (fun x => forallb p x = true) xs -> forallb p (concat xs) = true.
Proof. intros p xs H. induction H as [|x xs Hx _ IH]; [reflexivity|]. cbn [concat]. rewrite forallb_app, Hx, IH. reflexivity. Qed.

Lemma free_expands_r : forall t, frp t = true -> all_unbounded t = true -> forall x, Expands t x -> forallb szt x = true.
Proof.
  induction t as [sp l|sp bs IH|sp ts IH|sp b lo hi IH] using tok_ind'; intros Hr Hu x Hx.
  - inversion Hx; subst. cbn [all_unbounded] in Hu. rewrite exh_takes_szt in Hu. cbn [forallb]. rewrite Hu. reflexivity.
  - inversion Hx as [|sp0 bs0 bb x0 Hin Hxb| |]; subst. cbn [frp all_unbounded] in *. rewrite forallb_forall in Hr, Hu. rewrite Forall_forall in IH.
    specialize (Hr bb Hin). apply andb_prop in Hr. exact (IH bb Hin (proj2 Hr) (Hu bb Hin) x Hxb).
  - inversion Hx as [| |sp0 ts0 xs HF|]; subst. cbn [frp all_unbounded] in *. clear Hx. induction HF as [|t0 x0 ts' xs' Hx0 _ IHF]; [reflexivity|].
    inversion IH as [|? ? I0 I']; subst. cbn [forallb] in Hr, Hu. apply andb_prop in Hr, Hu. cbn [concat]. rewrite forallb_app.
    rewrite (I0 (proj1 Hr) (proj1 Hu) x0 Hx0), (IHF I' (proj2 Hr) (proj2 Hu)). reflexivity.
  - inversion Hx as [| | |sp0 b0 lo0 hi0 xs Hb HF]; subst. cbn [frp all_unbounded] in *.
    apply andb_prop in Hr. destruct Hr as [Hr Hfb]. apply andb_prop in Hr. destruct Hr as [Hr _]. apply andb_prop in Hr. destruct Hr as [_ Hlo].
    assert (Hfr : free_rep b lo hi = false). { unfold free_rep. apply N.leb_le in Hlo. destruct (N.eqb_spec lo 0); [lia|reflexivity]. }
    rewrite Hfr in Hu. cbn [orb] in Hu. apply forallb_concat. eapply Forall_impl; [|exact HF]. intros y Hy. exact (IH Hfb Hu y Hy).
Qed.

Lemma free_tok_expands_r : forall t, frp t = true -> free_tok t = true -> forall x, Expands t x -> forallb szt x = true.
Proof. intros t Hr Hf x Hx. destruct t as [sp l| | |]; apply (free_expands_r _ Hr Hf x Hx). Qed.

Lemma fold_cov : forall R ys bs, Forall2 Expands R ys -> Forall2 (fun t b => exh_fold t = Ok (Some b)) R bs ->
  Forall (fun t => Cov t /\ frp t = true) R -> abl_free_t R ->
  forall acc Y sa c, bt_ok acc -> In sa (members acc) -> (vform (snd sa) -> has_ft Y) -> (R <> [] -> forallb szt Y = true) ->
  rfold bterm_conj acc bs = Ok c ->
  exists sc, In sc (members c) /\ (vform (snd sc) -> has_ft (concat (rev ys) ++ Y)).
Proof.
  intros R ys bs HX. revert bs. induction HX as [|r y R' ys' Hy HX' IH]; intros bs HB HS Hab acc Y sa c Hok Hsa Hft Hszt H.
  - inversion HB; subst. cbn in H. inversion H; subst. exists sa. split; [exact Hsa|exact Hft].
  - inversion HB as [|? br ? bs' Hbr HB']; subst. inversion HS as [|? ? [[_ HSr] Hrf] HS']; subst.
    cbn [rfold] in H. destruct (bterm_conj acc br) as [acc'|] eqn:Ec; [|discriminate]. cbn [rbind] in H.
    destruct (HSr br Hbr y Hy) as [m [Hm Hmft]]. pose proof (exh_fold_ok _ _ Hbr) as Hokr.
    destruct (bterm_conj_members _ _ _ sa m Ec Hsa Hm) as [sa' [Hsa' Hin']].
    assert (Hok' : bt_ok acc') by exact (safe_ok_inv _ _ _ (bterm_conj_safe _ _ Hok Hokr) Ec).
    destruct (sterm_conj_keeps_upper _ _ _ (bt_ok_members _ Hok sa Hsa) (bt_ok_members _ Hokr m Hm) Hsa') as [_ Hconv].
    assert (HsY : forallb szt Y = true) by (apply Hszt; discriminate).
    assert (Hft' : vform (snd sa') -> has_ft (y ++ Y)).
    { intros Hv. destruct (Hconv Hv) as [H1|H1]; [apply has_ft_prepend; exact (Hft H1)|apply has_ft_append; [exact (Hmft H1)|exact HsY]]. }
    assert (Hab' : abl_free_t R') by (destruct R' as [|r2 R'']; [exact I|exact (proj2 Hab)]).
    assert (Hszt' : R' <> [] -> forallb szt (y ++ Y) = true).
    { intros Hne. destruct R' as [|r2 R'']; [congruence|]. destruct Hab as [Hfr _]. rewrite forallb_app, HsY, (free_tok_expands_r r Hrf Hfr y Hy). reflexivity. }
    destruct (IH bs' HB' HS' Hab' acc' (y ++ Y) sa' c Hok' Hin' Hft' Hszt' H) as [sc [C2 C3]]. exists sc. split; [exact C2|].
    cbn [rev]. rewrite concat_app. cbn [concat]. rewrite app_nil_r, <- app_assoc. exact C3.
Qed.

Lemma forall2_somes_c : forall (R : list tok) terms0, Forall2 (fun t r => exh_fold t = Ok r) R terms0 -> Forall (fun t => Cov t) R ->
  exists bs, terms0 = map Some bs /\ Forall2 (fun t b => exh_fold t = Ok (Some b)) R bs.
Proof.
  intros R terms0 H. induction H as [|t r R terms Ht _ IH]; intros HS; [exists []; split; [reflexivity|constructor]|].
  inversion HS as [|? ? [Hn _] HS']; subst. destruct (IH HS') as [bs [-> Hbs]]. destruct r as [b|]; [|exfalso; exact (Hn None Ht eq_refl)].
  exists (b :: bs). split; [reflexivity|constructor; assumption].
Qed.

Lemma leaf_cov : forall sp l, Cov (TLeaf sp l).
Proof. intros sp l. destruct (leaf_S sp l) as [H1 H2]. split; [exact H1|]. intros b Hb. exact (proj2 (H2 b Hb)). Qed.

Lemma take_exh_single : forall {A} (b : tok) (a : A), is_branch b = true -> take_exh true [(b, a)] = [(b, a)].
Proof. intros A b a H. destruct b; try discriminate; cbn [take_exh andb]; destruct (bounded_branch _); reflexivity. Qed.

Theorem frp_Cov : forall t, frp t = true -> nonempty_branches t = true -> Cov t.
Proof.
  induction t as [sp l|sp bs IH|sp ts IH|sp b lo hi IH] using tok_ind'; intros Hs Hn.
  - apply leaf_cov.
  - (* alternation: every branch is taken; the term is the disjunction of the branch terms *)
    cbn [frp nonempty_branches] in Hs, Hn. apply andb_prop in Hn. destruct Hn as [Hnil Hn].
    assert (HSb : Forall (fun b => Cov b) bs).
    { apply Forall_forall. intros b Hb. rewrite Forall_forall in IH. rewrite forallb_forall in Hs, Hn. specialize (Hs b Hb). apply andb_prop in Hs. exact (IH b Hb (proj2 Hs) (Hn b Hb)). }
    assert (Hbr : Forall (fun x : tok * res (option bterm) => is_branch (fst x) = true) (rev (combine bs (map exh_fold bs)))).
    { rewrite combine_map. apply Forall_forall. intros [t e] Hin. apply in_rev in Hin. apply in_map_iff in Hin. destruct Hin as [t0 [E Ht0]]. inversion E; subst. cbn [fst].
      rewrite forallb_forall in Hs. specialize (Hs t Ht0). apply andb_prop in Hs. exact (proj1 Hs). }
    assert (Core : forall r, exh_fold (TAlt sp bs) = Ok r -> exists b, r = Some b /\
              forall x, Expands (TAlt sp bs) x -> exists m, In m (members b) /\ (vform (snd m) -> has_ft x)).
    { intros r Hr. cbn [exh_fold] in Hr. rewrite (take_exh_alt _ Hbr) in Hr. rewrite combine_map, <- map_rev in Hr.
      destruct (rmapM snd (map (fun t => (t, exh_fold t)) (rev bs))) as [terms0|] eqn:Em; [|discriminate]. cbn [rbind] in Hr.
      pose proof (rmapM_snd_map _ _ Em) as HF.
      assert (HSr : Forall (fun b => Cov b) (rev bs)) by (apply Forall_forall; intros b Hb; rewrite Forall_forall in HSb; apply HSb; apply in_rev; exact Hb).
      destruct (forall2_somes_c _ _ HF HSr) as [tbs [-> Htbs]]. rewrite flat_map_somes in Hr.
      destruct tbs as [|b1 tbs']. { inversion Htbs as [E1|]. destruct bs as [|b0 bs']; [discriminate|]. cbn [rev] in E1. destruct (rev bs'); discriminate. }
      cbn [rreduce] in Hr. destruct (rfold rdisj b1 tbs') as [c|] eqn:Ef; [|discriminate]. cbn [rmap rbind] in Hr.
      assert (Hmem : forall y, In y (members c) <-> exists bb, In bb (b1 :: tbs') /\ In y (members bb)).
      { intros y. rewrite (rfold_disj_members _ _ _ Ef). split.
        - intros [H1|[bb [Hb Hy]]]; [exists b1; split; [left; reflexivity|exact H1]|exists bb; split; [right; exact Hb|exact Hy]].
        - intros [bb [[<-|Hb] Hy]]; [left; exact Hy|right; exists bb; auto]. }
      assert (Hccov : forall x, Expands (TAlt sp bs) x -> exists m, In m (members c) /\ (vform (snd m) -> has_ft x)).
      { intros x Hx. inversion Hx as [|sp0 bs0 bb x0 Hin Hxb| |]; subst. apply in_rev in Hin.
        destruct (forall2_in_l _ _ _ _ Htbs Hin) as [tb [Htb He]]. rewrite Forall_forall in HSr. destruct (HSr bb Hin) as [_ H2].
        destruct (H2 tb He x Hxb) as [m [Hm Hft]]. exists m. split; [apply Hmem; exists tb; auto|exact Hft]. }
      destruct (Nat.eqb (length bs) (length (b1 :: tbs'))).
      - inversion Hr; subst. exists c. auto.
      - destruct (exh_maybe (Some c)).
        + inversion Hr; subst. exists c. auto.
        + inversion Hr; subst. exists bterm_zero. split; [reflexivity|]. intros x _. exists (TOpen, Inv 0%N). split; [left; reflexivity|intros []]. }
    split.
    + intros r Hr. destruct (Core r Hr) as [b [-> _]]. discriminate.
    + intros b Hb. destruct (Core _ Hb) as [b' [E H2]]. inversion E; subst. exact H2.
  - (* concatenation: the taken suffix, conjoined in reverse *)
    cbn [frp nonempty_branches] in Hs, Hn. apply andb_prop in Hn. destruct Hn as [Hnil Hn].
    assert (HSm : Forall (fun m => Cov m /\ frp m = true) ts).
    { apply Forall_forall. intros m Hm. rewrite Forall_forall in IH. rewrite forallb_forall in Hs, Hn. split; [exact (IH m Hm (Hs m Hm) (Hn m Hm))|exact (Hs m Hm)]. }
    assert (Core : forall r, exh_fold (TCat sp ts) = Ok r -> exists b, r = Some b /\
              forall x, Expands (TCat sp ts) x -> exists m, In m (members b) /\ (vform (snd m) -> has_ft x)).
    { intros r Hr. cbn [exh_fold] in Hr. rewrite combine_map, <- map_rev in Hr.
      set (g := fun t => (t, exh_fold t)) in *.
      destruct (take_exh_shape (map g (rev ts))) as [Habl [rest Hsplit]].
      apply map_eq_app in Hsplit. destruct Hsplit as [R [R2 [Erev [ER ER2]]]].
      rewrite <- ER in Hr, Habl. pose proof (abl_free_map R Habl) as HablT.
      destruct (rmapM snd (map g R)) as [terms0|] eqn:Em; [|discriminate]. cbn [rbind] in Hr.
      pose proof (rmapM_snd_map _ _ Em) as HF.
      assert (HSR : Forall (fun m => Cov m /\ frp m = true) R).
      { apply Forall_forall. intros m Hm. rewrite Forall_forall in HSm. apply HSm. apply in_rev. rewrite Erev. apply in_or_app. left. exact Hm. }
      assert (HSR1 : Forall (fun m => Cov m) R) by (eapply Forall_impl; [|exact HSR]; intros a [Ha _]; exact Ha).
      destruct (forall2_somes_c _ _ HF HSR1) as [tbs [-> Htbs]]. rewrite flat_map_somes in Hr.
      assert (Hzero : exists b, Some bterm_zero = Some b /\
                forall x, Expands (TCat sp ts) x -> exists m, In m (members b) /\ (vform (snd m) -> has_ft x)).
      { exists bterm_zero. split; [reflexivity|]. intros x _. exists (TOpen, Inv 0%N). split; [left; reflexivity|intros []]. }
      destruct R as [|r1 R'].
      - inversion Htbs; subst. cbn [rreduce rbind] in Hr. destruct ts as [|t0 ts']; [discriminate|]. cbn [length Nat.eqb exh_maybe] in Hr. inversion Hr; subst. exact Hzero.
      - inversion Htbs as [|? b1 ? tbs' Hb1 Htbs']; subst. cbn [rreduce] in Hr. destruct (rfold bterm_conj b1 tbs') as [c|] eqn:Ef; [|discriminate]. cbn [rmap rbind] in Hr.
        inversion HSR as [|? ? [[_ HS1] Hrf1] HSR']; subst.
        assert (Hsum : forall x, Expands (TCat sp ts) x -> exists m, In m (members c) /\ (vform (snd m) -> has_ft x)).
        { assert (Hab' : abl_free_t R') by (destruct R' as [|r2 R'']; [exact I|exact (proj2 HablT)]).
          intros x Hx. inversion Hx as [| |sp0 ts0 xs HFx|]; subst.
          assert (HFr : Forall2 Expands (rev ts) (rev xs)) by (apply forall2_rev; exact HFx).
          rewrite Erev in HFr. apply Forall2_app_inv_l in HFr. destruct HFr as [ys [ys2 [HFy [HFy2 Exs]]]].
          inversion HFy as [|? y1 ? ys' Hy1 HFy']; subst.
          destruct (HS1 b1 Hb1 y1 Hy1) as [m1 [Hm1 Hft1]].
          assert (Hszt1 : R' <> [] -> forallb szt y1 = true).
          { intros Hne. destruct R' as [|r2 R'']; [congruence|]. destruct HablT as [Hfr _]. exact (free_tok_expands_r r1 Hrf1 Hfr y1 Hy1). }
          destruct (fold_cov R' ys' tbs' HFy' Htbs' HSR' Hab' b1 y1 m1 c (exh_fold_ok _ _ Hb1) Hm1 Hft1 Hszt1 Ef) as [sc [Hsc Hftc]].
          exists sc. split; [exact Hsc|]. intros Hv. specialize (Hftc Hv).
          assert (Ex : concat xs = concat (rev ys2) ++ (concat (rev ys') ++ y1)).
          { rewrite <- (rev_involutive xs), Exs, rev_app_distr, concat_app. f_equal. cbn [rev]. rewrite concat_app. cbn [concat]. rewrite app_nil_r. reflexivity. }
          rewrite Ex. apply has_ft_prepend. exact Hftc. }
        destruct (Nat.eqb (length ts) (length (b1 :: tbs'))).
        + inversion Hr; subst. exists c. auto.
        + destruct (exh_maybe (Some c)); inversion Hr; subst; [exists c; auto|exact Hzero]. }
    split.
    + intros r Hr. destruct (Core r Hr) as [b [-> _]]. discriminate.
    + intros b0 Hb. destruct (Core _ Hb) as [b' [E H2]]. inversion E; subst. exact H2.
  - (* repetition, written out at least once: the last copy of the body is covered; neither branch of the finalisation loses an upper bound *)
    cbn [frp nonempty_branches] in Hs, Hn.
    apply andb_prop in Hs. destruct Hs as [Hs Hfb]. apply andb_prop in Hs. destruct Hs as [Hs Hhi]. apply andb_prop in Hs. destruct Hs as [Hbr Hlo].
    apply andb_prop in Hn. destruct Hn as [Hnb _]. apply N.leb_le in Hlo.
    destruct (IH Hfb Hnb) as [Hb1 Hb2].
    assert (Core : forall r, exh_fold (TRep sp b lo hi) = Ok r -> exists y, r = Some y /\
              forall x, Expands (TRep sp b lo hi) x -> exists m, In m (members y) /\ (vform (snd m) -> has_ft x)).
    { intros r Hr. cbn [exh_fold] in Hr. rewrite (take_exh_single b (exh_fold b) Hbr) in Hr. cbn [rmapM rbind snd] in Hr.
      destruct (exh_fold b) as [rb|] eqn:Eb; [|discriminate]. cbn [rbind] in Hr. destruct rb as [xb|]; [|exfalso; exact (Hb1 None eq_refl eq_refl)].
      cbn [flat_map opt_list app rreduce rfold rmap rbind length Nat.eqb] in Hr.
      pose proof (exh_fold_ok _ _ Eb) as Hokb.
      (* the last copy *)
      assert (Hlast : forall x, Expands (TRep sp b lo hi) x -> exists m, In m (members xb) /\ (vform (snd m) -> has_ft x)).
      { intros x Hx. inversion Hx as [| | |sp0 b0 lo0 hi0 xs Hbd HF]; subst. destruct Hbd as [Hl _].
        destruct (exists_last (l := xs)) as [ini [xl E]]. { intros ->. cbn in Hl. lia. } subst xs.
        apply Forall_app in HF. destruct HF as [_ HF]. inversion HF as [|? ? Hxl _]; subst.
        destruct (Hb2 xb eq_refl xl Hxl) as [m [Hm Hft]]. exists m. split; [exact Hm|]. intros Hv. rewrite concat_app. cbn [concat]. rewrite app_nil_r.
        apply has_ft_prepend. exact (Hft Hv). }
      destruct (bounded_branch b) eqn:Ebb.
      - inversion Hr; subst. exists xb. split; [reflexivity|exact Hlast].
      - destruct (exh_rep_finalizes xb).
        + destruct (bterm_product xb (rep_range lo hi)) as [y|] eqn:Ep; [|discriminate]. cbn [rbind] in Hr. inversion Hr; subst. exists y. split; [reflexivity|].
          destruct hi as [h|]; [|discriminate].
          intros x Hx. destruct (Hlast x Hx) as [m [Hm Hft]]. destruct (bterm_product_members _ _ _ Ep m Hm) as [m' [Hm' Epm]].
          exists m'. split; [exact Hm'|]. intros Hv. apply Hft. unfold sterm_product in Epm.
          destruct (nvar_product (snd m) (rep_range lo (Some h))) as [v|] eqn:Ev; [|discriminate]. cbn [rbind] in Epm. inversion Epm; subst. cbn [snd] in Hv.
          exact (product_keeps_upper _ _ _ _ (bt_ok_members _ Hokb m Hm) (fco_ok lo (Some h)) (rep_range_hi lo h) Ev Hv).
        + inversion Hr; subst. exists xb. split; [reflexivity|exact Hlast]. }
    split.
    + intros r Hr. destruct (Core r Hr) as [y [-> _]]. discriminate.
    + intros y Hy. destruct (Core _ Hy) as [y' [E H2]]. inversion E; subst. exact H2.
Qed.

(* ---- the verdict -------------------------------------------------------------------------------------------------------------------------- *)
Lemma exhaustive_vform_any : forall v, nvar_is_exhaustive v = true -> vform v.
Proof. intros [n|[[k|k|l e]|]] H; try discriminate; exact I. Qed.

(* C09 with repetitions: for every pattern of the class, an `Always` verdict is sound on every expansion that respects the two adjacency
   rules and does not end with a separator (the known class trailing_boundary) *)
Theorem frp_always_sound : forall orbit t p z x,
  frp t = true -> nonempty_branches t = true -> is_exhaustive t = Ok Always -> nosep z = true ->
  Expands t x -> chain_ok false x = true -> zchain false x = true -> last_opt x <> Some LSep ->
  FlatMatch orbit true true x p -> FlatMatch orbit true true x (p ++ SEP :: z).
Proof.
  intros orbit t p z x Hf Hne He Hz Hx Hc Hzc Hl Hm.
  destruct (frp_Cov t Hf Hne) as [_ HS]. unfold is_exhaustive in He. destruct (exh_fold t) as [[b|]|] eqn:Ef; try discriminate. cbn [rbind] in He. inversion He as [Hal].
  destruct (HS b eq_refl x Hx) as [m [Hmem Hft]].
  pose proof (Hft (exhaustive_vform_any _ (always_members b Hal m Hmem))) as Hxft.
  apply open_tail_l_extends; [|exact Hz|exact Hm]. apply ft_open_tail; assumption.
Qed.

Corollary frp_always_sound_lang : forall orbit t p z,
  frp t = true -> nonempty_branches t = true -> is_exhaustive t = Ok Always -> nosep z = true ->
  (forall x, Expands t x -> chain_ok false x = true /\ zchain false x = true /\ last_opt x <> Some LSep) ->
  Lang orbit t p -> Lang orbit t (p ++ SEP :: z).
Proof.
  intros orbit t p z Hf Hne He Hz Hall [x [Hx Hm]]. destruct (Hall x Hx) as [Hc [Hzc Hl]]. exists x. split; [exact Hx|].
  exact (frp_always_sound orbit t p z x Hf Hne He Hz Hx Hc Hzc Hl Hm).
Qed.

(* the class on built globs: the shape conditions are the parser's *)
Fixpoint required_reps (t : tok) : bool :=
  match t with
  | TLeaf _ _ => true
  | TAlt _ bs => forallb required_reps bs
  | TCat _ ts => forallb required_reps ts
  | TRep _ b lo hi => (1 <=? lo)%N && (match hi with Some _ => true | None => bounded_branch b end) && required_reps b
  end.

Lemma sh_frp : forall t, sh t -> required_reps t = true -> frp t = true.
Proof.
  induction t as [sp l|sp bs IH|sp ts IH|sp b lo hi IH] using tok_ind'; intros Hs Hr; try reflexivity; cbn [sh frp required_reps] in *.
  - induction IH as [|x l Hx _ IHl]; [reflexivity|]. destruct Hs as [[Hc Hsx] Hs']. cbn [forallb] in *. apply andb_prop in Hr. destruct Hr as [Hr1 Hr2].
    rewrite (Hx Hsx Hr1), (IHl Hs' Hr2). destruct x; try discriminate; reflexivity.
  - induction IH as [|x l Hx _ IHl]; [reflexivity|]. destruct Hs as [[Hc Hsx] Hs']. cbn [forallb] in *. apply andb_prop in Hr. destruct Hr as [Hr1 Hr2].
    rewrite (Hx Hsx Hr1), (IHl Hs' Hr2). reflexivity.
  - destruct Hs as [Hc Hsb]. apply andb_prop in Hr. destruct Hr as [Hr Hrb]. apply andb_prop in Hr. destruct Hr as [Hr1 Hr2]. rewrite Hr1, Hr2, (IH Hsb Hrb). destruct b; try discriminate; reflexivity.
Qed.

Theorem built_required_reps_always_sound : forall orbit e t r p z x,
  build e = BuildOk t r -> required_reps t = true -> is_exhaustive t = Ok Always -> nosep z = true ->
  Expands t x -> chain_ok false x = true -> zchain false x = true -> last_opt x <> Some LSep ->
  FlatMatch orbit true true x p -> FlatMatch orbit true true x (p ++ SEP :: z).
Proof.
  intros orbit e t r p z x Hb Hr. pose proof (BuiltNonempty.built_nonempty_branches e t r Hb) as Hne.
  assert (Hf : frp t = true).
  { unfold build in Hb. destruct (parse e) as [t0| |] eqn:Ep; try discriminate. destruct (check t0) as [[[k sp]|]|s]; try discriminate.
    destruct (compile_ok (encode t0)); [|discriminate]. inversion Hb; subst. apply sh_frp; [eapply parse_sh; exact Ep|exact Hr]. }
  exact (frp_always_sound orbit t p z x Hf Hne).
Qed.
