(* DepthFacts.v -- C10 (partial): for patterns that are a concatenation of leaves without tree wildcards, the reported depth is
   invariant and equals the number of components of every canonical path of the documented language. *)
From Coq Require Import Arith Lia.
From WaxModel Require Import Base Token Regex Spec Encode Variance Fold.
From WaxProofs Require Import SpecFacts EncodeLang RuleFacts.

Local Arguments N.add : simpl never.
Local Arguments N.ltb : simpl never.

(* ---- paths ---------------------------------------------------------------------------------------------------- *)
Fixpoint seps (w : str) : N :=
  match w with [] => 0 | c :: w' => (if N.eqb c SEP then 1 else 0) + seps w' end.

Lemma seps_app : forall u v, seps (u ++ v) = seps u + seps v.
Proof. induction u as [|c u IH]; intros v; cbn [app seps]; [lia|]. rewrite IH. lia. Qed.

Lemma nosep_seps : forall w, nosep w = true -> seps w = 0.
Proof.
  induction w as [|c w IH]; intros H; [reflexivity|]. cbn [nosep forallb] in H. apply andb_prop in H. destruct H as [Hc Hw].
  cbn [seps]. fold (nosep w) in Hw. rewrite (IH Hw). destruct (c =? SEP); [discriminate|reflexivity].
Qed.

(* no empty component, except that the path may begin with one separator *)
Fixpoint no_double_sep (w : str) : bool :=
  match w with
  | c :: ((d :: _) as w') => negb (N.eqb c SEP && N.eqb d SEP) && no_double_sep w'
  | _ => true
  end.
Definition canonical (w : str) : bool :=
  no_double_sep w && negb (ends_sep w && negb (is_nil (tl w))).

(* the number of non-empty components of a canonical path *)
Definition ncomp (w : str) : N :=
  match w with
  | [] => 0
  | _ => if starts_sep w then (if is_nil (tl w) then 0 else seps w) else seps w + 1
  end.

(* ---- the depth term of a flat concatenation ----------------------------------------------------------------------- *)
Definition flat_leaf (t : tok) : bool := match t with TLeaf _ (LTree _) => false | TLeaf _ _ => true | _ => false end.
Definition leaf_of (t : tok) : leaf := match t with TLeaf _ l => l | _ => LSep end.
Definition is_sep_leaf (l : leaf) : bool := match l with LSep => true | _ => false end.

Definition count_seps (ls : list leaf) : N := N.of_nat (length (filter is_sep_leaf ls)).

Definition term_of_flags (s e : bool) : termination :=
  match s, e with true, true => TClosed | true, false => TFirst | false, true => TLast | false, false => TOpen end.

Lemma term_conj_flags : forall s1 e1 s2 e2,
  term_conj (term_of_flags s1 e1) (term_of_flags s2 e2) = CNeither (term_of_flags s1 e2).
Proof. intros [] [] [] []; reflexivity. Qed.

Lemma depth_leaf_flat : forall l, (match l with LTree _ => false | _ => true end) = true ->
  depth_leaf l = BConj (term_of_flags (is_sep_leaf l) (is_sep_leaf l), Inv (if is_sep_leaf l then 1 else 0)).
Proof. intros []; try discriminate; reflexivity. Qed.

Lemma last_opt_nonempty : forall {A} (l : list A), l <> [] -> exists x, last_opt l = Some x.
Proof.
  induction l as [|a l IH]; intros H; [congruence|]. destruct l as [|b l']; [exists a; reflexivity|].
  destruct IH as [x Hx]; [discriminate|]. exists x. exact Hx.
Qed.

(* folding the conjunction over flat leaves: the termination remembers whether the first / the last leaf is a separator, the
   depth counts the separators *)
Lemma fold_flat : forall ls s e n acc,
  Forall (fun l => (match l with LTree _ => false | _ => true end) = true) ls ->
  rfold bterm_conj (BConj (term_of_flags s e, Inv n)) (map depth_leaf ls) = Ok acc ->
  acc = BConj (term_of_flags s (match last_opt ls with Some l => is_sep_leaf l | None => e end), Inv (n + count_seps ls)).
Proof.
  induction ls as [|l ls IH]; intros s e n acc HF H.
  - cbn in H. inversion H; subst. unfold count_seps. cbn. f_equal. f_equal. f_equal. lia.
  - inversion HF as [|? ? Hl HF']; subst. cbn [map rfold rbind] in H. rewrite (depth_leaf_flat l Hl) in H.
    cbn [bterm_conj rbind] in H. unfold sterm_conj in H. cbn [fst snd] in H. rewrite term_conj_flags in H.
    cbn [rbind nvar_conj] in H. unfold cadd in H.
    destruct (n + (if is_sep_leaf l then 1 else 0) <? usize_max1) eqn:Eo; cbn [rbind] in H; [|discriminate].
    apply IH in H; [|exact HF']. subst acc.
    assert (E1 : match last_opt (l :: ls) with Some l0 => is_sep_leaf l0 | None => e end =
                 match last_opt ls with Some l0 => is_sep_leaf l0 | None => is_sep_leaf l end).
    { destruct ls as [|l1 ls1]; [reflexivity|]. destruct (last_opt_nonempty (l1 :: ls1)) as [x Hx]; [discriminate|].
      change (last_opt (l :: l1 :: ls1)) with (last_opt (l1 :: ls1)). rewrite Hx. reflexivity. }
    assert (E2 : n + count_seps (l :: ls) = n + (if is_sep_leaf l then 1 else 0) + count_seps ls).
    { unfold count_seps. cbn [filter]. destruct (is_sep_leaf l); cbn [length]; lia. }
    rewrite E1, E2. reflexivity.
Qed.



Section DepthSound.
Variable orbit : char -> list char.
(* case folding never produces a separator (true of Unicode simple case folding; the table is dumped on every run) *)
Hypothesis orbit_nosep : forall c d, In d (orbit c) -> d <> SEP.
Notation FlatMatch := (Spec.FlatMatch orbit).

Definition leaf_ok (l : leaf) : bool :=
  match l with LTree _ => false | LLit _ s => nosep s | _ => true end.

Lemma lit_sem_nosep : forall ci s w, nosep s = true -> lit_sem orbit ci s w -> nosep w = true.
Proof.
  intros ci s w Hs H. induction H as [|c d s w Hm _ IH]; [reflexivity|].
  cbn [nosep forallb] in *. apply andb_prop in Hs. destruct Hs as [Hc Hs]. fold (nosep s) in Hs. fold (nosep w).
  rewrite (IH Hs), andb_true_r. unfold lit_char_match in Hm. apply orb_prop in Hm. destruct Hm as [Hm|Hm].
  - apply N.eqb_eq in Hm. subst d. exact Hc.
  - apply andb_prop in Hm. destruct Hm as [_ Hm]. unfold mem in Hm. apply existsb_exists in Hm. destruct Hm as [x [Hin Hx]].
    apply N.eqb_eq in Hx. subst x. apply negb_true_iff. apply N.eqb_neq. apply (orbit_nosep c d Hin).
Qed.

(* the piece of a flat leaf: a separator is exactly `/`, anything else is separator-free *)
Lemma piece_seps : forall f l a u, leaf_ok a = true -> leaf_piece orbit f l a u ->
  seps u = (if is_sep_leaf a then 1 else 0) /\ (is_sep_leaf a = true -> u = [SEP]).
Proof.
  intros f l a u Ha Hp. destruct a; cbn [leaf_ok leaf_piece is_sep_leaf] in *; try discriminate.
  - split; [|discriminate]. apply nosep_seps. eapply lit_sem_nosep; eassumption.
  - subst u. split; [reflexivity|reflexivity].
  - destruct Hp as [c [-> Hc]]. split; [|discriminate]. unfold class_match in Hc. apply andb_prop in Hc. destruct Hc as [Hc _].
    cbn [seps]. destruct (c =? SEP); [discriminate|reflexivity].
  - destruct Hp as [c [-> Hc]]. split; [|discriminate]. cbn [seps]. apply N.eqb_neq in Hc. rewrite Hc. reflexivity.
  - split; [|discriminate]. apply nosep_seps. exact Hp.
Qed.

Lemma flat_seps : forall x f l w, forallb leaf_ok x = true -> FlatMatch f l x w -> seps w = count_seps x.
Proof.
  induction x as [|a x IH]; intros f l w Hx Hm.
  - inversion Hm; subst. reflexivity.
  - inversion Hm as [|f0 l0 a0 x0 u v Hp Hrest]; subst. cbn [forallb] in Hx. apply andb_prop in Hx. destruct Hx as [Ha Hx].
    rewrite seps_app, (IH _ _ _ Hx Hrest). destruct (piece_seps _ _ _ _ Ha Hp) as [Hs _]. rewrite Hs.
    unfold count_seps. cbn [filter]. destruct (is_sep_leaf a); cbn [length]; lia.
Qed.

Lemma flat_ends : forall x f l w a, forallb leaf_ok x = true -> FlatMatch f l x w -> last_opt x = Some a -> is_sep_leaf a = true ->
  ends_sep w = true.
Proof.
  induction x as [|b x IH]; intros f l w a Hx Hm Hl Ha; [discriminate|].
  inversion Hm as [|f0 l0 a0 x0 u v Hp Hrest]; subst. cbn [forallb] in Hx. apply andb_prop in Hx. destruct Hx as [Hb Hx].
  destruct x as [|c x'].
  - cbn in Hl. inversion Hl; subst b. inversion Hrest; subst. rewrite app_nil_r.
    destruct (piece_seps _ _ _ _ Hb Hp) as [_ Hu]. rewrite (Hu Ha). reflexivity.
  - change (last_opt (b :: c :: x')) with (last_opt (c :: x')) in Hl.
    pose proof (IH _ _ _ _ Hx Hrest Hl Ha) as He. apply ends_sep_iff in He. destruct He as [v' ->].
    apply ends_sep_iff. exists (u ++ v'). apply app_assoc.
Qed.

Definition flat_cat (ts : list tok) : bool :=
  negb (is_nil ts) && forallb (fun t => flat_leaf t && leaf_ok (leaf_of t)) ts.

Lemma expands_flat : forall ts xs, forallb flat_leaf ts = true -> Forall2 Expands ts xs -> concat xs = map leaf_of ts.
Proof.
  intros ts xs Hf H. induction H as [|t x ts xs Hx _ IH]; [reflexivity|].
  cbn [forallb] in Hf. apply andb_prop in Hf. destruct Hf as [Ht Hf]. cbn [concat map]. rewrite (IH Hf).
  destruct t as [sp l| | |]; try discriminate. inversion Hx; subst. reflexivity.
Qed.

Lemma depth_fold_flat : forall ts, forallb flat_leaf ts = true ->
  rmapM depth_fold ts = Ok (map (fun t => Some (depth_leaf (leaf_of t))) ts).
Proof.
  induction ts as [|t ts IH]; intros Hf; [reflexivity|].
  cbn [forallb] in Hf. apply andb_prop in Hf. destruct Hf as [Ht Hf]. cbn [rmapM rbind map].
  destruct t as [sp l| | |]; try discriminate. cbn [depth_fold rbind leaf_of]. rewrite (IH Hf). reflexivity.
Qed.

Lemma flat_map_opt_some : forall {A B} (f : A -> B) l, flat_map opt_list (map (fun a => Some (f a)) l) = map f l.
Proof. induction l as [|a l IH]; [reflexivity|]. cbn. rewrite IH. reflexivity. Qed.

(* the depth a flat pattern reports: the separators, plus one if it neither begins nor ends with one, minus one if both *)
Definition flat_depth (ls : list leaf) : N :=
  let n := count_seps ls in
  match ls with
  | [] => 0
  | l0 :: _ =>
      match is_sep_leaf l0, (match last_opt ls with Some l => is_sep_leaf l | None => false end) with
      | false, false => n + 1
      | true, true => N.pred n
      | _, _ => n
      end
  end.

Theorem depth_flat : forall sp ts v, flat_cat ts = true -> depth_variance (TCat sp ts) = Ok v ->
  v = Inv (flat_depth (map leaf_of ts)).
Proof.
  intros sp ts v Hf Hv. unfold flat_cat in Hf. apply andb_prop in Hf. destruct Hf as [Hne Hall].
  assert (Hfl : forallb flat_leaf ts = true).
  { apply forallb_forall. intros t Ht. rewrite forallb_forall in Hall. specialize (Hall t Ht). apply andb_prop in Hall. apply Hall. }
  unfold depth_variance, rbind in Hv. cbn [depth_fold rbind] in Hv. rewrite (depth_fold_flat ts Hfl) in Hv. cbn [rbind] in Hv.
  rewrite (flat_map_opt_some (fun t => depth_leaf (leaf_of t))) in Hv.
  destruct ts as [|t0 ts']; [discriminate|]. cbn [map rreduce rmap] in Hv.
  assert (Hok : Forall (fun l => (match l with LTree _ => false | _ => true end) = true) (map leaf_of (t0 :: ts'))).
  { apply Forall_forall. intros l Hl. apply in_map_iff in Hl. destruct Hl as [t [<- Ht]].
    rewrite forallb_forall in Hfl. specialize (Hfl t Ht). destruct t as [sp0 l0| | |]; try discriminate. destruct l0; try discriminate; reflexivity. }
  inversion Hok as [|? ? H0 Hrest]; subst.
  rewrite (depth_leaf_flat (leaf_of t0) H0) in Hv.
  rewrite <- (map_map leaf_of depth_leaf) in Hv.
  destruct (rfold bterm_conj (BConj (term_of_flags (is_sep_leaf (leaf_of t0)) (is_sep_leaf (leaf_of t0)),
                                      Inv (if is_sep_leaf (leaf_of t0) then 1 else 0))) (map depth_leaf (map leaf_of ts'))) as [acc|] eqn:Ef; [|discriminate].
  apply fold_flat in Ef; [|exact Hrest]. subst acc. cbn [rmap rbind bterm_finalize sterm_finalize fst snd] in Hv.
  unfold flat_depth. cbn [map].
  assert (Hc : count_seps (leaf_of t0 :: map leaf_of ts') = (if is_sep_leaf (leaf_of t0) then 1 else 0) + count_seps (map leaf_of ts')).
  { unfold count_seps. cbn [filter]. destruct (is_sep_leaf (leaf_of t0)); cbn [length]; lia. }
  rewrite Hc.
  assert (Hl : (match last_opt (leaf_of t0 :: map leaf_of ts') with Some l => is_sep_leaf l | None => false end) =
               (match last_opt (map leaf_of ts') with Some l => is_sep_leaf l | None => is_sep_leaf (leaf_of t0) end)).
  { destruct (map leaf_of ts') as [|l1 ls1] eqn:E; [reflexivity|]. destruct (last_opt_nonempty (l1 :: ls1)) as [x Hx]; [discriminate|].
    change (last_opt (leaf_of t0 :: l1 :: ls1)) with (last_opt (l1 :: ls1)). rewrite Hx. reflexivity. }
  rewrite Hl.
  destruct (is_sep_leaf (leaf_of t0)), (match last_opt (map leaf_of ts') with Some l => is_sep_leaf l | None => _ end);
    cbn [term_of_flags sterm_finalize fst snd nvar_conj rbind] in Hv; unfold cadd in Hv;
    try (match type of Hv with context [if ?c then _ else _] => destruct c; [|discriminate] end); inversion Hv; reflexivity.
Qed.

(* C10 on flat patterns: the number of components of every canonical path of the documented language, that has at least one
   component and begins with a separator exactly when the pattern does, is the reported depth *)
Theorem depth_flat_sound : forall sp ts v p l0 rest,
  flat_cat ts = true -> map leaf_of ts = l0 :: rest ->
  depth_variance (TCat sp ts) = Ok v -> Lang orbit (TCat sp ts) p ->
  canonical p = true -> 1 <= ncomp p -> starts_sep p = is_sep_leaf l0 ->
  in_variance (ncomp p) v.
Proof.
  intros sp ts v p l0 rest Hf Hls Hv [x [Hx Hm]] Hcan Hn Hroot.
  rewrite (depth_flat sp ts v Hf Hv). cbn [in_variance].
  unfold flat_cat in Hf. apply andb_prop in Hf. destruct Hf as [Hne Hall].
  assert (Hfl : forallb flat_leaf ts = true).
  { apply forallb_forall. intros t Ht. rewrite forallb_forall in Hall. specialize (Hall t Ht). apply andb_prop in Hall. apply Hall. }
  inversion Hx; subst. match goal with HF : Forall2 Expands ts ?xs |- _ => rewrite (expands_flat ts xs Hfl HF) in Hm end.
  assert (Hlk : forallb leaf_ok (map leaf_of ts) = true).
  { apply forallb_forall. intros l Hl. apply in_map_iff in Hl. destruct Hl as [t [<- Ht]].
    rewrite forallb_forall in Hall. specialize (Hall t Ht). apply andb_prop in Hall. apply Hall. }
  pose proof (flat_seps _ _ _ _ Hlk Hm) as Hs. rewrite Hls in *. unfold flat_depth.
  destruct (last_opt_nonempty (l0 :: rest)) as [ll Hll]; [discriminate|]. rewrite Hll.
  (* a canonical path with a component ends with a separator only if it is `/` alone, which has no component *)
  assert (Hend : is_sep_leaf ll = true -> False).
  { intros Hsl. pose proof (flat_ends _ _ _ _ ll Hlk Hm Hll Hsl) as He.
    unfold canonical in Hcan. apply andb_prop in Hcan. destruct Hcan as [_ Hc]. rewrite He in Hc. cbn [andb] in Hc.
    apply negb_true_iff in Hc. apply negb_false_iff in Hc.
    destruct p as [|c [|d p']]; [discriminate| |discriminate].
    unfold ends_sep in He. cbn in He. unfold ncomp in Hn. cbn [starts_sep] in Hn. rewrite He in Hn. cbn in Hn. lia. }
  destruct (is_sep_leaf ll) eqn:El; [exfalso; apply Hend; reflexivity|].
  unfold ncomp in *. destruct p as [|c p']; [cbn in Hn; lia|]. rewrite Hroot in *.
  destruct (is_sep_leaf l0).
  - destruct (is_nil (tl (c :: p'))); [lia|exact Hs].
  - rewrite Hs. reflexivity.
Qed.

End DepthSound.
