(* SpanFacts.v -- C17: every span the parser attaches to a token, and every location of a parse error, delimits a run of whole
   characters of the expression (so it lies within the expression and on character boundaries). *)
From Coq Require Import Arith Lia.
From WaxModel Require Import Base Token Parse.
From WaxProofs Require Import ParseFacts.

Local Arguments N.add : simpl never.
Local Arguments N.sub : simpl never.

(* [sp] delimits the characters [mid] of [e] *)
Definition span_ok (e : str) (sp : span) : Prop :=
  exists pre mid post, e = pre ++ mid ++ post /\ fst sp = blen pre /\ snd sp = blen mid.

(* the consequences that matter to a caller that slices the expression by the span *)
Lemma span_ok_in_bounds : forall e sp, span_ok e sp -> fst sp + snd sp <= blen e.
Proof. intros e [s n] [pre [mid [post [-> [Hs Hn]]]]]. cbn [fst snd] in *. subst. rewrite !blen_app. lia. Qed.

(* the parser's input [i] is a suffix of the expression, at its byte location *)
Definition at_ (e : str) (i : input) : Prop := exists pre, e = pre ++ i_s i /\ i_pos i = blen pre.
(* [i1] is [i0] advanced over the characters [mid] *)
Definition adv_rel (i0 i1 : input) : Prop := exists mid, i_s i0 = mid ++ i_s i1 /\ i_pos i1 = i_pos i0 + blen mid.

Lemma adv_refl : forall i, adv_rel i i.
Proof. intros i. exists []. split; [reflexivity|cbn; lia]. Qed.

Lemma adv_trans : forall a b c, adv_rel a b -> adv_rel b c -> adv_rel a c.
Proof.
  intros a b c [m1 [H1 P1]] [m2 [H2 P2]]. exists (m1 ++ m2). split.
  - rewrite H1, H2. apply app_assoc.
  - rewrite P2, P1, blen_app. lia.
Qed.

Lemma at_adv : forall e i0 i1, at_ e i0 -> adv_rel i0 i1 -> at_ e i1.
Proof.
  intros e i0 i1 [pre [He Hp]] [mid [Hs Hq]]. exists (pre ++ mid). split.
  - rewrite He, Hs. apply app_assoc.
  - rewrite Hq, Hp, blen_app. reflexivity.
Qed.

Lemma mk_span_ok : forall e i0 i1, at_ e i0 -> adv_rel i0 i1 -> span_ok e (mk_span i0 i1).
Proof.
  intros e i0 i1 [pre [He Hp]] [mid [Hs Hq]]. exists pre, mid, (i_s i1). unfold mk_span. cbn [fst snd].
  split; [rewrite He, Hs; reflexivity|]. split; [exact Hp|]. rewrite Hq. lia.
Qed.

Lemma same_text_adv : forall i j, i_s j = i_s i -> i_pos j = i_pos i -> adv_rel i j.
Proof. intros i j Hs Hp. exists []. split; [rewrite Hs; reflexivity|rewrite Hp; cbn; lia]. Qed.

Lemma adv1_rel : forall i c r, i_s i = c :: r -> adv_rel i (adv1 i c r).
Proof. intros i c r H. exists [c]. split; [exact H|]. cbn [adv1 i_pos blen]. lia. Qed.

Lemma adv_rel_adv : forall i consumed rest, i_s i = consumed ++ rest -> adv_rel i (adv i consumed rest).
Proof. intros i c r H. exists c. split; [exact H|reflexivity]. Qed.

Lemma tag1_rel : forall c i i', tag1 c i = Some i' -> adv_rel i i'.
Proof.
  intros c i i' H. unfold tag1 in H. destruct (i_s i) as [|d r] eqn:E; [discriminate|].
  destruct (c =? d); [|discriminate]. inversion H; subst. apply adv1_rel. exact E.
Qed.

Lemma set_ci_rel : forall i b, adv_rel i (set_ci i b).
Proof. intros. apply same_text_adv; reflexivity. Qed.
Lemma set_sub_rel : forall i, adv_rel i (set_sub i).
Proof. intros. apply same_text_adv; reflexivity. Qed.

