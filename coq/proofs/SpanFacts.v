(* SpanFacts.v -- C17: every span the parser attaches to a token, and every location of a parse error, delimits a run of whole
   characters of the expression (so it lies within the expression and on character boundaries). *)
From Coq Require Import Arith Lia.
From WaxModel Require Import Base Token Parse.
From WaxProofs Require Import ParseFacts.

Local Arguments N.add : simpl never.
Local Arguments N.sub : simpl never.

(* [sp] delimits the characters [mid] of [e] *)
Definition span_ok (e : str) (sp : span) : Prop :=
  exists pre mid post, e = pre ++ mid ++ post /\ fst sp = blen pre /\ snd sp = blen mid.

(* the consequences that matter to a caller that slices the expression by the span *)
Lemma span_ok_in_bounds : forall e sp, span_ok e sp -> fst sp + snd sp <= blen e.
Proof. intros e [s n] [pre [mid [post [-> [Hs Hn]]]]]. cbn [fst snd] in *. subst. rewrite !blen_app. lia. Qed.

(* the parser's input [i] is a suffix of the expression, at its byte location *)
Definition at_ (e : str) (i : input) : Prop := exists pre, e = pre ++ i_s i /\ i_pos i = blen pre.
(* [i1] is [i0] advanced over the characters [mid] *)
Definition adv_rel (i0 i1 : input) : Prop := exists mid, i_s i0 = mid ++ i_s i1 /\ i_pos i1 = i_pos i0 + blen mid.

Lemma adv_refl : forall i, adv_rel i i.
Proof. intros i. exists []. split; [reflexivity|cbn; lia]. Qed.

Lemma adv_trans : forall a b c, adv_rel a b -> adv_rel b c -> adv_rel a c.
Proof.
  intros a b c [m1 [H1 P1]] [m2 [H2 P2]]. exists (m1 ++ m2). split.
  - rewrite H1, H2. apply app_assoc.
  - rewrite P2, P1, blen_app. lia.
Qed.

Lemma at_adv : forall e i0 i1, at_ e i0 -> adv_rel i0 i1 -> at_ e i1.
Proof.
  intros e i0 i1 [pre [He Hp]] [mid [Hs Hq]]. exists (pre ++ mid). split.
  - rewrite He, Hs. apply app_assoc.
  - rewrite Hq, Hp, blen_app. reflexivity.
Qed.

Lemma mk_span_ok : forall e i0 i1, at_ e i0 -> adv_rel i0 i1 -> span_ok e (mk_span i0 i1).
Proof.
  intros e i0 i1 [pre [He Hp]] [mid [Hs Hq]]. exists pre, mid, (i_s i1). unfold mk_span. cbn [fst snd].
  split; [rewrite He, Hs; reflexivity|]. split; [exact Hp|]. rewrite Hq. lia.
Qed.

Lemma same_text_adv : forall i j, i_s j = i_s i -> i_pos j = i_pos i -> adv_rel i j.
Proof. intros i j Hs Hp. exists []. split; [rewrite Hs; reflexivity|rewrite Hp; cbn; lia]. Qed.

Lemma adv1_rel : forall i c r, i_s i = c :: r -> adv_rel i (adv1 i c r).
Proof. intros i c r H. exists [c]. split; [exact H|]. cbn [adv1 i_pos blen]. lia. Qed.

Lemma adv_rel_adv : forall i consumed rest, i_s i = consumed ++ rest -> adv_rel i (adv i consumed rest).
Proof. intros i c r H. exists c. split; [exact H|reflexivity]. Qed.

Lemma tag1_rel : forall c i i', tag1 c i = Some i' -> adv_rel i i'.
Proof.
  intros c i i' H. unfold tag1 in H. destruct (i_s i) as [|d r] eqn:E; [discriminate|].
  destruct (c =? d); [|discriminate]. inversion H; subst. apply adv1_rel. exact E.
Qed.

Lemma set_ci_rel : forall i b, adv_rel i (set_ci i b).
Proof. intros. apply same_text_adv; reflexivity. Qed.
Lemma set_sub_rel : forall i, adv_rel i (set_sub i).
Proof. intros. apply same_text_adv; reflexivity. Qed.

Lemma flag_toggles_rel : forall fuel i any i', flag_toggles fuel i any = Some i' -> adv_rel i i'.
Proof.
  induction fuel as [|f IH]; intros i any i' H; cbn [flag_toggles] in H.
  - destruct any; [|discriminate]. inversion H; subst. apply adv_refl.
  - assert (Hstop : (if any then Some i else None) = Some i' -> adv_rel i i').
    { intros H0. destruct any; [|discriminate]. inversion H0; subst. apply adv_refl. }
    destruct (i_s i) as [|c r] eqn:E; [exact (Hstop H)|].
    destruct (c =? c_i).
    + apply IH in H. eapply adv_trans; [|exact H]. eapply adv_trans; [apply (adv1_rel i c r E)|apply set_ci_rel].
    + destruct (c =? c_minus); [|exact (Hstop H)].
      destruct r as [|c2 r2]; [exact (Hstop H)|]. destruct (c2 =? c_i); [|exact (Hstop H)].
      apply IH in H. eapply adv_trans; [|exact H].
      eapply adv_trans; [apply (adv1_rel i c (c2 :: r2) E)|].
      eapply adv_trans; [apply (adv1_rel _ c2 r2); reflexivity|apply set_ci_rel].
Qed.

Lemma flag_group_rel : forall i i', flag_group i = Some i' -> adv_rel i i'.
Proof.
  intros i i' H. unfold flag_group in H. destruct (i_s i) as [|c1 [|c2 r]] eqn:E; try discriminate.
  destruct ((c1 =? c_lparen) && (c2 =? c_qmark)); [|discriminate].
  destruct (flag_toggles (length r) _ false) as [i2|] eqn:Et; [|discriminate].
  apply flag_toggles_rel in Et. apply tag1_rel in H.
  eapply adv_trans; [apply (adv1_rel i c1 (c2 :: r) E)|]. eapply adv_trans; [apply (adv1_rel _ c2 r); reflexivity|].
  eapply adv_trans; eassumption.
Qed.

Lemma flags_with_state_f_rel : forall fuel i, adv_rel i (flags_with_state_f fuel i).
Proof.
  induction fuel as [|f IH]; intros i; cbn [flags_with_state_f]; [apply adv_refl|].
  destruct (flag_group i) as [i'|] eqn:E; [|apply adv_refl]. eapply adv_trans; [apply flag_group_rel; exact E|apply IH].
Qed.

Lemma flags_with_state_rel : forall i, adv_rel i (flags_with_state i).
Proof. intros. apply flags_with_state_f_rel. Qed.

(* ---- literals and classes: what is consumed is a prefix of the remaining text ------------------------------------------ *)
Lemma lit_chars_suffix_n : forall n s t rest, (length s <= n)%nat -> lit_chars s = Some (t, rest) -> exists c, s = c ++ rest.
Proof.
  induction n as [|n IH]; intros s t rest Hn H.
  - destruct s; [|cbn in Hn; lia]. cbn in H. inversion H; subst. exists []. reflexivity.
  - destruct s as [|c s]; [cbn in H; inversion H; subst; exists []; reflexivity|]. cbn [lit_chars] in H. cbn [length] in Hn.
    destruct (c =? BSLASH).
    + destruct s as [|d s']; [discriminate|]. destruct (mem d LIT_ESCAPABLE); [|discriminate].
      destruct (lit_chars s') as [[t' rest']|] eqn:E; [|discriminate]. inversion H; subst.
      destruct (IH s' t' rest) as [c0 ->]; [cbn [length] in Hn; lia|exact E|]. exists (c :: d :: c0). reflexivity.
    + destruct (mem c LIT_SPECIAL); [inversion H; subst; exists []; reflexivity|].
      destruct (lit_chars s) as [[t' rest']|] eqn:E; [|discriminate]. inversion H; subst.
      destruct (IH s t' rest) as [c0 ->]; [lia|exact E|]. exists (c :: c0). reflexivity.
Qed.

Lemma lit_chars_suffix : forall s t rest, lit_chars s = Some (t, rest) -> exists c, s = c ++ rest.
Proof. intros s t rest. apply (lit_chars_suffix_n (length s)). lia. Qed.

Lemma consumed_of_app : forall c rest, consumed_of (c ++ rest) rest = c.
Proof.
  intros c rest. unfold consumed_of. rewrite app_length. replace (length c + length rest - length rest)%nat with (length c) by lia.
  rewrite firstn_app, Nat.sub_diag, firstn_all. cbn. apply app_nil_r.
Qed.

Lemma p_literal_rel : forall i l i', p_literal i = Some (l, i') -> adv_rel i i'.
Proof.
  intros i l i' H. unfold p_literal in H. destruct (lit_chars (i_s i)) as [[text rest]|] eqn:E; [|discriminate].
  destruct (is_nil text); [discriminate|]. inversion H; subst. destruct (lit_chars_suffix _ _ _ E) as [c Hc].
  apply adv_rel_adv. rewrite Hc, consumed_of_app. reflexivity.
Qed.

Lemma class_char_suffix : forall s a r, class_char s = Some (a, r) -> exists c, s = c ++ r.
Proof.
  intros s a r H. unfold class_char in H. destruct s as [|c s]; [discriminate|]. destruct (c =? BSLASH).
  - destruct s as [|d s']; [discriminate|]. destruct (mem d CLASS_ESCAPABLE); [|discriminate]. inversion H; subst. exists [c; a]. reflexivity.
  - destruct (mem c CLASS_SPECIAL); [discriminate|]. inversion H; subst. exists [a]. reflexivity.
Qed.

Lemma class_arch_suffix : forall s a r, class_arch s = Some (a, r) -> exists c, s = c ++ r.
Proof.
  intros s a r H. unfold class_arch in H. destruct (class_char s) as [[x r0]|] eqn:E; [|discriminate].
  destruct (class_char_suffix _ _ _ E) as [c0 ->].
  destruct r0 as [|c r1]; [inversion H; subst; exists c0; reflexivity|].
  destruct (c =? c_minus); [|inversion H; subst; exists c0; reflexivity].
  destruct (class_char r1) as [[b r2]|] eqn:E2; [|inversion H; subst; exists c0; reflexivity].
  inversion H; subst. destruct (class_char_suffix _ _ _ E2) as [c1 ->]. exists (c0 ++ c :: c1). rewrite <- app_assoc. reflexivity.
Qed.

Lemma class_archs_suffix : forall fuel s l r, class_archs fuel s = (l, r) -> exists c, s = c ++ r.
Proof.
  induction fuel as [|f IH]; intros s l r H; cbn [class_archs] in H.
  - inversion H; subst. exists []. reflexivity.
  - destruct (class_arch s) as [[a r0]|] eqn:E; [|inversion H; subst; exists []; reflexivity].
    destruct (class_archs f r0) as [l' r'] eqn:E2. inversion H; subst.
    destruct (class_arch_suffix _ _ _ E) as [c0 ->]. destruct (IH _ _ _ E2) as [c1 ->].
    exists (c0 ++ c1). rewrite <- app_assoc. reflexivity.
Qed.

Lemma p_class_rel : forall i l i', p_class i = Some (l, i') -> adv_rel i i'.
Proof.
  intros i l i' H. unfold p_class in H. destruct (i_s i) as [|c r] eqn:E; [discriminate|].
  destruct (c =? c_lbrack); [|discriminate].
  set (nr := match r with c2 :: r' => if c2 =? c_bang then (true, r') else (false, r) | [] => (false, r) end) in H.
  assert (Hr : exists c0, r = c0 ++ snd nr).
  { subst nr. destruct r as [|c2 r']; [exists []; reflexivity|]. destruct (c2 =? c_bang); [exists [c2]; reflexivity|exists []; reflexivity]. }
  destruct nr as [neg r1]. cbn [snd] in Hr. destruct Hr as [c0 ->].
  destruct (class_archs (length r1) r1) as [archs r2] eqn:Ea. destruct (class_archs_suffix _ _ _ _ Ea) as [c1 ->].
  destruct archs as [|a archs]; [discriminate|]. destruct r2 as [|c3 r3]; [discriminate|].
  destruct (c3 =? c_rbrack); [|discriminate]. inversion H; subst.
  apply adv_rel_adv.
  assert (Hs : c :: c0 ++ c1 ++ c3 :: r3 = (c :: c0 ++ c1 ++ [c3]) ++ r3).
  { cbn [app]. f_equal. rewrite <- !app_assoc. reflexivity. }
  rewrite E, Hs, consumed_of_app. reflexivity.
Qed.

Lemma p_wildcard_rel : forall tm i l i', p_wildcard tm i = Some (l, i') -> adv_rel i i'.
Proof.
  intros tm i l i' H. unfold p_wildcard in H.
  destruct (match i_s i with d :: _ => d =? c_qmark | [] => false end).
  - destruct (i_s i) as [|c r] eqn:E; [discriminate|]. inversion H; subst. apply adv1_rel. exact E.
  - match type of H with (match ?T with _ => _ end) = _ => destruct T as [[l1 i1]|] eqn:Et end.
    + inversion H; subst. clear H.
      match type of Et with (match ?P with _ => _ end) = _ => destruct P as [[root i1]|] eqn:Ep; [|discriminate] end.
      assert (Hp : adv_rel i i1).
      { destruct (i_s i) as [|c r] eqn:E.
        - destruct (i_sub i =? i_pos i); [|discriminate]. inversion Ep; subst. apply flags_with_state_rel.
        - destruct (c =? SEP).
          + inversion Ep; subst. eapply adv_trans; [apply (adv1_rel i c r E)|apply flags_with_state_rel].
          + destruct (i_sub i =? i_pos i); [|discriminate]. inversion Ep; subst. apply flags_with_state_rel. }
      destruct (i_s i1) as [|c1 [|c2 r]] eqn:E1; try discriminate.
      destruct ((c1 =? c_star) && (c2 =? c_star)); [|discriminate].
      set (i2 := adv1 (adv1 i1 c1 (c2 :: r)) c2 r) in *.
      assert (H2 : adv_rel i i2).
      { eapply adv_trans; [exact Hp|]. eapply adv_trans; [apply (adv1_rel i1 c1 (c2 :: r) E1)|apply (adv1_rel _ c2 r); reflexivity]. }
      destruct (i_s (flags_with_state i2)) as [|c3 r3] eqn:E3.
      * destruct (term_ok tm i2); [|discriminate]. inversion Et; subst. exact H2.
      * destruct (c3 =? SEP).
        -- inversion Et; subst. eapply adv_trans; [exact H2|]. eapply adv_trans; [apply flags_with_state_rel|apply adv1_rel; exact E3].
        -- destruct (term_ok tm i2); [|discriminate]. inversion Et; subst. exact H2.
    + destruct (i_s i) as [|c r] eqn:E; [discriminate|].
      destruct (c =? c_star).
      * destruct (zom_lookahead (adv1 i c r) || term_ok tm (adv1 i c r)); [|discriminate]. inversion H; subst. apply adv1_rel. exact E.
      * destruct (c =? c_dollar); [|discriminate].
        destruct (zom_lookahead (adv1 i c r) || term_ok tm (adv1 i c r)); [|discriminate]. inversion H; subst. apply adv1_rel. exact E.
Qed.

Lemma digits_suffix : forall s d r, digits s = (d, r) -> s = d ++ r.
Proof.
  induction s as [|c s IH]; intros d r H; cbn [digits] in H.
  - inversion H; subst. reflexivity.
  - destruct (is_digit c).
    + destruct (digits s) as [d' r'] eqn:E. inversion H; subst. rewrite (IH _ _ eq_refl). reflexivity.
    + inversion H; subst. reflexivity.
Qed.

Lemma p_bounds_rel : forall i b i', p_bounds i = (b, i') -> adv_rel i i'.
Proof.
  intros i b i' H. unfold p_bounds in H.
  destruct (i_s i) as [|c r] eqn:E; [injection H as _ <-; apply adv_refl|].
  destruct (c =? c_colon); [|injection H as _ <-; apply adv_refl].
  destruct (digits r) as [d1 r1] eqn:Ed. pose proof (digits_suffix _ _ _ Ed) as Hr.
  assert (H1 : adv_rel i (adv1 i c r)) by (apply adv1_rel; exact E).
  assert (Hconv : forall b0 i0,
            (if is_nil d1 then ((1, None), adv1 i c r)
             else match parse_usize d1 with Some n => ((n, Some n), adv (adv1 i c r) d1 r1) | None => ((1, None), adv1 i c r) end) = (b0, i0) ->
            adv_rel i i0).
  { intros b0 i0 H0. destruct (is_nil d1); [injection H0 as _ <-; exact H1|].
    destruct (parse_usize d1); injection H0 as _ <-; [|exact H1].
    eapply adv_trans; [exact H1|]. apply adv_rel_adv. exact Hr. }
  destruct (is_nil d1) eqn:En; [injection H as _ <-; exact H1|].
  destruct r1 as [|c4 r2]; [apply (Hconv _ _ H)|].
  destruct (c4 =? c_comma) eqn:Ec; [|apply (Hconv _ _ H)].
  destruct (digits r2) as [d2 r3] eqn:Ed2. pose proof (digits_suffix _ _ _ Ed2) as Hr2.
  destruct (parse_usize d1) as [lo|]; [|apply (Hconv _ _ H)].
  destruct (if is_nil d2 then Some None else option_map Some (parse_usize d2)) as [hi|]; [|apply (Hconv _ _ H)].
  injection H as _ <-. eapply adv_trans; [exact H1|]. apply adv_rel_adv. cbn [adv1 i_s].
  apply N.eqb_eq in Ec. rewrite Hr, Hr2, Ec. unfold c_comma. rewrite <- !app_assoc. reflexivity.
Qed.

(* ---- the recursive grammar ------------------------------------------------------------------------------------------- *)
Fixpoint spans_ok (e : str) (t : tok) : Prop :=
  span_ok e (tspan t) /\
  match t with
  | TLeaf _ _ => True
  | TAlt _ bs => (fix go (l : list tok) : Prop := match l with [] => True | x :: l' => spans_ok e x /\ go l' end) bs
  | TCat _ ts => (fix go (l : list tok) : Prop := match l with [] => True | x :: l' => spans_ok e x /\ go l' end) ts
  | TRep _ b _ _ => spans_ok e b
  end.

Fixpoint all_spans_ok (e : str) (l : list tok) : Prop :=
  match l with [] => True | x :: l' => spans_ok e x /\ all_spans_ok e l' end.

Lemma spans_ok_cat : forall e sp ts, span_ok e sp -> all_spans_ok e ts -> spans_ok e (TCat sp ts).
Proof.
  intros e sp ts Hs Ha. cbn [spans_ok tspan]. split; [exact Hs|]. induction ts as [|t ts IH]; [exact I|].
  destruct Ha as [Ht Ha]. split; [exact Ht|apply IH; exact Ha].
Qed.
Lemma spans_ok_alt : forall e sp ts, span_ok e sp -> all_spans_ok e ts -> spans_ok e (TAlt sp ts).
Proof.
  intros e sp ts Hs Ha. cbn [spans_ok tspan]. split; [exact Hs|]. induction ts as [|t ts IH]; [exact I|].
  destruct Ha as [Ht Ha]. split; [exact Ht|apply IH; exact Ha].
Qed.

Lemma head_test : forall s k c r,
  (match s with c0 :: r0 => if c0 =? k then Some (c0, r0) else None | [] => None end) = Some (c, r) -> s = c :: r.
Proof. intros [|c0 r0] k c r H; [discriminate|]. destruct (c0 =? k); inversion H; reflexivity. Qed.

Section Grammar.
Variable e : str.

Definition tokens_ok (f : nat) : Prop :=
  forall tm i ts i', p_tokens f tm i = POk (ts, i') -> at_ e i -> adv_rel i i' /\ all_spans_ok e ts.
Definition token_ok (f : nat) : Prop :=
  forall tm i t i', p_token f tm i = POk (t, i') -> at_ e i -> adv_rel i i' /\ spans_ok e t.
Definition branches_ok (f : nat) : Prop :=
  forall i bs i', p_branches f i = POk (bs, i') -> at_ e i -> adv_rel i i' /\ all_spans_ok e bs.
Definition glob_ok (f : nat) : Prop :=
  forall tm i t i', p_glob f tm i = POk (t, i') -> at_ e i -> adv_rel i i' /\ spans_ok e t.

(* the leaf alternatives that follow the branches in p_token *)
Ltac leaf_done i iF HF Hat lemma :=
  match goal with
  | Ex : _ iF = Some (_, ?j) |- adv_rel i ?j /\ _ =>
      assert (adv_rel i j) by (eapply adv_trans; [exact HF|eapply lemma; exact Ex]);
      split; [assumption|cbn [spans_ok tspan]; split; [apply mk_span_ok; assumption|exact I]]
  end.

Ltac leaf_tail H i iF HF Hat :=
  match type of H with context [p_wildcard ?tm iF] =>
    let Ew := fresh "Ew" in
    destruct (p_wildcard tm iF) as [[? ?]|] eqn:Ew; cbn [leaf_tok] in H;
    [ inversion H; subst; clear H; leaf_done i iF HF Hat p_wildcard_rel
    | let Ec := fresh "Ec" in
      destruct (p_class iF) as [[? ?]|] eqn:Ec; cbn [leaf_tok] in H;
      [ inversion H; subst; clear H; clear Ew; leaf_done i iF HF Hat p_class_rel
      | let Es := fresh "Es" in
        match type of H with (match ?T with _ => _ end) = _ =>
          destruct T as [[? ?]|] eqn:Es; [|discriminate];
          apply head_test in Es; inversion H; subst; clear H;
          match goal with Es' : i_s iF = ?c :: ?r |- _ =>
            assert (adv_rel i (adv1 iF c r)) by (eapply adv_trans; [exact HF|apply adv1_rel; exact Es']);
            split; [assumption|cbn [spans_ok tspan]; split; [apply mk_span_ok; assumption|exact I]]
          end
        end ] ]
  end.

Lemma step_ok : forall f, tokens_ok f -> token_ok f -> branches_ok f -> glob_ok f ->
  tokens_ok (S f) /\ token_ok (S f) /\ branches_ok (S f) /\ glob_ok (S f).
Proof.
  intros f IHts IHt IHb IHg. split; [|split; [|split]].
  - (* p_tokens *)
    intros tm i ts i' H Hat. cbn [p_tokens] in H.
    destruct (p_token f tm i) as [[t i1]| |] eqn:Et; [| |discriminate].
    + destruct (IHt _ _ _ _ Et Hat) as [Ha Hs].
      destruct (p_tokens f tm i1) as [[ts' i2]| |] eqn:Ets; try discriminate. inversion H; subst.
      destruct (IHts _ _ _ _ Ets (at_adv _ _ _ Hat Ha)) as [Ha' Hs']. split; [eapply adv_trans; eassumption|]. split; assumption.
    + inversion H; subst. split; [apply adv_refl|exact I].
  - (* p_token *)
    intros tm i t i' H Hat. cbn [p_token] in H.
    set (iF := flags_with_state i) in *.
    assert (HF : adv_rel i iF) by apply flags_with_state_rel.
    assert (HatF : at_ e iF) by (eapply at_adv; eassumption).
    destruct (p_literal iF) as [[l1 i1]|] eqn:El; cbn [leaf_tok] in H.
    { inversion H; subst. assert (adv_rel i i') by (eapply adv_trans; [exact HF|eapply p_literal_rel; exact El]).
      split; [assumption|]. cbn [spans_ok tspan]. split; [apply mk_span_ok; assumption|exact I]. }
    (* the alternation and what follows it, used after every way the repetition can fail *)
    assert (AltTail :
      match
        match (match i_s iF with c :: r => if c =? c_lbrace then Some (c, r) else None | [] => None end) with
        | Some (c, r) =>
            match p_branches f (adv1 iF c r) with
            | PFuel => PFuel
            | PErr => POk None
            | POk (bs, i1) => match tag1 c_rbrace i1 with Some i2 => POk (Some (TAlt (mk_span i i2) bs, i2)) | None => POk None end
            end
        | None => POk None
        end
      with
      | PFuel => PFuel
      | PErr => PErr
      | POk (Some x) => POk x
      | POk None =>
          match leaf_tok i (p_wildcard tm iF) with
          | Some x => POk x
          | None => match leaf_tok i (p_class iF) with
                    | Some x => POk x
                    | None => match (match i_s iF with c :: r => if c =? SEP then Some (c, r) else None | [] => None end) with
                              | Some (c, r) => POk (TLeaf (mk_span i (adv1 iF c r)) LSep, adv1 iF c r)
                              | None => PErr
                              end
                    end
          end
      end = POk (t, i') -> adv_rel i i' /\ spans_ok e t).
    { intros HA.
      destruct (match i_s iF with c :: r => if c =? c_lbrace then Some (c, r) else None | [] => None end) as [[c r]|] eqn:Elb.
      - apply head_test in Elb.
        destruct (p_branches f (adv1 iF c r)) as [[bs i1]| |] eqn:Eb; [| |discriminate].
        + assert (Ha1 : adv_rel i (adv1 iF c r)) by (eapply adv_trans; [exact HF|apply adv1_rel; exact Elb]).
          destruct (IHb _ _ _ Eb (at_adv _ _ _ Hat Ha1)) as [Hab Hsb].
          destruct (tag1 c_rbrace i1) as [i2|] eqn:Etg.
          * inversion HA; subst. apply tag1_rel in Etg.
            assert (adv_rel i i') by (eapply adv_trans; [exact Ha1|eapply adv_trans; eassumption]).
            split; [assumption|]. apply spans_ok_alt; [apply mk_span_ok; assumption|exact Hsb].
          * leaf_tail HA i iF HF Hat.
        + leaf_tail HA i iF HF Hat.
      - leaf_tail HA i iF HF Hat. }
    destruct (match i_s iF with c :: r => if c =? c_lt then Some (c, r) else None | [] => None end) as [[c r]|] eqn:Elt.
    + apply head_test in Elt.
      destruct (p_glob f TermRep (adv1 iF c r)) as [[body i1]| |] eqn:Eg; [| |discriminate].
      * assert (Ha1 : adv_rel i (adv1 iF c r)) by (eapply adv_trans; [exact HF|apply adv1_rel; exact Elt]).
        destruct (IHg _ _ _ _ Eg (at_adv _ _ _ Hat Ha1)) as [Hag Hsg].
        destruct (p_bounds i1) as [[lo hi] i2] eqn:Ebd. pose proof (p_bounds_rel _ _ _ Ebd) as Hab.
        destruct (tag1 c_gt i2) as [i3|] eqn:Etg.
        -- inversion H; subst. apply tag1_rel in Etg.
           assert (adv_rel i i') by (eapply adv_trans; [exact Ha1|eapply adv_trans; [exact Hag|eapply adv_trans; eassumption]]).
           split; [assumption|]. cbn [spans_ok tspan]. split; [apply mk_span_ok; assumption|exact Hsg].
        -- apply AltTail. exact H.
      * apply AltTail. exact H.
    + apply AltTail. exact H.
  - (* p_branches *)
    intros i bs i' H Hat. cbn [p_branches] in H.
    destruct (p_glob f TermAlt i) as [[b i1]| |] eqn:Eg; try discriminate.
    destruct (IHg _ _ _ _ Eg Hat) as [Hag Hsg].
    destruct (match i_s i1 with c :: r => if c =? c_comma then Some (c, r) else None | [] => None end) as [[c r]|] eqn:Ec.
    + apply head_test in Ec.
      destruct (p_branches f (adv1 i1 c r)) as [[bs' i2]| |] eqn:Eb; [| |discriminate].
      * inversion H; subst.
        assert (Ha1 : adv_rel i (adv1 i1 c r)) by (eapply adv_trans; [exact Hag|apply adv1_rel; exact Ec]).
        destruct (IHb _ _ _ Eb (at_adv _ _ _ Hat Ha1)) as [Hab Hsb].
        split; [eapply adv_trans; eassumption|]. split; assumption.
      * inversion H; subst. split; [exact Hag|]. split; [exact Hsg|exact I].
    + inversion H; subst. split; [exact Hag|]. split; [exact Hsg|exact I].
  - (* p_glob *)
    intros tm i t i' H Hat. cbn [p_glob] in H.
    destruct (p_tokens f tm (set_sub i)) as [[ts i1]| |] eqn:Ets; try discriminate.
    assert (Hs : adv_rel i (set_sub i)) by apply set_sub_rel.
    destruct (IHts _ _ _ _ Ets (at_adv _ _ _ Hat Hs)) as [Ha Hok].
    destruct ts as [|t0 ts']; [discriminate|]. destruct (term_ok tm i1); [|discriminate]. inversion H; subst.
    split; [exact (adv_trans _ _ _ Hs Ha)|]. apply spans_ok_cat; [|exact Hok].
    apply mk_span_ok; [exact (at_adv _ _ _ Hat Hs)|exact Ha].
Qed.

Theorem grammar_ok : forall f, tokens_ok f /\ token_ok f /\ branches_ok f /\ glob_ok f.
Proof.
  induction f as [|f [H1 [H2 [H3 H4]]]].
  - split; [|split; [|split]]; intro; intros; cbn in *; discriminate.
  - apply step_ok; assumption.
Qed.

End Grammar.

(* ---- the entry point -------------------------------------------------------------------------------------------------- *)
Lemma err_span_ok : forall e j, at_ e j -> span_ok e (err_span (i_pos j) (i_s j)).
Proof.
  intros e j [pre [He Hp]]. destruct (i_s j) as [|c r] eqn:E; cbn [err_span].
  - exists pre, [], []. rewrite He. cbn [fst snd blen app]. split; [rewrite app_nil_r; reflexivity|]. split; [exact Hp|reflexivity].
  - exists pre, [c], r. rewrite He. cbn [fst snd blen app]. split; [reflexivity|]. split; [exact Hp|lia].
Qed.

Lemma at_init : forall e, at_ e (init_input e).
Proof. intros e. exists []. split; reflexivity. Qed.

(* C17: every span of the token tree of an expression that parses delimits whole characters of the expression *)
Theorem parse_spans_ok : forall e t, parse e = ParseOk t -> spans_ok e t.
Proof.
  intros e t H. unfold parse in H. destruct e as [|c e'].
  - inversion H; subst. cbn. split; [|exact I]. exists [], [], []. repeat split.
  - set (e := c :: e') in *.
    destruct (p_tokens (parse_fuel e) TermTop (set_sub (init_input e))) as [[ts i1]| |] eqn:Ep; try discriminate.
    destruct (grammar_ok e (parse_fuel e)) as [Hts _].
    assert (Hat : at_ e (set_sub (init_input e))) by (eapply at_adv; [apply at_init|apply set_sub_rel]).
    destruct (Hts _ _ _ _ Ep Hat) as [Ha Hok].
    destruct ts as [|t0 ts']; [discriminate|]. destruct (i_s i1) as [|c1 r1] eqn:Es; [|discriminate].
    inversion H; subst. apply spans_ok_cat; [|exact Hok].
    destruct (at_adv _ _ _ Hat Ha) as [pre [He Hp]]. rewrite Es, app_nil_r in He.
    exists [], e, []. cbn [fst snd blen app]. rewrite app_nil_r. split; [reflexivity|]. split; [reflexivity|]. rewrite Hp, He. reflexivity.
Qed.

(* and every location of a parse error covers one whole character of the expression, or nothing at its end *)
Theorem parse_error_spans_ok : forall e locs, parse e = ParseErr locs -> Forall (span_ok e) locs.
Proof.
  intros e locs H. unfold parse in H. destruct e as [|c e']; [discriminate|].
  set (e := c :: e') in *.
  destruct (p_tokens (parse_fuel e) TermTop (set_sub (init_input e))) as [[ts i1]| |] eqn:Ep; try discriminate.
  - destruct (grammar_ok e (parse_fuel e)) as [Hts _].
    assert (Hat : at_ e (set_sub (init_input e))) by (eapply at_adv; [apply at_init|apply set_sub_rel]).
    destruct (Hts _ _ _ _ Ep Hat) as [Ha Hok].
    destruct ts as [|t0 ts'].
    + inversion H; subst.
      assert (HF : at_ e (flags_with_state (init_input e))) by (eapply at_adv; [apply at_init|apply flags_with_state_rel]).
      pose proof (err_span_ok e _ (at_init e)) as H0. cbn [init_input i_pos i_s] in H0.
      repeat constructor; try exact H0. apply err_span_ok. exact HF.
    + destruct (i_s i1) as [|c1 r1] eqn:Es; [discriminate|]. inversion H; subst.
      constructor; [|constructor]. change (i_pos i1, utf8_len c1) with (err_span (i_pos i1) (c1 :: r1)). rewrite <- Es. apply err_span_ok. exact (at_adv _ _ _ Hat Ha).
  - inversion H; subst. constructor.
Qed.

(* the spans reported for the capturing sub-expressions are spans of the tree *)
Lemma spans_ok_span : forall e t, spans_ok e t -> span_ok e (tspan t).
Proof. intros e t H. destruct t; cbn [spans_ok] in H; apply H. Qed.

Lemma all_spans_in : forall e ts t, all_spans_ok e ts -> In t ts -> spans_ok e t.
Proof.
  induction ts as [|x ts IH]; intros t H Hin; [contradiction|]. destruct H as [Hx Hts].
  destruct Hin as [<-|Hin]; [exact Hx|apply IH; assumption].
Qed.

(* ---- rule errors: their spans are spans of tokens, or the union of the spans of two tokens ------------------------------- *)
From WaxModel Require Import Variance Fold Rule.

Lemma prefixes_comparable : forall (a b x y : str), a ++ x = b ++ y -> blen a <= blen b -> exists z, b = a ++ z.
Proof.
  induction a as [|c a IH]; intros b x y H Hl.
  - exists b. reflexivity.
  - destruct b as [|d b].
    + cbn [blen] in Hl. pose proof (utf8_len_pos c). lia.
    + cbn [app] in H. inversion H; subst. cbn [blen] in Hl. destruct (IH b x y H2) as [z ->]; [lia|]. exists z. reflexivity.
Qed.

(* a byte offset that is the length of a prefix of the expression *)
Definition boundary_of (e : str) (n : N) : Prop := exists pre post, e = pre ++ post /\ n = blen pre.

Lemma span_ok_iff : forall e s n, span_ok e (s, n) <-> boundary_of e s /\ boundary_of e (s + n).
Proof.
  intros e s n. split.
  - intros [pre [mid [post [He [Hs Hn]]]]]. cbn [fst snd] in *. split.
    + exists pre, (mid ++ post). auto.
    + exists (pre ++ mid), post. split; [rewrite He; apply app_assoc|]. rewrite blen_app. lia.
  - intros [[p1 [q1 [H1 E1]]] [p2 [q2 [H2 E2]]]].
    destruct (prefixes_comparable p1 p2 q1 q2) as [z Hz]; [rewrite <- H1, <- H2; reflexivity|lia|].
    exists p1, z, q2. cbn [fst snd]. split; [rewrite H2, Hz; symmetry; apply app_assoc|]. split; [exact E1|].
    rewrite Hz, blen_app in E2. lia.
Qed.

Lemma span_union_ok : forall e a b, span_ok e a -> span_ok e b -> span_ok e (span_union a b).
Proof.
  intros e [s1 n1] [s2 n2] Ha Hb. apply span_ok_iff in Ha. apply span_ok_iff in Hb.
  destruct Ha as [Ha1 Ha2], Hb as [Hb1 Hb2]. unfold span_union. cbn [fst snd]. apply span_ok_iff. split.
  - destruct (N.min_spec s1 s2) as [[_ ->]|[_ ->]]; assumption.
  - replace (N.min s1 s2 + (N.max (s1 + n1) (s2 + n2) - N.min s1 s2)) with (N.max (s1 + n1) (s2 + n2)) by lia.
    destruct (N.max_spec (s1 + n1) (s2 + n2)) as [[_ ->]|[_ ->]]; assumption.
Qed.

Lemma spans_ok_children : forall e t, spans_ok e t -> all_spans_ok e (children t).
Proof.
  intros e t H. destruct t as [sp l|sp bs|sp ts|sp b lo hi]; cbn [spans_ok children] in *.
  - exact I.
  - destruct H as [_ H]. induction bs as [|x bs IH]; [exact I|]. destruct H as [Hx H]. split; [exact Hx|apply IH; exact H].
  - destruct H as [_ H]. induction ts as [|x ts IH]; [exact I|]. destruct H as [Hx H]. split; [exact Hx|apply IH; exact H].
  - destruct H as [_ H]. split; [exact H|exact I].
Qed.

Lemma all_spans_app : forall e a b, all_spans_ok e a -> all_spans_ok e b -> all_spans_ok e (a ++ b).
Proof. induction a as [|x a IH]; intros b Ha Hb; [exact Hb|]. destruct Ha as [Hx Ha]. split; [exact Hx|apply IH; assumption]. Qed.

Lemma all_spans_flat_children : forall e l, all_spans_ok e l -> all_spans_ok e (flat_map children l).
Proof.
  induction l as [|x l IH]; intros H; [exact I|]. destruct H as [Hx H]. cbn [flat_map].
  apply all_spans_app; [apply spans_ok_children; exact Hx|apply IH; exact H].
Qed.

Lemma bfs_levels_ok : forall e fuel level, all_spans_ok e level -> all_spans_ok e (bfs_levels fuel level).
Proof.
  induction fuel as [|f IH]; intros level H; cbn [bfs_levels]; [exact H|].
  destruct level as [|x l]; [exact I|]. apply all_spans_app; [exact H|]. apply IH. apply all_spans_flat_children. exact H.
Qed.

Lemma bfs_ok : forall e t, spans_ok e t -> all_spans_ok e (bfs t).
Proof. intros e t H. unfold bfs. apply bfs_levels_ok. split; [exact H|exact I]. Qed.

Lemma adjacent_boundary_ok : forall e ts sp, all_spans_ok e ts -> adjacent_boundary ts = Some sp -> span_ok e sp.
Proof.
  induction ts as [|a ts IH]; intros sp H Hs; [discriminate|]. destruct ts as [|b ts']; [discriminate|].
  change (adjacent_boundary (a :: b :: ts')) with
    (if is_boundary a && is_boundary b then Some (span_union (tspan a) (tspan b)) else adjacent_boundary (b :: ts')) in Hs.
  destruct H as [Ha [Hb Hts]]. destruct (is_boundary a && is_boundary b).
  - inversion Hs; subst. apply span_union_ok; apply spans_ok_span; assumption.
  - apply IH; [split; assumption|exact Hs].
Qed.

Lemma all_spans_cat_children : forall e sp ts, spans_ok e (TCat sp ts) -> all_spans_ok e ts.
Proof. intros e sp ts H. exact (spans_ok_children e (TCat sp ts) H). Qed.

Lemma concatenation_ok : forall e t, spans_ok e t -> all_spans_ok e (concatenation t).
Proof.
  intros e t H. destruct t as [sp l|sp bs|sp ts|sp b lo hi]; cbn [concatenation]; try (split; [exact H|exact I]).
  apply (all_spans_cat_children e sp ts H).
Qed.

(* the breadth-first branch check only ever reports the span of a token of the tree *)
Lemma branch_item_ok : forall e o t err more,
  spans_ok e t -> branch_item (o, t) = (err, more) ->
  (forall k sp, err = Some (k, sp) -> span_ok e sp) /\ all_spans_ok e (map snd more).
Proof.
  intros e o t err more Ht H. unfold branch_item in H.
  pose proof (concatenation_ok e t Ht) as Hc.
  assert (G : forall adjs acc_err acc_q,
            (forall x, In x adjs -> spans_ok e (snd (fst x))) ->
            (forall k sp, acc_err = Some (k, sp) -> span_ok e sp) -> all_spans_ok e (map snd acc_q) ->
            forall err' more',
            fold_left
              (fun (acc : option (rule_kind * span) * list (outer * tok)) (x : option tok * tok * option tok) =>
                 let '(err0, q) := acc in
                 let '(l, t0, r) := x in
                 match t0 with
                 | TAlt sp bs =>
                     let o0 := outer_or o l r in
                     let e0 := first_some_l
                                 (fun b => match terminals_of (concatenation b) with
                                           | Some tm => opt_first (check_branch tm o0) (check_alternation tm o0)
                                           | None => None
                                           end) bs in
                     (opt_first err0 (option_map (fun k => (k, sp)) e0), q ++ map (fun b => (o0, b)) bs)
                 | TRep sp b lo hi =>
                     let o0 := outer_or o l r in
                     let e0 := match terminals_of (concatenation b) with
                               | Some tm => opt_first (check_branch tm o0) (check_repetition tm o0 lo hi)
                               | None => None
                               end in
                     (opt_first err0 (option_map (fun k => (k, sp)) e0), q ++ [(o0, b)])
                 | _ => acc
                 end) adjs (acc_err, acc_q) = (err', more') ->
            (forall k sp, err' = Some (k, sp) -> span_ok e sp) /\ all_spans_ok e (map snd more')).
  { induction adjs as [|[[l t0] r] adjs IH]; intros acc_err acc_q Hin Herr Hq err' more' Hf.
    - cbn [fold_left] in Hf. inversion Hf; subst. split; assumption.
    - cbn [fold_left] in Hf.
      assert (Ht0 : spans_ok e t0) by (apply (Hin (l, t0, r)); left; reflexivity).
      assert (Hin' : forall x, In x adjs -> spans_ok e (snd (fst x))) by (intros x Hx; apply Hin; right; exact Hx).
      destruct t0 as [sp l0|sp bs|sp ts|sp b lo hi].
      + eapply IH; eassumption.
      + eapply IH; [exact Hin'| | |exact Hf].
        * intros k sp0 Hk. destruct acc_err as [[k0 sp1]|]; cbn [opt_first] in Hk.
          -- inversion Hk; subst. eapply Herr. reflexivity.
          -- destruct (first_some_l _ bs); cbn [option_map] in Hk; [|discriminate]. inversion Hk; subst. apply (spans_ok_span e _ Ht0).
        * rewrite map_app. apply all_spans_app; [exact Hq|]. rewrite map_map. cbn [snd]. rewrite map_id.
          apply (spans_ok_children e _ Ht0).
      + eapply IH; eassumption.
      + eapply IH; [exact Hin'| | |exact Hf].
        * intros k sp0 Hk. destruct acc_err as [[k0 sp1]|]; cbn [opt_first] in Hk.
          -- inversion Hk; subst. eapply Herr. reflexivity.
          -- destruct (terminals_of (concatenation b)) as [tm|]; [|discriminate].
             destruct (opt_first (check_branch tm _) (check_repetition tm _ lo hi)); cbn [option_map] in Hk; [|discriminate].
             inversion Hk; subst. apply (spans_ok_span e _ Ht0).
        * rewrite map_app. apply all_spans_app; [exact Hq|]. cbn [map snd]. apply (spans_ok_children e _ Ht0). }
  eapply G; [| | |exact H].
  - intros x Hx. unfold adjacent in Hx.
    assert (Ga : forall ts left0 x0, all_spans_ok e ts -> In x0 (adjacent_aux left0 ts) -> spans_ok e (snd (fst x0))).
    { induction ts as [|a ts IHa]; intros left0 x0 Hts Hx0; [contradiction|]. destruct Hts as [Ha Hts]. cbn [adjacent_aux] in Hx0.
      destruct Hx0 as [<-|Hx0]; [exact Ha|]. eapply IHa; eassumption. }
    eapply Ga; eassumption.
  - intros k sp Hk. discriminate.
  - exact I.
Qed.

Lemma branch_loop_ok : forall e fuel queue k sp,
  all_spans_ok e (map snd queue) -> branch_loop fuel queue = Some (k, sp) -> span_ok e sp.
Proof.
  induction fuel as [|f IH]; intros queue k sp Hq H; cbn [branch_loop] in H; [discriminate|].
  destruct queue as [|[o t] rest]; [discriminate|]. cbn [map snd] in Hq. destruct Hq as [Ht Hrest].
  destruct (branch_item (o, t)) as [err more] eqn:Eb. destruct (branch_item_ok e o t err more Ht Eb) as [Herr Hmore].
  destruct err as [[k0 sp0]|].
  - inversion H; subst. eapply Herr. reflexivity.
  - eapply IH; [|exact H]. rewrite map_app. apply all_spans_app; assumption.
Qed.

(* C17: the span of every rule error indexes the expression safely *)
Theorem rule_error_span_ok : forall e t k sp, spans_ok e t -> check t = Ok (Some (k, sp)) -> span_ok e sp.
Proof.
  intros e t k sp Ht H. unfold check in H. pose proof (bfs_ok e t Ht) as Hb.
  destruct (rule_boundary t) as [[k0 sp0]|] eqn:E1.
  - inversion H; subst. unfold rule_boundary in E1.
    destruct (first_some_l (fun x => match x with TCat _ ts => adjacent_boundary ts | _ => None end) (bfs t)) as [sp1|] eqn:Ef; [|discriminate].
    inversion E1; subst.
    assert (G : forall l, all_spans_ok e l -> first_some_l (fun x => match x with TCat _ ts => adjacent_boundary ts | _ => None end) l = Some sp -> span_ok e sp).
    { induction l as [|x l IH]; intros Hl Hf; [discriminate|]. destruct Hl as [Hx Hl]. cbn [first_some_l] in Hf.
      destruct x as [s0 l0|s0 bs|s0 ts|s0 b lo hi]; try (apply IH; assumption).
      destruct (adjacent_boundary ts) as [sp2|] eqn:Ea; [|apply IH; assumption].
      inversion Hf; subst. eapply adjacent_boundary_ok; [|exact Ea]. apply (all_spans_cat_children e s0 ts Hx). }
    eapply G; eassumption.
  - destruct (rule_bounds t) as [[k0 sp0]|] eqn:E2.
    + inversion H; subst. unfold rule_bounds in E2. destruct (find bad_bounds (bfs t)) as [x|] eqn:Ef; [|discriminate].
      inversion E2; subst. apply find_some in Ef. destruct Ef as [Hin _]. apply spans_ok_span. eapply all_spans_in; eassumption.
    + destruct (rule_branch t) as [[k0 sp0]|] eqn:E3.
      * inversion H; subst. unfold rule_branch in E3. eapply branch_loop_ok; [|exact E3]. cbn [map snd]. split; [exact Ht|exact I].
      * unfold rule_size in H.
        assert (G : forall l, all_spans_ok e l -> rule_size_list l = Ok (Some (k, sp)) -> span_ok e sp).
        { induction l as [|x l IH]; intros Hl Hs; [discriminate|]. destruct Hl as [Hx Hl]. cbn [rule_size_list rbind] in Hs.
          destruct (size_variance x) as [v|]; [|discriminate]. cbn [rbind] in Hs.
          destruct v as [n|b]; [|apply IH; assumption].
          destruct (MAX_INVARIANT_SIZE <=? n); [|apply IH; assumption]. inversion Hs; subst. apply spans_ok_span. exact Hx. }
        eapply G; eassumption.
Qed.

(* ---- capture spans ------------------------------------------------------------------------------------------------------ *)
From WaxModel Require Import Regex Encode Query.

Lemma number_from_in : forall l n c, In c (number_from n l) -> exists x, In x l /\ snd c = tspan x.
Proof.
  induction l as [|t l IH]; intros n c H; [contradiction|]. cbn [number_from] in H. destruct H as [<-|H].
  - exists t. split; [left; reflexivity|reflexivity].
  - destruct (IH _ _ H) as [x [Hx Hs]]. exists x. split; [right; exact Hx|exact Hs].
Qed.

Theorem capture_spans_ok : forall e t c, spans_ok e t -> In c (captures t) -> span_ok e (snd c).
Proof.
  intros e t c Ht Hc. unfold captures in Hc. apply number_from_in in Hc. destruct Hc as [x [Hx ->]].
  apply filter_In in Hx. destruct Hx as [Hx _]. apply spans_ok_span. eapply all_spans_in; [apply concatenation_ok; exact Ht|exact Hx].
Qed.
