(* EncodeFacts.v -- facts about the encoder model used by the property theorems. *)
From WaxModel Require Import Base Token Regex Spec Encode.

Lemma class_ignores_flags :
  forall orbit orbit' cap s e neg a w,
    sem orbit (enc_leaf cap s e (LClass neg a)) w <-> sem orbit' (enc_leaf cap s e (LClass neg a)) w.
Proof.
  intros orbit orbit' cap s e neg a w. unfold enc_leaf, grp, enc_class.
  destruct (forallb arch_valid a); cbn [sem]; tauto.
Qed.
