(* EncodeFacts.v -- facts about the encoder model used by the property theorems. *)
From Coq Require Import Arith.
From WaxModel Require Import Base Token Regex Spec Encode.

Ltac same := split; (let H := fresh in intros H; exact H).

Section Facts.
Variable orbit : char -> list char.
Notation sem := (sem orbit).

Lemma class_ignores_flags :
  forall orbit' cap s e neg a w,
    sem (enc_leaf cap s e (LClass neg a)) w <-> Regex.sem orbit' (enc_leaf cap s e (LClass neg a)) w.
Proof.
  intros orbit' cap s e neg a w. unfold enc_leaf, grp, enc_class.
  destruct (forallb arch_valid a); cbn [Regex.sem]; same.
Qed.

(* ---- iteration of the one-character language [^/] ------------------------------------------- *)
Lemma iter_nsep_nosep : forall k w, iter_sem (sem RNsep) k w -> nosep w = true.
Proof.
  intros k w H. induction H as [|n u v Hu _ IH]; [reflexivity|].
  cbn [Regex.sem] in Hu. destruct Hu as [c [-> Hc]]. cbn [app nosep forallb].
  fold (nosep v). rewrite IH. apply N.eqb_neq in Hc. rewrite Hc. reflexivity.
Qed.

Lemma nosep_iter_nsep : forall w, nosep w = true -> iter_sem (sem RNsep) (length w) w.
Proof.
  induction w as [|c w IH]; intros H; cbn [length]; [constructor|].
  cbn [nosep forallb] in H. apply andb_prop in H. destruct H as [Hc Hw].
  change (c :: w) with ([c] ++ w). constructor.
  - cbn [Regex.sem]. exists c. split; [reflexivity|]. apply N.eqb_neq. destruct (c =? SEP); [discriminate|reflexivity].
  - apply IH. exact Hw.
Qed.

Lemma zom_sem : forall cap s e lz w, sem (enc_leaf cap s e (LZom lz)) w <-> nosep w = true.
Proof.
  intros cap s e lz w. cbn [enc_leaf grp Regex.sem]. split.
  - intros [k H]. eapply iter_nsep_nosep. exact H.
  - intros H. exists (length w). apply nosep_iter_nsep. exact H.
Qed.

Lemma one_sem : forall cap s e w, sem (enc_leaf cap s e LOne) w <-> exists c, w = [c] /\ c <> SEP.
Proof. intros. cbn [enc_leaf grp Regex.sem]. same. Qed.

Lemma class_sem_nosep :
  forall cap s e neg a w, sem (enc_leaf cap s e (LClass neg a)) w -> exists c, w = [c] /\ c <> SEP.
Proof.
  intros cap s e neg a w. cbn [enc_leaf]. unfold grp, enc_class.
  destruct (forallb arch_valid a); cbn [Regex.sem]; [|tauto].
  intros [c [-> Hc]]. exists c. split; [reflexivity|].
  unfold class_match in Hc. apply andb_prop in Hc. destruct Hc as [Hc _].
  apply N.eqb_neq. destruct (c =? SEP); [discriminate|reflexivity].
Qed.

Lemma class_sem :
  forall cap s e neg a w, forallb arch_valid a = true ->
    (sem (enc_leaf cap s e (LClass neg a)) w <-> exists c, w = [c] /\ class_match neg a c = true).
Proof.
  intros cap s e neg a w Hv. cbn [enc_leaf]. unfold grp, enc_class. rewrite Hv. cbn [Regex.sem]. same.
Qed.

(* a tree wildcard that is the whole expression matches every text, newlines included *)
Lemma lone_tree_matches_everything : forall cap w, sem (enc_leaf cap true true (LTree false)) w.
Proof. intros. cbn. exact I. Qed.

(* ---- alternation lists ------------------------------------------------------------------------ *)
Lemma sem_ralt_list : forall rs w, rs <> [] -> (sem (ralt_list rs) w <-> exists r, In r rs /\ sem r w).
Proof.
  induction rs as [|r rs IH]; intros w Hne; [congruence|].
  destruct rs as [|r' rs'].
  - cbn [ralt_list]. split.
    + intros H. exists r. split; [left; reflexivity|exact H].
    + intros [r0 [[<-|[]] H]]. exact H.
  - change (ralt_list (r :: r' :: rs')) with (RAlt r (ralt_list (r' :: rs'))). cbn [Regex.sem].
    rewrite IH by discriminate. split.
    + intros [H|[r0 [Hin H]]]; [exists r; split; [left; reflexivity|exact H] | exists r0; split; [right; exact Hin|exact H]].
    + intros [r0 [[<-|Hin] H]]; [left; exact H | right; exists r0; split; assumption].
Qed.

(* ---- the grouping mode does not change the language ------------------------------------------------ *)
Lemma enc_tree_cap : forall cap cap' s e root w, sem (enc_tree cap s e root) w <-> sem (enc_tree cap' s e root) w.
Proof. intros cap cap' s e root w. destruct s, e, root; cbn; same. Qed.

Lemma enc_leaf_cap : forall cap cap' s e l w, sem (enc_leaf cap s e l) w <-> sem (enc_leaf cap' s e l) w.
Proof.
  intros cap cap' s e l w. destruct l; cbn [enc_leaf grp Regex.sem]; try same.
  apply enc_tree_cap.
Qed.

Definition ext_eq (f g : bool -> bool -> re) : Prop := forall s e w, sem (f s e) w <-> sem (g s e) w.

Lemma seq_edges_aux_ext :
  forall fs gs, Forall2 ext_eq fs gs ->
    forall first s e w, sem (seq_edges_aux first fs s e) w <-> sem (seq_edges_aux first gs s e) w.
Proof.
  intros fs gs H. induction H as [|f g fs gs Hfg Hrest IH]; intros first s e w; [tauto|].
  destruct Hrest as [|f' g' fs' gs' Hfg' Hrest'].
  - cbn [seq_edges_aux]. apply Hfg.
  - change (seq_edges_aux first (f :: f' :: fs') s e) with (RCat (f (s && first) false) (seq_edges_aux false (f' :: fs') s e)).
    change (seq_edges_aux first (g :: g' :: gs') s e) with (RCat (g (s && first) false) (seq_edges_aux false (g' :: gs') s e)).
    cbn [Regex.sem]. split; intros [u [v [-> [Hu Hv]]]]; exists u, v; (split; [reflexivity|]); split;
      try (apply Hfg; exact Hu); apply (IH false s e v); exact Hv.
Qed.

Lemma enc_tok_cap : forall t cap cap', ext_eq (enc_tok cap t) (enc_tok cap' t).
Proof.
  induction t as [sp l|sp bs IH|sp ts IH|sp b lo hi IH] using tok_ind'; intros cap cap' s e w.
  - cbn [enc_tok]. apply enc_leaf_cap.
  - cbn [enc_tok grp Regex.sem]. same.
  - cbn [enc_tok]. unfold seq_edges. apply seq_edges_aux_ext.
    induction IH as [|t ts Ht _ IHts]; cbn [map]; constructor; [|exact IHts].
    intros s' e' w'. apply Ht.
  - cbn [enc_tok]. destruct (norm_bounds lo hi) as [lo' hi']. cbn [grp Regex.sem]. same.
Qed.

(* C07: a combinator built from trees matches exactly the union of what its trees match *)
Lemma any_is_union :
  forall sp ts w, ts <> [] ->
    (sem (encode (TAlt sp ts)) w <-> exists t, In t ts /\ sem (encode t) w).
Proof.
  intros sp ts w Hne. unfold encode. cbn [enc_tok grp Regex.sem].
  rewrite sem_ralt_list by (destruct ts; [congruence|discriminate]).
  split.
  - intros [r [Hin Hr]]. apply in_map_iff in Hin. destruct Hin as [t [<- Hin]].
    exists t. split; [exact Hin|]. cbn [Regex.sem] in Hr. apply (enc_tok_cap t false true true true w). exact Hr.
  - intros [t [Hin Ht]]. exists (RGroup false (enc_tok false t true true)). split.
    + apply in_map_iff. exists t. split; [reflexivity|exact Hin].
    + cbn [Regex.sem]. apply (enc_tok_cap t true false true true w). exact Ht.
Qed.

End Facts.

(* ---- C04: one capture group per capturing token of the top-level concatenation ---------------------- *)
Lemma ngroups_ralt_list_zero : forall rs, Forall (fun r => ngroups r = 0%nat) rs -> ngroups (ralt_list rs) = 0%nat.
Proof.
  induction rs as [|r rs IH]; intros H; [reflexivity|].
  inversion H as [|? ? Hr Hrs]; subst. destruct rs as [|r' rs']; [exact Hr|].
  change (ralt_list (r :: r' :: rs')) with (RAlt r (ralt_list (r' :: rs'))). cbn [ngroups].
  rewrite Hr, IH by exact Hrs. reflexivity.
Qed.

Lemma ngroups_seq_edges_aux :
  forall fs ns, Forall2 (fun f n => forall s e, ngroups (f s e) = n) fs ns ->
    forall first s e, ngroups (seq_edges_aux first fs s e) = fold_right Nat.add 0%nat ns.
Proof.
  intros fs ns H. induction H as [|f n fs ns Hf Hrest IH]; intros first s e; [reflexivity|].
  destruct Hrest as [|f' n' fs' ns' Hf' Hrest'].
  - cbn [seq_edges_aux fold_right]. rewrite Hf. apply eq_sym, Nat.add_0_r.
  - change (seq_edges_aux first (f :: f' :: fs') s e) with (RCat (f (s && first) false) (seq_edges_aux false (f' :: fs') s e)).
    cbn [ngroups]. rewrite Hf, (IH false s e). reflexivity.
Qed.

Lemma ngroups_enc_tree : forall cap s e root, ngroups (enc_tree cap s e root) = if cap then 1%nat else 0%nat.
Proof. intros cap s e root. destruct cap, s, e, root; reflexivity. Qed.

Lemma ngroups_enc_false : forall t s e, ngroups (enc_tok false t s e) = 0%nat.
Proof.
  induction t as [sp l|sp bs IH|sp ts IH|sp b lo hi IH] using tok_ind'; intros s e.
  - cbn [enc_tok]. destruct l; cbn [enc_leaf grp ngroups]; try reflexivity.
    + unfold enc_class. destruct (forallb arch_valid a); reflexivity.
    + apply ngroups_enc_tree.
  - cbn [enc_tok grp ngroups]. apply ngroups_ralt_list_zero.
    induction IH as [|t ts Ht _ IHts]; cbn [map]; constructor; [|exact IHts].
    cbn [ngroups]. apply Ht.
  - cbn [enc_tok]. unfold seq_edges.
    rewrite (ngroups_seq_edges_aux (map (enc_tok false) ts) (map (fun _ => 0%nat) ts)).
    + induction ts as [|t ts IHts]; [reflexivity|]. cbn [map fold_right]. apply IHts. inversion IH; assumption.
    + induction IH as [|t ts Ht _ IHts]; cbn [map]; constructor; [exact Ht|exact IHts].
  - cbn [enc_tok]. destruct (norm_bounds lo hi) as [lo' hi']. cbn [grp ngroups]. apply IH.
Qed.

Definition cap_count (t : tok) : nat := if is_capturing t then 1%nat else 0%nat.

Lemma ngroups_enc_true_noncat : forall t s e, is_cat t = false -> ngroups (enc_tok true t s e) = cap_count t.
Proof.
  intros t s e Hc. destruct t as [sp l|sp bs|sp ts|sp b lo hi]; [| | discriminate |].
  - unfold cap_count. cbn [enc_tok is_capturing]. destruct l; cbn [enc_leaf grp ngroups leaf_is_capturing]; try reflexivity.
    + unfold enc_class. destruct (forallb arch_valid a); reflexivity.
    + apply ngroups_enc_tree.
  - unfold cap_count. cbn [enc_tok grp ngroups is_capturing]. rewrite ngroups_ralt_list_zero; [reflexivity|].
    clear Hc. induction bs as [|b bs IH]; cbn [map]; [constructor|]. constructor; [|exact IH]. cbn [ngroups]. apply ngroups_enc_false.
  - unfold cap_count. cbn [enc_tok is_capturing]. destruct (norm_bounds lo hi) as [lo' hi']. cbn [grp ngroups].
    rewrite ngroups_enc_false. reflexivity.
Qed.

Lemma filter_length_sum : forall (ts : list tok),
  length (filter is_capturing ts) = fold_right Nat.add 0%nat (map cap_count ts).
Proof.
  induction ts as [|t ts IH]; [reflexivity|]. cbn [filter map fold_right]. unfold cap_count at 1.
  destruct (is_capturing t); cbn [length]; rewrite IH; reflexivity.
Qed.

(* the top-level concatenation of a parsed expression never contains a concatenation directly *)
Definition flat_top (t : tok) : Prop := Forall (fun x => is_cat x = false) (concatenation t).

Lemma group_count : forall t, flat_top t -> ngroups (encode t) = length (filter is_capturing (concatenation t)).
Proof.
  intros t H. unfold encode. rewrite filter_length_sum. destruct t as [sp l|sp bs|sp ts|sp b lo hi].
  - cbn [concatenation map fold_right]. rewrite ngroups_enc_true_noncat by reflexivity. apply eq_sym, Nat.add_0_r.
  - cbn [concatenation map fold_right]. rewrite ngroups_enc_true_noncat by reflexivity. apply eq_sym, Nat.add_0_r.
  - cbn [concatenation enc_tok]. unfold seq_edges. apply ngroups_seq_edges_aux.
    unfold flat_top in H. cbn [concatenation] in H.
    induction H as [|t ts Ht _ IH]; cbn [map]; constructor; [|exact IH].
    intros s e. apply ngroups_enc_true_noncat. exact Ht.
  - cbn [concatenation map fold_right]. rewrite ngroups_enc_true_noncat by reflexivity. apply eq_sym, Nat.add_0_r.
Qed.
