open Base
open BinNat
open BinNums
open Datatypes
open List
open Nat
open Token

type re =
| RLit of bool * str
| RSep
| RNsep
| RClass of bool * arch list
| RNever
| RDotStar
| REmpty
| RCat of re * re
| RAlt of re * re
| ROpt of re
| RStar of bool * re
| RRep of re * coq_N * coq_N option
| RGroup of bool * re

val coq_RE_META : str

val re_escape : str -> str

val dec_digits : nat -> coq_N -> str -> str

val dec : coq_N -> str

val print_arch : arch -> str

val arch_valid : arch -> bool

val s_flagoff_open : str

val s_nsep : str

val s_sep : str

val s_never : str

val s_dotstar : str

val print : re -> str

val print_program : re -> str

val ngroups : re -> nat

val lit_char_match : (char -> char list) -> bool -> char -> char -> bool

val arch_in : char -> arch -> bool

val class_match : bool -> arch list -> char -> bool

type caps = (nat * (nat * nat)) list

val set_cap : nat -> (nat * nat) -> caps -> caps

val get_cap : nat -> caps -> (nat * nat) option

val lit_match : (char -> char list) -> bool -> str -> str -> str option

val suffixes : str -> str list

val first_some : ('a1 -> 'a2 option) -> 'a1 list -> 'a2 option

type coq_K = str -> caps -> caps option

val m :
  (char -> char list) -> nat -> nat -> re -> nat -> str -> caps -> coq_K ->
  caps option

val re_size : re -> nat
