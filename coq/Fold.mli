open Base
open BinNat
open BinNums
open Datatypes
open List
open Nat
open Token
open Variance

val rep_range : coq_N -> coq_N option -> nrange

val opt_list : 'a1 option -> 'a1 list

val depth_leaf : leaf -> bterm

val rdisj : bterm -> bterm -> bterm res

val depth_fold : tok -> bterm option res

val depth_variance : tok -> nvar res

val size_leaf : leaf -> nvar

val size_fold : tok -> nvar option res

val size_variance : tok -> nvar res

val arch_text : arch -> tvar

val text_leaf : (char -> bool) -> leaf -> tvar

val text_fold : (char -> bool) -> tok -> tvar option res

val text_variance : (char -> bool) -> tok -> tvar res

val has_root_fold : tok -> coq_when option

val has_root : tok -> coq_when

val exh_takes : tok -> bool

val take_while : ('a1 -> bool) -> 'a1 list -> 'a1 list

val exh_maybe : bterm option -> bool

val exh_rep_finalizes : bterm -> bool

val exh_fold : tok -> bterm option res

val is_exhaustive : tok -> coq_when res
