open BinNat
open BinNums
open Datatypes
open List

type char = coq_N

type str = char list

(** val coq_SEP : char **)

let coq_SEP =
  Npos (Coq_xI (Coq_xI (Coq_xI (Coq_xI (Coq_xO Coq_xH)))))

(** val coq_BSLASH : char **)

let coq_BSLASH =
  Npos (Coq_xO (Coq_xO (Coq_xI (Coq_xI (Coq_xI (Coq_xO Coq_xH))))))

(** val utf8_len : char -> coq_N **)

let utf8_len c =
  if N.ltb c (Npos (Coq_xO (Coq_xO (Coq_xO (Coq_xO (Coq_xO (Coq_xO (Coq_xO
       Coq_xH))))))))
  then Npos Coq_xH
  else if N.ltb c (Npos (Coq_xO (Coq_xO (Coq_xO (Coq_xO (Coq_xO (Coq_xO
            (Coq_xO (Coq_xO (Coq_xO (Coq_xO (Coq_xO Coq_xH))))))))))))
       then Npos (Coq_xO Coq_xH)
       else if N.ltb c (Npos (Coq_xO (Coq_xO (Coq_xO (Coq_xO (Coq_xO (Coq_xO
                 (Coq_xO (Coq_xO (Coq_xO (Coq_xO (Coq_xO (Coq_xO (Coq_xO
                 (Coq_xO (Coq_xO (Coq_xO Coq_xH)))))))))))))))))
            then Npos (Coq_xI Coq_xH)
            else Npos (Coq_xO (Coq_xO Coq_xH))

(** val blen : str -> coq_N **)

let rec blen = function
| [] -> N0
| c :: r -> N.add (utf8_len c) (blen r)

(** val usize_max1 : coq_N **)

let usize_max1 =
  Npos (Coq_xO (Coq_xO (Coq_xO (Coq_xO (Coq_xO (Coq_xO (Coq_xO (Coq_xO
    (Coq_xO (Coq_xO (Coq_xO (Coq_xO (Coq_xO (Coq_xO (Coq_xO (Coq_xO (Coq_xO
    (Coq_xO (Coq_xO (Coq_xO (Coq_xO (Coq_xO (Coq_xO (Coq_xO (Coq_xO (Coq_xO
    (Coq_xO (Coq_xO (Coq_xO (Coq_xO (Coq_xO (Coq_xO (Coq_xO (Coq_xO (Coq_xO
    (Coq_xO (Coq_xO (Coq_xO (Coq_xO (Coq_xO (Coq_xO (Coq_xO (Coq_xO (Coq_xO
    (Coq_xO (Coq_xO (Coq_xO (Coq_xO (Coq_xO (Coq_xO (Coq_xO (Coq_xO (Coq_xO
    (Coq_xO (Coq_xO (Coq_xO (Coq_xO (Coq_xO (Coq_xO (Coq_xO (Coq_xO (Coq_xO
    (Coq_xO (Coq_xO
    Coq_xH))))))))))))))))))))))))))))))))))))))))))))))))))))))))))))))))

(** val str_eqb : str -> str -> bool **)

let rec str_eqb a b =
  match a with
  | [] -> (match b with
           | [] -> true
           | _ :: _ -> false)
  | x :: a' ->
    (match b with
     | [] -> false
     | y :: b' -> (&&) (N.eqb x y) (str_eqb a' b'))

(** val mem : char -> str -> bool **)

let mem c s =
  existsb (N.eqb c) s

(** val is_nil : 'a1 list -> bool **)

let is_nil = function
| [] -> true
| _ :: _ -> false

type panic_site =
| PanicOverflow
| PanicUnreachable
| PanicCompile
| PanicOther

type 'a res =
| Ok of 'a
| Panic of panic_site

(** val rbind : 'a1 res -> ('a1 -> 'a2 res) -> 'a2 res **)

let rbind r f =
  match r with
  | Ok a -> f a
  | Panic s -> Panic s

(** val rmap : ('a1 -> 'a2) -> 'a1 res -> 'a2 res **)

let rmap f = function
| Ok a -> Ok (f a)
| Panic s -> Panic s

(** val cadd : coq_N -> coq_N -> coq_N res **)

let cadd a b =
  if N.ltb (N.add a b) usize_max1 then Ok (N.add a b) else Panic PanicOverflow

(** val cmul : coq_N -> coq_N -> coq_N res **)

let cmul a b =
  if N.ltb (N.mul a b) usize_max1 then Ok (N.mul a b) else Panic PanicOverflow

(** val rmapM : ('a1 -> 'a2 res) -> 'a1 list -> 'a2 list res **)

let rec rmapM f = function
| [] -> Ok []
| a :: l' ->
  rbind (f a) (fun b -> rbind (rmapM f l') (fun bs -> Ok (b :: bs)))

(** val rfold : ('a1 -> 'a1 -> 'a1 res) -> 'a1 -> 'a1 list -> 'a1 res **)

let rec rfold f acc = function
| [] -> Ok acc
| a :: l' -> rbind (f acc a) (fun acc' -> rfold f acc' l')

(** val rreduce : ('a1 -> 'a1 -> 'a1 res) -> 'a1 list -> 'a1 option res **)

let rreduce f = function
| [] -> Ok None
| a :: l' -> rmap (fun x -> Some x) (rfold f a l')

(** val reduce_pure : ('a1 -> 'a1 -> 'a1) -> 'a1 list -> 'a1 option **)

let rec reduce_pure f = function
| [] -> None
| a :: l' -> Some (fold_left f l' a)

(** val last_opt : 'a1 list -> 'a1 option **)

let rec last_opt = function
| [] -> None
| a :: l' -> (match l' with
              | [] -> Some a
              | _ :: _ -> last_opt l')

(** val repeat_list : 'a1 list -> nat -> 'a1 list **)

let rec repeat_list l = function
| O -> []
| S n' -> app l (repeat_list l n')
