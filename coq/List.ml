open Datatypes

(** val rev : 'a1 list -> 'a1 list **)

let rec rev = function
| [] -> []
| x :: l' -> app (rev l') (x :: [])

(** val map : ('a1 -> 'a2) -> 'a1 list -> 'a2 list **)

let rec map f = function
| [] -> []
| a :: t -> (f a) :: (map f t)

(** val flat_map : ('a1 -> 'a2 list) -> 'a1 list -> 'a2 list **)

let rec flat_map f = function
| [] -> []
| x :: t -> app (f x) (flat_map f t)

(** val fold_left : ('a1 -> 'a2 -> 'a1) -> 'a2 list -> 'a1 -> 'a1 **)

let rec fold_left f l a0 =
  match l with
  | [] -> a0
  | b :: t -> fold_left f t (f a0 b)

(** val fold_right : ('a2 -> 'a1 -> 'a1) -> 'a1 -> 'a2 list -> 'a1 **)

let rec fold_right f a0 = function
| [] -> a0
| b :: t -> f b (fold_right f a0 t)

(** val existsb : ('a1 -> bool) -> 'a1 list -> bool **)

let rec existsb f = function
| [] -> false
| a :: l0 -> (||) (f a) (existsb f l0)

(** val forallb : ('a1 -> bool) -> 'a1 list -> bool **)

let rec forallb f = function
| [] -> true
| a :: l0 -> (&&) (f a) (forallb f l0)

(** val filter : ('a1 -> bool) -> 'a1 list -> 'a1 list **)

let rec filter f = function
| [] -> []
| x :: l0 -> if f x then x :: (filter f l0) else filter f l0

(** val find : ('a1 -> bool) -> 'a1 list -> 'a1 option **)

let rec find f = function
| [] -> None
| x :: tl -> if f x then Some x else find f tl

(** val combine : 'a1 list -> 'a2 list -> ('a1 * 'a2) list **)

let rec combine l l' =
  match l with
  | [] -> []
  | x :: tl ->
    (match l' with
     | [] -> []
     | y :: tl' -> (x, y) :: (combine tl tl'))

(** val list_prod : 'a1 list -> 'a2 list -> ('a1 * 'a2) list **)

let rec list_prod l l' =
  match l with
  | [] -> []
  | x :: t -> app (map (fun y -> (x, y)) l') (list_prod t l')

(** val firstn : nat -> 'a1 list -> 'a1 list **)

let rec firstn n l =
  match n with
  | O -> []
  | S n0 -> (match l with
             | [] -> []
             | a :: l0 -> a :: (firstn n0 l0))

(** val skipn : nat -> 'a1 list -> 'a1 list **)

let rec skipn n l =
  match n with
  | O -> l
  | S n0 -> (match l with
             | [] -> []
             | _ :: l0 -> skipn n0 l0)
