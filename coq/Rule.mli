open Base
open BinNat
open BinNums
open Datatypes
open Fold
open List
open Token
open Variance

type rule_kind =
| RootedSubGlob
| SingularTree
| SingularZeroOrMore
| AdjacentBoundary
| AdjacentZeroOrMore
| OversizedInvariant
| IncompatibleBounds

val coq_MAX_INVARIANT_SIZE : coq_N

val span_union : span -> span -> span

val first_some_l : ('a1 -> 'a2 option) -> 'a1 list -> 'a2 option

val adjacent_boundary : tok list -> span option

val rule_boundary : tok -> (rule_kind * span) option

val bad_bounds : tok -> bool

val rule_bounds : tok -> (rule_kind * span) option

val starts_with : (tok -> bool) -> tok -> bool

val ends_with : (tok -> bool) -> tok -> bool

val opt_any : (tok -> bool) -> tok option -> bool

val has_starting_boundary : tok option -> bool

val has_ending_boundary : tok option -> bool

val has_starting_zom : tok option -> bool

val has_ending_zom : tok option -> bool

type outer = { o_left : tok option; o_right : tok option }

val outer_default : outer

val opt_or : 'a1 option -> 'a1 option -> 'a1 option

val outer_or : outer -> tok option -> tok option -> outer

type terminals =
| TermOnly of tok
| TermStartEnd of tok * tok

val terminals_of : tok list -> terminals option

val is_rooted_tree : tok -> bool

val isSome : 'a1 option -> bool

val check_branch : terminals -> outer -> rule_kind option

val check_alternation : terminals -> outer -> rule_kind option

val check_repetition :
  terminals -> outer -> coq_N -> coq_N option -> rule_kind option

val adjacent_aux :
  tok option -> tok list -> ((tok option * tok) * tok option) list

val adjacent : tok list -> ((tok option * tok) * tok option) list

val opt_first : 'a1 option -> 'a1 option -> 'a1 option

val branch_item :
  (outer * tok) -> (rule_kind * span) option * (outer * tok) list

val branch_loop : nat -> (outer * tok) list -> (rule_kind * span) option

val rule_branch : tok -> (rule_kind * span) option

val rule_size_list : tok list -> (rule_kind * span) option res

val rule_size : tok -> (rule_kind * span) option res

val check : tok -> (rule_kind * span) option res
