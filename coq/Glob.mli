open Base
open BinNat
open BinNums
open Encode
open Parse
open Regex
open Rule
open Token

val coq_REGEX_NEST_LIMIT : coq_N

type build_result =
| BuildOk of tok * re
| BuildParseErr of span list
| BuildRuleErr of rule_kind * span
| BuildPanic of panic_site
| BuildFuel

val compile_ok : re -> bool

val build : str -> build_result
