open BinNat
open BinNums
open List
open Regex
open Token

val coq_REGEX_REP_MAX : coq_N

val grp : bool -> re -> re

val enc_tree_mid : bool -> re

val enc_tree : bool -> bool -> bool -> bool -> re

val enc_class : bool -> arch list -> re

val enc_leaf : bool -> bool -> bool -> leaf -> re

val ralt_list : re list -> re

val norm_bounds : coq_N -> coq_N option -> coq_N * coq_N option

val seq_edges_aux : bool -> (bool -> bool -> re) list -> bool -> bool -> re

val seq_edges : (bool -> bool -> re) list -> bool -> bool -> re

val enc_tok : bool -> tok -> bool -> bool -> re

val encode : tok -> re

val rep_in_limits : re -> bool

val re_nest : re -> coq_N
