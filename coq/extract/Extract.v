(* Extract.v -- extraction of the executable model to OCaml (ExtrOcamlBasic only: bool, option,
   unit, list, prod, sumbool, sumor are mapped to OCaml's; N / positive / nat stay inductive). *)
From Coq Require Import Extraction ExtrOcamlBasic.
From WaxModel Require Import Base Token Parse Regex Spec Encode Variance Fold Rule Query Glob Walk.

Extraction Language OCaml.

Separate Extraction
  Base.utf8_len Base.blen
  Token.tspan Token.concatenation Token.tok_is_empty Token.tsize
  Parse.parse
  Regex.print Regex.print_program Regex.m Regex.need Regex.run Regex.accepts Regex.ngroups Regex.get_cap Regex.re_size
  Spec.spec_match Spec.trees_exact Spec.trees_stable Spec.rooted_first_tree Spec.fnull Spec.has_reversed_range Spec.may_end_sep Spec.has_optional_rep
  Encode.encode Encode.enc_tok Encode.rep_in_limits Encode.re_nest
  Fold.depth_variance Fold.size_variance Fold.text_variance Fold.has_root Fold.is_exhaustive Fold.depth_closed_variant
  Variance.text_to_string
  Rule.check
  Query.captures Query.has_semantic_literals Query.component_programs Query.partition
  Query.any_tree Query.not_partition Query.into_alternatives Query.escape
  Query.is_meta_character Query.is_contextual_meta_character Query.invariant_text_prefix
  Glob.build Glob.compile_ok
  Walk.walk Walk.glob_walk Walk.split_components Walk.glob_layer Walk.not_layer Walk.table_layer Walk.join_path Base.SEP.
