open Base
open BinNat
open BinNums
open Datatypes
open List
open Nat
open Token

(** val coq_LIT_SPECIAL : str **)

let coq_LIT_SPECIAL =
  (Npos (Coq_xI (Coq_xI (Coq_xI (Coq_xI (Coq_xO Coq_xH)))))) :: ((Npos
    (Coq_xI (Coq_xI (Coq_xI (Coq_xI (Coq_xI Coq_xH)))))) :: ((Npos (Coq_xO
    (Coq_xI (Coq_xO (Coq_xI (Coq_xO Coq_xH)))))) :: ((Npos (Coq_xO (Coq_xO
    (Coq_xI (Coq_xO (Coq_xO Coq_xH)))))) :: ((Npos (Coq_xO (Coq_xI (Coq_xO
    (Coq_xI (Coq_xI Coq_xH)))))) :: ((Npos (Coq_xO (Coq_xO (Coq_xI (Coq_xI
    (Coq_xI Coq_xH)))))) :: ((Npos (Coq_xO (Coq_xI (Coq_xI (Coq_xI (Coq_xI
    Coq_xH)))))) :: ((Npos (Coq_xO (Coq_xO (Coq_xO (Coq_xI (Coq_xO
    Coq_xH)))))) :: ((Npos (Coq_xI (Coq_xO (Coq_xO (Coq_xI (Coq_xO
    Coq_xH)))))) :: ((Npos (Coq_xI (Coq_xI (Coq_xO (Coq_xI (Coq_xI (Coq_xO
    Coq_xH))))))) :: ((Npos (Coq_xI (Coq_xO (Coq_xI (Coq_xI (Coq_xI (Coq_xO
    Coq_xH))))))) :: ((Npos (Coq_xI (Coq_xI (Coq_xO (Coq_xI (Coq_xI (Coq_xI
    Coq_xH))))))) :: ((Npos (Coq_xI (Coq_xO (Coq_xI (Coq_xI (Coq_xI (Coq_xI
    Coq_xH))))))) :: ((Npos (Coq_xO (Coq_xO (Coq_xI (Coq_xI (Coq_xO
    Coq_xH)))))) :: ((Npos (Coq_xO (Coq_xO (Coq_xI (Coq_xI (Coq_xI (Coq_xO
    Coq_xH))))))) :: []))))))))))))))

(** val coq_LIT_ESCAPABLE : str **)

let coq_LIT_ESCAPABLE =
  (Npos (Coq_xI (Coq_xI (Coq_xI (Coq_xI (Coq_xI Coq_xH)))))) :: ((Npos
    (Coq_xO (Coq_xI (Coq_xO (Coq_xI (Coq_xO Coq_xH)))))) :: ((Npos (Coq_xO
    (Coq_xO (Coq_xI (Coq_xO (Coq_xO Coq_xH)))))) :: ((Npos (Coq_xO (Coq_xI
    (Coq_xO (Coq_xI (Coq_xI Coq_xH)))))) :: ((Npos (Coq_xO (Coq_xO (Coq_xI
    (Coq_xI (Coq_xI Coq_xH)))))) :: ((Npos (Coq_xO (Coq_xI (Coq_xI (Coq_xI
    (Coq_xI Coq_xH)))))) :: ((Npos (Coq_xO (Coq_xO (Coq_xO (Coq_xI (Coq_xO
    Coq_xH)))))) :: ((Npos (Coq_xI (Coq_xO (Coq_xO (Coq_xI (Coq_xO
    Coq_xH)))))) :: ((Npos (Coq_xI (Coq_xI (Coq_xO (Coq_xI (Coq_xI (Coq_xO
    Coq_xH))))))) :: ((Npos (Coq_xI (Coq_xO (Coq_xI (Coq_xI (Coq_xI (Coq_xO
    Coq_xH))))))) :: ((Npos (Coq_xI (Coq_xI (Coq_xO (Coq_xI (Coq_xI (Coq_xI
    Coq_xH))))))) :: ((Npos (Coq_xI (Coq_xO (Coq_xI (Coq_xI (Coq_xI (Coq_xI
    Coq_xH))))))) :: ((Npos (Coq_xO (Coq_xO (Coq_xI (Coq_xI (Coq_xO
    Coq_xH)))))) :: []))))))))))))

(** val coq_CLASS_SPECIAL : str **)

let coq_CLASS_SPECIAL =
  (Npos (Coq_xI (Coq_xI (Coq_xO (Coq_xI (Coq_xI (Coq_xO
    Coq_xH))))))) :: ((Npos (Coq_xI (Coq_xO (Coq_xI (Coq_xI (Coq_xI (Coq_xO
    Coq_xH))))))) :: ((Npos (Coq_xI (Coq_xO (Coq_xI (Coq_xI (Coq_xO
    Coq_xH)))))) :: ((Npos (Coq_xO (Coq_xO (Coq_xI (Coq_xI (Coq_xI (Coq_xO
    Coq_xH))))))) :: [])))

(** val coq_CLASS_ESCAPABLE : str **)

let coq_CLASS_ESCAPABLE =
  (Npos (Coq_xI (Coq_xI (Coq_xO (Coq_xI (Coq_xI (Coq_xO
    Coq_xH))))))) :: ((Npos (Coq_xI (Coq_xO (Coq_xI (Coq_xI (Coq_xI (Coq_xO
    Coq_xH))))))) :: ((Npos (Coq_xI (Coq_xO (Coq_xI (Coq_xI (Coq_xO
    Coq_xH)))))) :: []))

(** val c_rparen : coq_N **)

let c_rparen =
  Npos (Coq_xI (Coq_xO (Coq_xO (Coq_xI (Coq_xO Coq_xH)))))

(** val c_star : coq_N **)

let c_star =
  Npos (Coq_xO (Coq_xI (Coq_xO (Coq_xI (Coq_xO Coq_xH)))))

(** val c_dollar : coq_N **)

let c_dollar =
  Npos (Coq_xO (Coq_xO (Coq_xI (Coq_xO (Coq_xO Coq_xH)))))

(** val c_rbrace : coq_N **)

let c_rbrace =
  Npos (Coq_xI (Coq_xO (Coq_xI (Coq_xI (Coq_xI (Coq_xI Coq_xH))))))

(** val c_comma : coq_N **)

let c_comma =
  Npos (Coq_xO (Coq_xO (Coq_xI (Coq_xI (Coq_xO Coq_xH)))))

(** val c_gt : coq_N **)

let c_gt =
  Npos (Coq_xO (Coq_xI (Coq_xI (Coq_xI (Coq_xI Coq_xH)))))

(** val c_colon : coq_N **)

let c_colon =
  Npos (Coq_xO (Coq_xI (Coq_xO (Coq_xI (Coq_xI Coq_xH)))))

type input = { i_s : str; i_pos : coq_N; i_ci : bool; i_sub : coq_N }

(** val adv : input -> str -> str -> input **)

let adv i consumed rest =
  { i_s = rest; i_pos = (N.add i.i_pos (blen consumed)); i_ci = i.i_ci;
    i_sub = i.i_sub }

(** val adv1 : input -> char -> str -> input **)

let adv1 i c rest =
  { i_s = rest; i_pos = (N.add i.i_pos (utf8_len c)); i_ci = i.i_ci; i_sub =
    i.i_sub }

(** val set_ci : input -> bool -> input **)

let set_ci i b =
  { i_s = i.i_s; i_pos = i.i_pos; i_ci = b; i_sub = i.i_sub }

(** val set_sub : input -> input **)

let set_sub i =
  { i_s = i.i_s; i_pos = i.i_pos; i_ci = i.i_ci; i_sub = i.i_pos }

(** val tag1 : char -> input -> input option **)

let tag1 c i =
  match i.i_s with
  | [] -> None
  | d :: r -> if N.eqb c d then Some (adv1 i d r) else None

(** val flag_toggles : nat -> input -> bool -> input option **)

let rec flag_toggles fuel i any =
  match fuel with
  | O -> if any then Some i else None
  | S f ->
    (match i.i_s with
     | [] -> if any then Some i else None
     | c :: r ->
       (match c with
        | N0 -> if any then Some i else None
        | Npos p ->
          (match p with
           | Coq_xI p0 ->
             (match p0 with
              | Coq_xO p1 ->
                (match p1 with
                 | Coq_xI p2 ->
                   (match p2 with
                    | Coq_xI p3 ->
                      (match p3 with
                       | Coq_xO p4 ->
                         (match p4 with
                          | Coq_xH ->
                            (match r with
                             | [] -> if any then Some i else None
                             | c0 :: r0 ->
                               (match c0 with
                                | N0 -> if any then Some i else None
                                | Npos p5 ->
                                  (match p5 with
                                   | Coq_xI p6 ->
                                     (match p6 with
                                      | Coq_xO p7 ->
                                        (match p7 with
                                         | Coq_xO p8 ->
                                           (match p8 with
                                            | Coq_xI p9 ->
                                              (match p9 with
                                               | Coq_xO p10 ->
                                                 (match p10 with
                                                  | Coq_xI p11 ->
                                                    (match p11 with
                                                     | Coq_xH ->
                                                       flag_toggles f
                                                         (set_ci
                                                           (adv1
                                                             (adv1 i (Npos
                                                               (Coq_xI
                                                               (Coq_xO
                                                               (Coq_xI
                                                               (Coq_xI
                                                               (Coq_xO
                                                               Coq_xH))))))
                                                               ((Npos (Coq_xI
                                                               (Coq_xO
                                                               (Coq_xO
                                                               (Coq_xI
                                                               (Coq_xO
                                                               (Coq_xI
                                                               Coq_xH))))))) :: r0))
                                                             (Npos (Coq_xI
                                                             (Coq_xO (Coq_xO
                                                             (Coq_xI (Coq_xO
                                                             (Coq_xI
                                                             Coq_xH))))))) r0)
                                                           false) true
                                                     | _ ->
                                                       if any
                                                       then Some i
                                                       else None)
                                                  | _ ->
                                                    if any
                                                    then Some i
                                                    else None)
                                               | _ ->
                                                 if any then Some i else None)
                                            | _ ->
                                              if any then Some i else None)
                                         | _ -> if any then Some i else None)
                                      | _ -> if any then Some i else None)
                                   | _ -> if any then Some i else None)))
                          | _ -> if any then Some i else None)
                       | _ -> if any then Some i else None)
                    | _ -> if any then Some i else None)
                 | Coq_xO p2 ->
                   (match p2 with
                    | Coq_xI p3 ->
                      (match p3 with
                       | Coq_xO p4 ->
                         (match p4 with
                          | Coq_xI p5 ->
                            (match p5 with
                             | Coq_xH ->
                               flag_toggles f
                                 (set_ci
                                   (adv1 i (Npos (Coq_xI (Coq_xO (Coq_xO
                                     (Coq_xI (Coq_xO (Coq_xI Coq_xH))))))) r)
                                   true) true
                             | _ -> if any then Some i else None)
                          | _ -> if any then Some i else None)
                       | _ -> if any then Some i else None)
                    | _ -> if any then Some i else None)
                 | Coq_xH -> if any then Some i else None)
              | _ -> if any then Some i else None)
           | _ -> if any then Some i else None)))

(** val flag_group : input -> input option **)

let flag_group i =
  match i.i_s with
  | [] -> None
  | c :: l ->
    (match c with
     | N0 -> None
     | Npos p ->
       (match p with
        | Coq_xO p0 ->
          (match p0 with
           | Coq_xO p1 ->
             (match p1 with
              | Coq_xO p2 ->
                (match p2 with
                 | Coq_xI p3 ->
                   (match p3 with
                    | Coq_xO p4 ->
                      (match p4 with
                       | Coq_xH ->
                         (match l with
                          | [] -> None
                          | c0 :: r ->
                            (match c0 with
                             | N0 -> None
                             | Npos p5 ->
                               (match p5 with
                                | Coq_xI p6 ->
                                  (match p6 with
                                   | Coq_xI p7 ->
                                     (match p7 with
                                      | Coq_xI p8 ->
                                        (match p8 with
                                         | Coq_xI p9 ->
                                           (match p9 with
                                            | Coq_xI p10 ->
                                              (match p10 with
                                               | Coq_xH ->
                                                 let i1 =
                                                   adv1
                                                     (adv1 i (Npos (Coq_xO
                                                       (Coq_xO (Coq_xO
                                                       (Coq_xI (Coq_xO
                                                       Coq_xH)))))) ((Npos
                                                       (Coq_xI (Coq_xI
                                                       (Coq_xI (Coq_xI
                                                       (Coq_xI
                                                       Coq_xH)))))) :: r))
                                                     (Npos (Coq_xI (Coq_xI
                                                     (Coq_xI (Coq_xI (Coq_xI
                                                     Coq_xH)))))) r
                                                 in
                                                 (match flag_toggles
                                                          (length r) i1 false with
                                                  | Some i2 ->
                                                    tag1 c_rparen i2
                                                  | None -> None)
                                               | _ -> None)
                                            | _ -> None)
                                         | _ -> None)
                                      | _ -> None)
                                   | _ -> None)
                                | _ -> None)))
                       | _ -> None)
                    | _ -> None)
                 | _ -> None)
              | _ -> None)
           | _ -> None)
        | _ -> None))

(** val flags_with_state_f : nat -> input -> input **)

let rec flags_with_state_f fuel i =
  match fuel with
  | O -> i
  | S f ->
    (match flag_group i with
     | Some i' -> flags_with_state_f f i'
     | None -> i)

(** val flags_with_state : input -> input **)

let flags_with_state i =
  flags_with_state_f (length i.i_s) i

(** val flags_without_state : input -> input **)

let flags_without_state i =
  let i' = flags_with_state i in set_ci i' i.i_ci

(** val lit_chars : str -> (str * str) option **)

let rec lit_chars s = match s with
| [] -> Some ([], [])
| c :: r ->
  if N.eqb c coq_BSLASH
  then (match r with
        | [] -> None
        | d :: r' ->
          if mem d coq_LIT_ESCAPABLE
          then (match lit_chars r' with
                | Some p -> let (t, rest) = p in Some ((d :: t), rest)
                | None -> None)
          else None)
  else if mem c coq_LIT_SPECIAL
       then Some ([], s)
       else (match lit_chars r with
             | Some p -> let (t, rest) = p in Some ((c :: t), rest)
             | None -> None)

(** val consumed_of : str -> str -> str **)

let consumed_of s rest =
  firstn (sub (length s) (length rest)) s

(** val p_literal : input -> (leaf * input) option **)

let p_literal i =
  match lit_chars i.i_s with
  | Some p ->
    let (text, rest) = p in
    if is_nil text
    then None
    else Some ((LLit (i.i_ci, text)), (adv i (consumed_of i.i_s rest) rest))
  | None -> None

(** val class_char : str -> (char * str) option **)

let class_char = function
| [] -> None
| c :: r ->
  if N.eqb c coq_BSLASH
  then (match r with
        | [] -> None
        | d :: r' -> if mem d coq_CLASS_ESCAPABLE then Some (d, r') else None)
  else if mem c coq_CLASS_SPECIAL then None else Some (c, r)

(** val class_arch : str -> (arch * str) option **)

let class_arch s =
  match class_char s with
  | Some p ->
    let (a, r) = p in
    (match r with
     | [] -> Some ((AChar a), r)
     | c :: r1 ->
       (match c with
        | N0 -> Some ((AChar a), r)
        | Npos p0 ->
          (match p0 with
           | Coq_xI p1 ->
             (match p1 with
              | Coq_xO p2 ->
                (match p2 with
                 | Coq_xI p3 ->
                   (match p3 with
                    | Coq_xI p4 ->
                      (match p4 with
                       | Coq_xO p5 ->
                         (match p5 with
                          | Coq_xH ->
                            (match class_char r1 with
                             | Some p6 ->
                               let (b, r2) = p6 in Some ((ARange (a, b)), r2)
                             | None -> Some ((AChar a), r))
                          | _ -> Some ((AChar a), r))
                       | _ -> Some ((AChar a), r))
                    | _ -> Some ((AChar a), r))
                 | _ -> Some ((AChar a), r))
              | _ -> Some ((AChar a), r))
           | _ -> Some ((AChar a), r))))
  | None -> None

(** val class_archs : nat -> str -> arch list * str **)

let rec class_archs fuel s =
  match fuel with
  | O -> ([], s)
  | S f ->
    (match class_arch s with
     | Some p ->
       let (a, r) = p in let (l, r') = class_archs f r in ((a :: l), r')
     | None -> ([], s))

(** val p_class : input -> (leaf * input) option **)

let p_class i =
  match i.i_s with
  | [] -> None
  | c :: r ->
    (match c with
     | N0 -> None
     | Npos p ->
       (match p with
        | Coq_xI p0 ->
          (match p0 with
           | Coq_xI p1 ->
             (match p1 with
              | Coq_xO p2 ->
                (match p2 with
                 | Coq_xI p3 ->
                   (match p3 with
                    | Coq_xI p4 ->
                      (match p4 with
                       | Coq_xO p5 ->
                         (match p5 with
                          | Coq_xH ->
                            (match r with
                             | [] ->
                               let neg = false in
                               let (archs, r2) = class_archs (length r) r in
                               (match archs with
                                | [] -> None
                                | _ :: _ ->
                                  (match r2 with
                                   | [] -> None
                                   | c0 :: r3 ->
                                     (match c0 with
                                      | N0 -> None
                                      | Npos p6 ->
                                        (match p6 with
                                         | Coq_xI p7 ->
                                           (match p7 with
                                            | Coq_xO p8 ->
                                              (match p8 with
                                               | Coq_xI p9 ->
                                                 (match p9 with
                                                  | Coq_xI p10 ->
                                                    (match p10 with
                                                     | Coq_xI p11 ->
                                                       (match p11 with
                                                        | Coq_xO p12 ->
                                                          (match p12 with
                                                           | Coq_xH ->
                                                             Some ((LClass
                                                               (neg, archs)),
                                                               (adv i
                                                                 (consumed_of
                                                                   i.i_s r3)
                                                                 r3))
                                                           | _ -> None)
                                                        | _ -> None)
                                                     | _ -> None)
                                                  | _ -> None)
                                               | _ -> None)
                                            | _ -> None)
                                         | _ -> None))))
                             | c0 :: r' ->
                               (match c0 with
                                | N0 ->
                                  let neg = false in
                                  let (archs, r2) = class_archs (length r) r
                                  in
                                  (match archs with
                                   | [] -> None
                                   | _ :: _ ->
                                     (match r2 with
                                      | [] -> None
                                      | c1 :: r3 ->
                                        (match c1 with
                                         | N0 -> None
                                         | Npos p6 ->
                                           (match p6 with
                                            | Coq_xI p7 ->
                                              (match p7 with
                                               | Coq_xO p8 ->
                                                 (match p8 with
                                                  | Coq_xI p9 ->
                                                    (match p9 with
                                                     | Coq_xI p10 ->
                                                       (match p10 with
                                                        | Coq_xI p11 ->
                                                          (match p11 with
                                                           | Coq_xO p12 ->
                                                             (match p12 with
                                                              | Coq_xH ->
                                                                Some ((LClass
                                                                  (neg,
                                                                  archs)),
                                                                  (adv i
                                                                    (consumed_of
                                                                    i.i_s r3)
                                                                    r3))
                                                              | _ -> None)
                                                           | _ -> None)
                                                        | _ -> None)
                                                     | _ -> None)
                                                  | _ -> None)
                                               | _ -> None)
                                            | _ -> None))))
                                | Npos p6 ->
                                  (match p6 with
                                   | Coq_xI p7 ->
                                     (match p7 with
                                      | Coq_xO p8 ->
                                        (match p8 with
                                         | Coq_xO p9 ->
                                           (match p9 with
                                            | Coq_xO p10 ->
                                              (match p10 with
                                               | Coq_xO p11 ->
                                                 (match p11 with
                                                  | Coq_xH ->
                                                    let neg = true in
                                                    let (archs, r2) =
                                                      class_archs (length r')
                                                        r'
                                                    in
                                                    (match archs with
                                                     | [] -> None
                                                     | _ :: _ ->
                                                       (match r2 with
                                                        | [] -> None
                                                        | c1 :: r3 ->
                                                          (match c1 with
                                                           | N0 -> None
                                                           | Npos p12 ->
                                                             (match p12 with
                                                              | Coq_xI p13 ->
                                                                (match p13 with
                                                                 | Coq_xO p14 ->
                                                                   (match p14 with
                                                                    | Coq_xI p15 ->
                                                                    (match p15 with
                                                                    | Coq_xI p16 ->
                                                                    (match p16 with
                                                                    | Coq_xI p17 ->
                                                                    (match p17 with
                                                                    | Coq_xO p18 ->
                                                                    (match p18 with
                                                                    | Coq_xH ->
                                                                    Some
                                                                    ((LClass
                                                                    (neg,
                                                                    archs)),
                                                                    (adv i
                                                                    (consumed_of
                                                                    i.i_s r3)
                                                                    r3))
                                                                    | _ ->
                                                                    None)
                                                                    | _ ->
                                                                    None)
                                                                    | _ ->
                                                                    None)
                                                                    | _ ->
                                                                    None)
                                                                    | _ ->
                                                                    None)
                                                                 | _ -> None)
                                                              | _ -> None))))
                                                  | _ ->
                                                    let neg = false in
                                                    let (archs, r2) =
                                                      class_archs (length r) r
                                                    in
                                                    (match archs with
                                                     | [] -> None
                                                     | _ :: _ ->
                                                       (match r2 with
                                                        | [] -> None
                                                        | c1 :: r3 ->
                                                          (match c1 with
                                                           | N0 -> None
                                                           | Npos p12 ->
                                                             (match p12 with
                                                              | Coq_xI p13 ->
                                                                (match p13 with
                                                                 | Coq_xO p14 ->
                                                                   (match p14 with
                                                                    | Coq_xI p15 ->
                                                                    (match p15 with
                                                                    | Coq_xI p16 ->
                                                                    (match p16 with
                                                                    | Coq_xI p17 ->
                                                                    (match p17 with
                                                                    | Coq_xO p18 ->
                                                                    (match p18 with
                                                                    | Coq_xH ->
                                                                    Some
                                                                    ((LClass
                                                                    (neg,
                                                                    archs)),
                                                                    (adv i
                                                                    (consumed_of
                                                                    i.i_s r3)
                                                                    r3))
                                                                    | _ ->
                                                                    None)
                                                                    | _ ->
                                                                    None)
                                                                    | _ ->
                                                                    None)
                                                                    | _ ->
                                                                    None)
                                                                    | _ ->
                                                                    None)
                                                                 | _ -> None)
                                                              | _ -> None)))))
                                               | _ ->
                                                 let neg = false in
                                                 let (archs, r2) =
                                                   class_archs (length r) r
                                                 in
                                                 (match archs with
                                                  | [] -> None
                                                  | _ :: _ ->
                                                    (match r2 with
                                                     | [] -> None
                                                     | c1 :: r3 ->
                                                       (match c1 with
                                                        | N0 -> None
                                                        | Npos p11 ->
                                                          (match p11 with
                                                           | Coq_xI p12 ->
                                                             (match p12 with
                                                              | Coq_xO p13 ->
                                                                (match p13 with
                                                                 | Coq_xI p14 ->
                                                                   (match p14 with
                                                                    | Coq_xI p15 ->
                                                                    (match p15 with
                                                                    | Coq_xI p16 ->
                                                                    (match p16 with
                                                                    | Coq_xO p17 ->
                                                                    (match p17 with
                                                                    | Coq_xH ->
                                                                    Some
                                                                    ((LClass
                                                                    (neg,
                                                                    archs)),
                                                                    (adv i
                                                                    (consumed_of
                                                                    i.i_s r3)
                                                                    r3))
                                                                    | _ ->
                                                                    None)
                                                                    | _ ->
                                                                    None)
                                                                    | _ ->
                                                                    None)
                                                                    | _ ->
                                                                    None)
                                                                 | _ -> None)
                                                              | _ -> None)
                                                           | _ -> None)))))
                                            | _ ->
                                              let neg = false in
                                              let (archs, r2) =
                                                class_archs (length r) r
                                              in
                                              (match archs with
                                               | [] -> None
                                               | _ :: _ ->
                                                 (match r2 with
                                                  | [] -> None
                                                  | c1 :: r3 ->
                                                    (match c1 with
                                                     | N0 -> None
                                                     | Npos p10 ->
                                                       (match p10 with
                                                        | Coq_xI p11 ->
                                                          (match p11 with
                                                           | Coq_xO p12 ->
                                                             (match p12 with
                                                              | Coq_xI p13 ->
                                                                (match p13 with
                                                                 | Coq_xI p14 ->
                                                                   (match p14 with
                                                                    | Coq_xI p15 ->
                                                                    (match p15 with
                                                                    | Coq_xO p16 ->
                                                                    (match p16 with
                                                                    | Coq_xH ->
                                                                    Some
                                                                    ((LClass
                                                                    (neg,
                                                                    archs)),
                                                                    (adv i
                                                                    (consumed_of
                                                                    i.i_s r3)
                                                                    r3))
                                                                    | _ ->
                                                                    None)
                                                                    | _ ->
                                                                    None)
                                                                    | _ ->
                                                                    None)
                                                                 | _ -> None)
                                                              | _ -> None)
                                                           | _ -> None)
                                                        | _ -> None)))))
                                         | _ ->
                                           let neg = false in
                                           let (archs, r2) =
                                             class_archs (length r) r
                                           in
                                           (match archs with
                                            | [] -> None
                                            | _ :: _ ->
                                              (match r2 with
                                               | [] -> None
                                               | c1 :: r3 ->
                                                 (match c1 with
                                                  | N0 -> None
                                                  | Npos p9 ->
                                                    (match p9 with
                                                     | Coq_xI p10 ->
                                                       (match p10 with
                                                        | Coq_xO p11 ->
                                                          (match p11 with
                                                           | Coq_xI p12 ->
                                                             (match p12 with
                                                              | Coq_xI p13 ->
                                                                (match p13 with
                                                                 | Coq_xI p14 ->
                                                                   (match p14 with
                                                                    | Coq_xO p15 ->
                                                                    (match p15 with
                                                                    | Coq_xH ->
                                                                    Some
                                                                    ((LClass
                                                                    (neg,
                                                                    archs)),
                                                                    (adv i
                                                                    (consumed_of
                                                                    i.i_s r3)
                                                                    r3))
                                                                    | _ ->
                                                                    None)
                                                                    | _ ->
                                                                    None)
                                                                 | _ -> None)
                                                              | _ -> None)
                                                           | _ -> None)
                                                        | _ -> None)
                                                     | _ -> None)))))
                                      | _ ->
                                        let neg = false in
                                        let (archs, r2) =
                                          class_archs (length r) r
                                        in
                                        (match archs with
                                         | [] -> None
                                         | _ :: _ ->
                                           (match r2 with
                                            | [] -> None
                                            | c1 :: r3 ->
                                              (match c1 with
                                               | N0 -> None
                                               | Npos p8 ->
                                                 (match p8 with
                                                  | Coq_xI p9 ->
                                                    (match p9 with
                                                     | Coq_xO p10 ->
                                                       (match p10 with
                                                        | Coq_xI p11 ->
                                                          (match p11 with
                                                           | Coq_xI p12 ->
                                                             (match p12 with
                                                              | Coq_xI p13 ->
                                                                (match p13 with
                                                                 | Coq_xO p14 ->
                                                                   (match p14 with
                                                                    | Coq_xH ->
                                                                    Some
                                                                    ((LClass
                                                                    (neg,
                                                                    archs)),
                                                                    (adv i
                                                                    (consumed_of
                                                                    i.i_s r3)
                                                                    r3))
                                                                    | _ ->
                                                                    None)
                                                                 | _ -> None)
                                                              | _ -> None)
                                                           | _ -> None)
                                                        | _ -> None)
                                                     | _ -> None)
                                                  | _ -> None)))))
                                   | _ ->
                                     let neg = false in
                                     let (archs, r2) =
                                       class_archs (length r) r
                                     in
                                     (match archs with
                                      | [] -> None
                                      | _ :: _ ->
                                        (match r2 with
                                         | [] -> None
                                         | c1 :: r3 ->
                                           (match c1 with
                                            | N0 -> None
                                            | Npos p7 ->
                                              (match p7 with
                                               | Coq_xI p8 ->
                                                 (match p8 with
                                                  | Coq_xO p9 ->
                                                    (match p9 with
                                                     | Coq_xI p10 ->
                                                       (match p10 with
                                                        | Coq_xI p11 ->
                                                          (match p11 with
                                                           | Coq_xI p12 ->
                                                             (match p12 with
                                                              | Coq_xO p13 ->
                                                                (match p13 with
                                                                 | Coq_xH ->
                                                                   Some
                                                                    ((LClass
                                                                    (neg,
                                                                    archs)),
                                                                    (adv i
                                                                    (consumed_of
                                                                    i.i_s r3)
                                                                    r3))
                                                                 | _ -> None)
                                                              | _ -> None)
                                                           | _ -> None)
                                                        | _ -> None)
                                                     | _ -> None)
                                                  | _ -> None)
                                               | _ -> None)))))))
                          | _ -> None)
                       | _ -> None)
                    | _ -> None)
                 | _ -> None)
              | _ -> None)
           | _ -> None)
        | _ -> None))

type terminator =
| TermTop
| TermAlt
| TermRep

(** val term_ok : terminator -> input -> bool **)

let term_ok tm i =
  match tm with
  | TermTop -> (match i.i_s with
                | [] -> true
                | _ :: _ -> false)
  | TermAlt ->
    (match i.i_s with
     | [] -> false
     | c :: _ -> (||) (N.eqb c c_comma) (N.eqb c c_rbrace))
  | TermRep ->
    (match i.i_s with
     | [] -> false
     | c :: _ -> (||) (N.eqb c c_colon) (N.eqb c c_gt))

(** val zom_lookahead : input -> bool **)

let zom_lookahead i =
  match (flags_without_state i).i_s with
  | [] -> false
  | c :: _ -> negb ((||) (N.eqb c c_star) (N.eqb c c_dollar))

(** val p_wildcard : terminator -> input -> (leaf * input) option **)

let p_wildcard tm i =
  match i.i_s with
  | [] ->
    let tree =
      let prefix =
        match i.i_s with
        | [] ->
          if N.eqb i.i_sub i.i_pos
          then Some (false, (flags_with_state i))
          else None
        | c :: r ->
          (match c with
           | N0 ->
             if N.eqb i.i_sub i.i_pos
             then Some (false, (flags_with_state i))
             else None
           | Npos p ->
             (match p with
              | Coq_xI p0 ->
                (match p0 with
                 | Coq_xI p1 ->
                   (match p1 with
                    | Coq_xI p2 ->
                      (match p2 with
                       | Coq_xI p3 ->
                         (match p3 with
                          | Coq_xO p4 ->
                            (match p4 with
                             | Coq_xH ->
                               Some (true,
                                 (flags_with_state
                                   (adv1 i (Npos (Coq_xI (Coq_xI (Coq_xI
                                     (Coq_xI (Coq_xO Coq_xH)))))) r)))
                             | _ ->
                               if N.eqb i.i_sub i.i_pos
                               then Some (false, (flags_with_state i))
                               else None)
                          | _ ->
                            if N.eqb i.i_sub i.i_pos
                            then Some (false, (flags_with_state i))
                            else None)
                       | _ ->
                         if N.eqb i.i_sub i.i_pos
                         then Some (false, (flags_with_state i))
                         else None)
                    | _ ->
                      if N.eqb i.i_sub i.i_pos
                      then Some (false, (flags_with_state i))
                      else None)
                 | _ ->
                   if N.eqb i.i_sub i.i_pos
                   then Some (false, (flags_with_state i))
                   else None)
              | _ ->
                if N.eqb i.i_sub i.i_pos
                then Some (false, (flags_with_state i))
                else None))
      in
      (match prefix with
       | Some p ->
         let (root, i1) = p in
         (match i1.i_s with
          | [] -> None
          | c :: l ->
            (match c with
             | N0 -> None
             | Npos p0 ->
               (match p0 with
                | Coq_xI _ -> None
                | Coq_xO p1 ->
                  (match p1 with
                   | Coq_xI p2 ->
                     (match p2 with
                      | Coq_xI _ -> None
                      | Coq_xO p3 ->
                        (match p3 with
                         | Coq_xI p4 ->
                           (match p4 with
                            | Coq_xI _ -> None
                            | Coq_xO p5 ->
                              (match p5 with
                               | Coq_xI _ -> None
                               | Coq_xO _ -> None
                               | Coq_xH ->
                                 (match l with
                                  | [] -> None
                                  | c0 :: r ->
                                    (match c0 with
                                     | N0 -> None
                                     | Npos p6 ->
                                       (match p6 with
                                        | Coq_xI _ -> None
                                        | Coq_xO p7 ->
                                          (match p7 with
                                           | Coq_xI p8 ->
                                             (match p8 with
                                              | Coq_xI _ -> None
                                              | Coq_xO p9 ->
                                                (match p9 with
                                                 | Coq_xI p10 ->
                                                   (match p10 with
                                                    | Coq_xI _ -> None
                                                    | Coq_xO p11 ->
                                                      (match p11 with
                                                       | Coq_xI _ -> None
                                                       | Coq_xO _ -> None
                                                       | Coq_xH ->
                                                         let i2 =
                                                           adv1
                                                             (adv1 i1 (Npos
                                                               (Coq_xO
                                                               (Coq_xI
                                                               (Coq_xO
                                                               (Coq_xI
                                                               (Coq_xO
                                                               Coq_xH))))))
                                                               ((Npos (Coq_xO
                                                               (Coq_xI
                                                               (Coq_xO
                                                               (Coq_xI
                                                               (Coq_xO
                                                               Coq_xH)))))) :: r))
                                                             (Npos (Coq_xO
                                                             (Coq_xI (Coq_xO
                                                             (Coq_xI (Coq_xO
                                                             Coq_xH)))))) r
                                                         in
                                                         let i3 =
                                                           flags_with_state i2
                                                         in
                                                         (match i3.i_s with
                                                          | [] ->
                                                            if term_ok tm i2
                                                            then Some ((LTree
                                                                   root), i2)
                                                            else None
                                                          | c1 :: r3 ->
                                                            (match c1 with
                                                             | N0 ->
                                                               if term_ok tm
                                                                    i2
                                                               then Some
                                                                    ((LTree
                                                                    root), i2)
                                                               else None
                                                             | Npos p12 ->
                                                               (match p12 with
                                                                | Coq_xI p13 ->
                                                                  (match p13 with
                                                                   | Coq_xI p14 ->
                                                                    (match p14 with
                                                                    | Coq_xI p15 ->
                                                                    (match p15 with
                                                                    | Coq_xI p16 ->
                                                                    (match p16 with
                                                                    | Coq_xO p17 ->
                                                                    (match p17 with
                                                                    | Coq_xH ->
                                                                    Some
                                                                    ((LTree
                                                                    root),
                                                                    (adv1 i3
                                                                    (Npos
                                                                    (Coq_xI
                                                                    (Coq_xI
                                                                    (Coq_xI
                                                                    (Coq_xI
                                                                    (Coq_xO
                                                                    Coq_xH))))))
                                                                    r3))
                                                                    | _ ->
                                                                    if 
                                                                    term_ok
                                                                    tm i2
                                                                    then 
                                                                    Some
                                                                    ((LTree
                                                                    root), i2)
                                                                    else None)
                                                                    | _ ->
                                                                    if 
                                                                    term_ok
                                                                    tm i2
                                                                    then 
                                                                    Some
                                                                    ((LTree
                                                                    root), i2)
                                                                    else None)
                                                                    | _ ->
                                                                    if 
                                                                    term_ok
                                                                    tm i2
                                                                    then 
                                                                    Some
                                                                    ((LTree
                                                                    root), i2)
                                                                    else None)
                                                                    | _ ->
                                                                    if 
                                                                    term_ok
                                                                    tm i2
                                                                    then 
                                                                    Some
                                                                    ((LTree
                                                                    root), i2)
                                                                    else None)
                                                                   | _ ->
                                                                    if 
                                                                    term_ok
                                                                    tm i2
                                                                    then 
                                                                    Some
                                                                    ((LTree
                                                                    root), i2)
                                                                    else None)
                                                                | _ ->
                                                                  if 
                                                                    term_ok
                                                                    tm i2
                                                                  then 
                                                                    Some
                                                                    ((LTree
                                                                    root), i2)
                                                                  else None))))
                                                    | Coq_xH -> None)
                                                 | _ -> None)
                                              | Coq_xH -> None)
                                           | _ -> None)
                                        | Coq_xH -> None))))
                            | Coq_xH -> None)
                         | _ -> None)
                      | Coq_xH -> None)
                   | _ -> None)
                | Coq_xH -> None)))
       | None -> None)
    in
    (match tree with
     | Some x -> Some x
     | None ->
       (match i.i_s with
        | [] -> None
        | c :: r ->
          (match c with
           | N0 -> None
           | Npos p ->
             (match p with
              | Coq_xO p0 ->
                (match p0 with
                 | Coq_xI p1 ->
                   (match p1 with
                    | Coq_xO p2 ->
                      (match p2 with
                       | Coq_xI p3 ->
                         (match p3 with
                          | Coq_xO p4 ->
                            (match p4 with
                             | Coq_xH ->
                               let i1 =
                                 adv1 i (Npos (Coq_xO (Coq_xI (Coq_xO (Coq_xI
                                   (Coq_xO Coq_xH)))))) r
                               in
                               if (||) (zom_lookahead i1) (term_ok tm i1)
                               then Some ((LZom false), i1)
                               else None
                             | _ -> None)
                          | _ -> None)
                       | _ -> None)
                    | _ -> None)
                 | Coq_xO p1 ->
                   (match p1 with
                    | Coq_xI p2 ->
                      (match p2 with
                       | Coq_xO p3 ->
                         (match p3 with
                          | Coq_xO p4 ->
                            (match p4 with
                             | Coq_xH ->
                               let i1 =
                                 adv1 i (Npos (Coq_xO (Coq_xO (Coq_xI (Coq_xO
                                   (Coq_xO Coq_xH)))))) r
                               in
                               if (||) (zom_lookahead i1) (term_ok tm i1)
                               then Some ((LZom true), i1)
                               else None
                             | _ -> None)
                          | _ -> None)
                       | _ -> None)
                    | _ -> None)
                 | Coq_xH -> None)
              | _ -> None))))
  | c :: r ->
    (match c with
     | N0 ->
       let tree =
         let prefix =
           match i.i_s with
           | [] ->
             if N.eqb i.i_sub i.i_pos
             then Some (false, (flags_with_state i))
             else None
           | c0 :: r0 ->
             (match c0 with
              | N0 ->
                if N.eqb i.i_sub i.i_pos
                then Some (false, (flags_with_state i))
                else None
              | Npos p ->
                (match p with
                 | Coq_xI p0 ->
                   (match p0 with
                    | Coq_xI p1 ->
                      (match p1 with
                       | Coq_xI p2 ->
                         (match p2 with
                          | Coq_xI p3 ->
                            (match p3 with
                             | Coq_xO p4 ->
                               (match p4 with
                                | Coq_xH ->
                                  Some (true,
                                    (flags_with_state
                                      (adv1 i (Npos (Coq_xI (Coq_xI (Coq_xI
                                        (Coq_xI (Coq_xO Coq_xH)))))) r0)))
                                | _ ->
                                  if N.eqb i.i_sub i.i_pos
                                  then Some (false, (flags_with_state i))
                                  else None)
                             | _ ->
                               if N.eqb i.i_sub i.i_pos
                               then Some (false, (flags_with_state i))
                               else None)
                          | _ ->
                            if N.eqb i.i_sub i.i_pos
                            then Some (false, (flags_with_state i))
                            else None)
                       | _ ->
                         if N.eqb i.i_sub i.i_pos
                         then Some (false, (flags_with_state i))
                         else None)
                    | _ ->
                      if N.eqb i.i_sub i.i_pos
                      then Some (false, (flags_with_state i))
                      else None)
                 | _ ->
                   if N.eqb i.i_sub i.i_pos
                   then Some (false, (flags_with_state i))
                   else None))
         in
         (match prefix with
          | Some p ->
            let (root, i1) = p in
            (match i1.i_s with
             | [] -> None
             | c0 :: l ->
               (match c0 with
                | N0 -> None
                | Npos p0 ->
                  (match p0 with
                   | Coq_xI _ -> None
                   | Coq_xO p1 ->
                     (match p1 with
                      | Coq_xI p2 ->
                        (match p2 with
                         | Coq_xI _ -> None
                         | Coq_xO p3 ->
                           (match p3 with
                            | Coq_xI p4 ->
                              (match p4 with
                               | Coq_xI _ -> None
                               | Coq_xO p5 ->
                                 (match p5 with
                                  | Coq_xI _ -> None
                                  | Coq_xO _ -> None
                                  | Coq_xH ->
                                    (match l with
                                     | [] -> None
                                     | c1 :: r0 ->
                                       (match c1 with
                                        | N0 -> None
                                        | Npos p6 ->
                                          (match p6 with
                                           | Coq_xI _ -> None
                                           | Coq_xO p7 ->
                                             (match p7 with
                                              | Coq_xI p8 ->
                                                (match p8 with
                                                 | Coq_xI _ -> None
                                                 | Coq_xO p9 ->
                                                   (match p9 with
                                                    | Coq_xI p10 ->
                                                      (match p10 with
                                                       | Coq_xI _ -> None
                                                       | Coq_xO p11 ->
                                                         (match p11 with
                                                          | Coq_xI _ -> None
                                                          | Coq_xO _ -> None
                                                          | Coq_xH ->
                                                            let i2 =
                                                              adv1
                                                                (adv1 i1
                                                                  (Npos
                                                                  (Coq_xO
                                                                  (Coq_xI
                                                                  (Coq_xO
                                                                  (Coq_xI
                                                                  (Coq_xO
                                                                  Coq_xH))))))
                                                                  ((Npos
                                                                  (Coq_xO
                                                                  (Coq_xI
                                                                  (Coq_xO
                                                                  (Coq_xI
                                                                  (Coq_xO
                                                                  Coq_xH)))))) :: r0))
                                                                (Npos (Coq_xO
                                                                (Coq_xI
                                                                (Coq_xO
                                                                (Coq_xI
                                                                (Coq_xO
                                                                Coq_xH))))))
                                                                r0
                                                            in
                                                            let i3 =
                                                              flags_with_state
                                                                i2
                                                            in
                                                            (match i3.i_s with
                                                             | [] ->
                                                               if term_ok tm
                                                                    i2
                                                               then Some
                                                                    ((LTree
                                                                    root), i2)
                                                               else None
                                                             | c2 :: r3 ->
                                                               (match c2 with
                                                                | N0 ->
                                                                  if 
                                                                    term_ok
                                                                    tm i2
                                                                  then 
                                                                    Some
                                                                    ((LTree
                                                                    root), i2)
                                                                  else None
                                                                | Npos p12 ->
                                                                  (match p12 with
                                                                   | Coq_xI p13 ->
                                                                    (match p13 with
                                                                    | Coq_xI p14 ->
                                                                    (match p14 with
                                                                    | Coq_xI p15 ->
                                                                    (match p15 with
                                                                    | Coq_xI p16 ->
                                                                    (match p16 with
                                                                    | Coq_xO p17 ->
                                                                    (match p17 with
                                                                    | Coq_xH ->
                                                                    Some
                                                                    ((LTree
                                                                    root),
                                                                    (adv1 i3
                                                                    (Npos
                                                                    (Coq_xI
                                                                    (Coq_xI
                                                                    (Coq_xI
                                                                    (Coq_xI
                                                                    (Coq_xO
                                                                    Coq_xH))))))
                                                                    r3))
                                                                    | _ ->
                                                                    if 
                                                                    term_ok
                                                                    tm i2
                                                                    then 
                                                                    Some
                                                                    ((LTree
                                                                    root), i2)
                                                                    else None)
                                                                    | _ ->
                                                                    if 
                                                                    term_ok
                                                                    tm i2
                                                                    then 
                                                                    Some
                                                                    ((LTree
                                                                    root), i2)
                                                                    else None)
                                                                    | _ ->
                                                                    if 
                                                                    term_ok
                                                                    tm i2
                                                                    then 
                                                                    Some
                                                                    ((LTree
                                                                    root), i2)
                                                                    else None)
                                                                    | _ ->
                                                                    if 
                                                                    term_ok
                                                                    tm i2
                                                                    then 
                                                                    Some
                                                                    ((LTree
                                                                    root), i2)
                                                                    else None)
                                                                    | _ ->
                                                                    if 
                                                                    term_ok
                                                                    tm i2
                                                                    then 
                                                                    Some
                                                                    ((LTree
                                                                    root), i2)
                                                                    else None)
                                                                   | _ ->
                                                                    if 
                                                                    term_ok
                                                                    tm i2
                                                                    then 
                                                                    Some
                                                                    ((LTree
                                                                    root), i2)
                                                                    else None))))
                                                       | Coq_xH -> None)
                                                    | _ -> None)
                                                 | Coq_xH -> None)
                                              | _ -> None)
                                           | Coq_xH -> None))))
                               | Coq_xH -> None)
                            | _ -> None)
                         | Coq_xH -> None)
                      | _ -> None)
                   | Coq_xH -> None)))
          | None -> None)
       in
       (match tree with
        | Some x -> Some x
        | None ->
          (match i.i_s with
           | [] -> None
           | c0 :: r0 ->
             (match c0 with
              | N0 -> None
              | Npos p ->
                (match p with
                 | Coq_xO p0 ->
                   (match p0 with
                    | Coq_xI p1 ->
                      (match p1 with
                       | Coq_xO p2 ->
                         (match p2 with
                          | Coq_xI p3 ->
                            (match p3 with
                             | Coq_xO p4 ->
                               (match p4 with
                                | Coq_xH ->
                                  let i1 =
                                    adv1 i (Npos (Coq_xO (Coq_xI (Coq_xO
                                      (Coq_xI (Coq_xO Coq_xH)))))) r0
                                  in
                                  if (||) (zom_lookahead i1) (term_ok tm i1)
                                  then Some ((LZom false), i1)
                                  else None
                                | _ -> None)
                             | _ -> None)
                          | _ -> None)
                       | _ -> None)
                    | Coq_xO p1 ->
                      (match p1 with
                       | Coq_xI p2 ->
                         (match p2 with
                          | Coq_xO p3 ->
                            (match p3 with
                             | Coq_xO p4 ->
                               (match p4 with
                                | Coq_xH ->
                                  let i1 =
                                    adv1 i (Npos (Coq_xO (Coq_xO (Coq_xI
                                      (Coq_xO (Coq_xO Coq_xH)))))) r0
                                  in
                                  if (||) (zom_lookahead i1) (term_ok tm i1)
                                  then Some ((LZom true), i1)
                                  else None
                                | _ -> None)
                             | _ -> None)
                          | _ -> None)
                       | _ -> None)
                    | Coq_xH -> None)
                 | _ -> None))))
     | Npos p ->
       (match p with
        | Coq_xI p0 ->
          (match p0 with
           | Coq_xI p1 ->
             (match p1 with
              | Coq_xI p2 ->
                (match p2 with
                 | Coq_xI p3 ->
                   (match p3 with
                    | Coq_xI p4 ->
                      (match p4 with
                       | Coq_xI _ ->
                         let tree =
                           let prefix =
                             match i.i_s with
                             | [] ->
                               if N.eqb i.i_sub i.i_pos
                               then Some (false, (flags_with_state i))
                               else None
                             | c0 :: r0 ->
                               (match c0 with
                                | N0 ->
                                  if N.eqb i.i_sub i.i_pos
                                  then Some (false, (flags_with_state i))
                                  else None
                                | Npos p5 ->
                                  (match p5 with
                                   | Coq_xI p6 ->
                                     (match p6 with
                                      | Coq_xI p7 ->
                                        (match p7 with
                                         | Coq_xI p8 ->
                                           (match p8 with
                                            | Coq_xI p9 ->
                                              (match p9 with
                                               | Coq_xO p10 ->
                                                 (match p10 with
                                                  | Coq_xH ->
                                                    Some (true,
                                                      (flags_with_state
                                                        (adv1 i (Npos (Coq_xI
                                                          (Coq_xI (Coq_xI
                                                          (Coq_xI (Coq_xO
                                                          Coq_xH)))))) r0)))
                                                  | _ ->
                                                    if N.eqb i.i_sub i.i_pos
                                                    then Some (false,
                                                           (flags_with_state
                                                             i))
                                                    else None)
                                               | _ ->
                                                 if N.eqb i.i_sub i.i_pos
                                                 then Some (false,
                                                        (flags_with_state i))
                                                 else None)
                                            | _ ->
                                              if N.eqb i.i_sub i.i_pos
                                              then Some (false,
                                                     (flags_with_state i))
                                              else None)
                                         | _ ->
                                           if N.eqb i.i_sub i.i_pos
                                           then Some (false,
                                                  (flags_with_state i))
                                           else None)
                                      | _ ->
                                        if N.eqb i.i_sub i.i_pos
                                        then Some (false,
                                               (flags_with_state i))
                                        else None)
                                   | _ ->
                                     if N.eqb i.i_sub i.i_pos
                                     then Some (false, (flags_with_state i))
                                     else None))
                           in
                           (match prefix with
                            | Some p5 ->
                              let (root, i1) = p5 in
                              (match i1.i_s with
                               | [] -> None
                               | c0 :: l ->
                                 (match c0 with
                                  | N0 -> None
                                  | Npos p6 ->
                                    (match p6 with
                                     | Coq_xI _ -> None
                                     | Coq_xO p7 ->
                                       (match p7 with
                                        | Coq_xI p8 ->
                                          (match p8 with
                                           | Coq_xI _ -> None
                                           | Coq_xO p9 ->
                                             (match p9 with
                                              | Coq_xI p10 ->
                                                (match p10 with
                                                 | Coq_xI _ -> None
                                                 | Coq_xO p11 ->
                                                   (match p11 with
                                                    | Coq_xI _ -> None
                                                    | Coq_xO _ -> None
                                                    | Coq_xH ->
                                                      (match l with
                                                       | [] -> None
                                                       | c1 :: r0 ->
                                                         (match c1 with
                                                          | N0 -> None
                                                          | Npos p12 ->
                                                            (match p12 with
                                                             | Coq_xI _ ->
                                                               None
                                                             | Coq_xO p13 ->
                                                               (match p13 with
                                                                | Coq_xI p14 ->
                                                                  (match p14 with
                                                                   | Coq_xI _ ->
                                                                    None
                                                                   | Coq_xO p15 ->
                                                                    (match p15 with
                                                                    | Coq_xI p16 ->
                                                                    (match p16 with
                                                                    | Coq_xI _ ->
                                                                    None
                                                                    | Coq_xO p17 ->
                                                                    (match p17 with
                                                                    | Coq_xI _ ->
                                                                    None
                                                                    | Coq_xO _ ->
                                                                    None
                                                                    | Coq_xH ->
                                                                    let i2 =
                                                                    adv1
                                                                    (adv1 i1
                                                                    (Npos
                                                                    (Coq_xO
                                                                    (Coq_xI
                                                                    (Coq_xO
                                                                    (Coq_xI
                                                                    (Coq_xO
                                                                    Coq_xH))))))
                                                                    ((Npos
                                                                    (Coq_xO
                                                                    (Coq_xI
                                                                    (Coq_xO
                                                                    (Coq_xI
                                                                    (Coq_xO
                                                                    Coq_xH)))))) :: r0))
                                                                    (Npos
                                                                    (Coq_xO
                                                                    (Coq_xI
                                                                    (Coq_xO
                                                                    (Coq_xI
                                                                    (Coq_xO
                                                                    Coq_xH))))))
                                                                    r0
                                                                    in
                                                                    let i3 =
                                                                    flags_with_state
                                                                    i2
                                                                    in
                                                                    (
                                                                    match i3.i_s with
                                                                    | [] ->
                                                                    if 
                                                                    term_ok
                                                                    tm i2
                                                                    then 
                                                                    Some
                                                                    ((LTree
                                                                    root), i2)
                                                                    else None
                                                                    | c2 :: r3 ->
                                                                    (match c2 with
                                                                    | N0 ->
                                                                    if 
                                                                    term_ok
                                                                    tm i2
                                                                    then 
                                                                    Some
                                                                    ((LTree
                                                                    root), i2)
                                                                    else None
                                                                    | Npos p18 ->
                                                                    (match p18 with
                                                                    | Coq_xI p19 ->
                                                                    (match p19 with
                                                                    | Coq_xI p20 ->
                                                                    (match p20 with
                                                                    | Coq_xI p21 ->
                                                                    (match p21 with
                                                                    | Coq_xI p22 ->
                                                                    (match p22 with
                                                                    | Coq_xO p23 ->
                                                                    (match p23 with
                                                                    | Coq_xH ->
                                                                    Some
                                                                    ((LTree
                                                                    root),
                                                                    (adv1 i3
                                                                    (Npos
                                                                    (Coq_xI
                                                                    (Coq_xI
                                                                    (Coq_xI
                                                                    (Coq_xI
                                                                    (Coq_xO
                                                                    Coq_xH))))))
                                                                    r3))
                                                                    | _ ->
                                                                    if 
                                                                    term_ok
                                                                    tm i2
                                                                    then 
                                                                    Some
                                                                    ((LTree
                                                                    root), i2)
                                                                    else None)
                                                                    | _ ->
                                                                    if 
                                                                    term_ok
                                                                    tm i2
                                                                    then 
                                                                    Some
                                                                    ((LTree
                                                                    root), i2)
                                                                    else None)
                                                                    | _ ->
                                                                    if 
                                                                    term_ok
                                                                    tm i2
                                                                    then 
                                                                    Some
                                                                    ((LTree
                                                                    root), i2)
                                                                    else None)
                                                                    | _ ->
                                                                    if 
                                                                    term_ok
                                                                    tm i2
                                                                    then 
                                                                    Some
                                                                    ((LTree
                                                                    root), i2)
                                                                    else None)
                                                                    | _ ->
                                                                    if 
                                                                    term_ok
                                                                    tm i2
                                                                    then 
                                                                    Some
                                                                    ((LTree
                                                                    root), i2)
                                                                    else None)
                                                                    | _ ->
                                                                    if 
                                                                    term_ok
                                                                    tm i2
                                                                    then 
                                                                    Some
                                                                    ((LTree
                                                                    root), i2)
                                                                    else None))))
                                                                    | Coq_xH ->
                                                                    None)
                                                                    | _ ->
                                                                    None)
                                                                   | Coq_xH ->
                                                                    None)
                                                                | _ -> None)
                                                             | Coq_xH -> None))))
                                                 | Coq_xH -> None)
                                              | _ -> None)
                                           | Coq_xH -> None)
                                        | _ -> None)
                                     | Coq_xH -> None)))
                            | None -> None)
                         in
                         (match tree with
                          | Some x -> Some x
                          | None ->
                            (match i.i_s with
                             | [] -> None
                             | c0 :: r0 ->
                               (match c0 with
                                | N0 -> None
                                | Npos p5 ->
                                  (match p5 with
                                   | Coq_xO p6 ->
                                     (match p6 with
                                      | Coq_xI p7 ->
                                        (match p7 with
                                         | Coq_xO p8 ->
                                           (match p8 with
                                            | Coq_xI p9 ->
                                              (match p9 with
                                               | Coq_xO p10 ->
                                                 (match p10 with
                                                  | Coq_xH ->
                                                    let i1 =
                                                      adv1 i (Npos (Coq_xO
                                                        (Coq_xI (Coq_xO
                                                        (Coq_xI (Coq_xO
                                                        Coq_xH)))))) r0
                                                    in
                                                    if (||)
                                                         (zom_lookahead i1)
                                                         (term_ok tm i1)
                                                    then Some ((LZom false),
                                                           i1)
                                                    else None
                                                  | _ -> None)
                                               | _ -> None)
                                            | _ -> None)
                                         | _ -> None)
                                      | Coq_xO p7 ->
                                        (match p7 with
                                         | Coq_xI p8 ->
                                           (match p8 with
                                            | Coq_xO p9 ->
                                              (match p9 with
                                               | Coq_xO p10 ->
                                                 (match p10 with
                                                  | Coq_xH ->
                                                    let i1 =
                                                      adv1 i (Npos (Coq_xO
                                                        (Coq_xO (Coq_xI
                                                        (Coq_xO (Coq_xO
                                                        Coq_xH)))))) r0
                                                    in
                                                    if (||)
                                                         (zom_lookahead i1)
                                                         (term_ok tm i1)
                                                    then Some ((LZom true),
                                                           i1)
                                                    else None
                                                  | _ -> None)
                                               | _ -> None)
                                            | _ -> None)
                                         | _ -> None)
                                      | Coq_xH -> None)
                                   | _ -> None))))
                       | Coq_xO _ ->
                         let tree =
                           let prefix =
                             match i.i_s with
                             | [] ->
                               if N.eqb i.i_sub i.i_pos
                               then Some (false, (flags_with_state i))
                               else None
                             | c0 :: r0 ->
                               (match c0 with
                                | N0 ->
                                  if N.eqb i.i_sub i.i_pos
                                  then Some (false, (flags_with_state i))
                                  else None
                                | Npos p5 ->
                                  (match p5 with
                                   | Coq_xI p6 ->
                                     (match p6 with
                                      | Coq_xI p7 ->
                                        (match p7 with
                                         | Coq_xI p8 ->
                                           (match p8 with
                                            | Coq_xI p9 ->
                                              (match p9 with
                                               | Coq_xO p10 ->
                                                 (match p10 with
                                                  | Coq_xH ->
                                                    Some (true,
                                                      (flags_with_state
                                                        (adv1 i (Npos (Coq_xI
                                                          (Coq_xI (Coq_xI
                                                          (Coq_xI (Coq_xO
                                                          Coq_xH)))))) r0)))
                                                  | _ ->
                                                    if N.eqb i.i_sub i.i_pos
                                                    then Some (false,
                                                           (flags_with_state
                                                             i))
                                                    else None)
                                               | _ ->
                                                 if N.eqb i.i_sub i.i_pos
                                                 then Some (false,
                                                        (flags_with_state i))
                                                 else None)
                                            | _ ->
                                              if N.eqb i.i_sub i.i_pos
                                              then Some (false,
                                                     (flags_with_state i))
                                              else None)
                                         | _ ->
                                           if N.eqb i.i_sub i.i_pos
                                           then Some (false,
                                                  (flags_with_state i))
                                           else None)
                                      | _ ->
                                        if N.eqb i.i_sub i.i_pos
                                        then Some (false,
                                               (flags_with_state i))
                                        else None)
                                   | _ ->
                                     if N.eqb i.i_sub i.i_pos
                                     then Some (false, (flags_with_state i))
                                     else None))
                           in
                           (match prefix with
                            | Some p5 ->
                              let (root, i1) = p5 in
                              (match i1.i_s with
                               | [] -> None
                               | c0 :: l ->
                                 (match c0 with
                                  | N0 -> None
                                  | Npos p6 ->
                                    (match p6 with
                                     | Coq_xI _ -> None
                                     | Coq_xO p7 ->
                                       (match p7 with
                                        | Coq_xI p8 ->
                                          (match p8 with
                                           | Coq_xI _ -> None
                                           | Coq_xO p9 ->
                                             (match p9 with
                                              | Coq_xI p10 ->
                                                (match p10 with
                                                 | Coq_xI _ -> None
                                                 | Coq_xO p11 ->
                                                   (match p11 with
                                                    | Coq_xI _ -> None
                                                    | Coq_xO _ -> None
                                                    | Coq_xH ->
                                                      (match l with
                                                       | [] -> None
                                                       | c1 :: r0 ->
                                                         (match c1 with
                                                          | N0 -> None
                                                          | Npos p12 ->
                                                            (match p12 with
                                                             | Coq_xI _ ->
                                                               None
                                                             | Coq_xO p13 ->
                                                               (match p13 with
                                                                | Coq_xI p14 ->
                                                                  (match p14 with
                                                                   | Coq_xI _ ->
                                                                    None
                                                                   | Coq_xO p15 ->
                                                                    (match p15 with
                                                                    | Coq_xI p16 ->
                                                                    (match p16 with
                                                                    | Coq_xI _ ->
                                                                    None
                                                                    | Coq_xO p17 ->
                                                                    (match p17 with
                                                                    | Coq_xI _ ->
                                                                    None
                                                                    | Coq_xO _ ->
                                                                    None
                                                                    | Coq_xH ->
                                                                    let i2 =
                                                                    adv1
                                                                    (adv1 i1
                                                                    (Npos
                                                                    (Coq_xO
                                                                    (Coq_xI
                                                                    (Coq_xO
                                                                    (Coq_xI
                                                                    (Coq_xO
                                                                    Coq_xH))))))
                                                                    ((Npos
                                                                    (Coq_xO
                                                                    (Coq_xI
                                                                    (Coq_xO
                                                                    (Coq_xI
                                                                    (Coq_xO
                                                                    Coq_xH)))))) :: r0))
                                                                    (Npos
                                                                    (Coq_xO
                                                                    (Coq_xI
                                                                    (Coq_xO
                                                                    (Coq_xI
                                                                    (Coq_xO
                                                                    Coq_xH))))))
                                                                    r0
                                                                    in
                                                                    let i3 =
                                                                    flags_with_state
                                                                    i2
                                                                    in
                                                                    (
                                                                    match i3.i_s with
                                                                    | [] ->
                                                                    if 
                                                                    term_ok
                                                                    tm i2
                                                                    then 
                                                                    Some
                                                                    ((LTree
                                                                    root), i2)
                                                                    else None
                                                                    | c2 :: r3 ->
                                                                    (match c2 with
                                                                    | N0 ->
                                                                    if 
                                                                    term_ok
                                                                    tm i2
                                                                    then 
                                                                    Some
                                                                    ((LTree
                                                                    root), i2)
                                                                    else None
                                                                    | Npos p18 ->
                                                                    (match p18 with
                                                                    | Coq_xI p19 ->
                                                                    (match p19 with
                                                                    | Coq_xI p20 ->
                                                                    (match p20 with
                                                                    | Coq_xI p21 ->
                                                                    (match p21 with
                                                                    | Coq_xI p22 ->
                                                                    (match p22 with
                                                                    | Coq_xO p23 ->
                                                                    (match p23 with
                                                                    | Coq_xH ->
                                                                    Some
                                                                    ((LTree
                                                                    root),
                                                                    (adv1 i3
                                                                    (Npos
                                                                    (Coq_xI
                                                                    (Coq_xI
                                                                    (Coq_xI
                                                                    (Coq_xI
                                                                    (Coq_xO
                                                                    Coq_xH))))))
                                                                    r3))
                                                                    | _ ->
                                                                    if 
                                                                    term_ok
                                                                    tm i2
                                                                    then 
                                                                    Some
                                                                    ((LTree
                                                                    root), i2)
                                                                    else None)
                                                                    | _ ->
                                                                    if 
                                                                    term_ok
                                                                    tm i2
                                                                    then 
                                                                    Some
                                                                    ((LTree
                                                                    root), i2)
                                                                    else None)
                                                                    | _ ->
                                                                    if 
                                                                    term_ok
                                                                    tm i2
                                                                    then 
                                                                    Some
                                                                    ((LTree
                                                                    root), i2)
                                                                    else None)
                                                                    | _ ->
                                                                    if 
                                                                    term_ok
                                                                    tm i2
                                                                    then 
                                                                    Some
                                                                    ((LTree
                                                                    root), i2)
                                                                    else None)
                                                                    | _ ->
                                                                    if 
                                                                    term_ok
                                                                    tm i2
                                                                    then 
                                                                    Some
                                                                    ((LTree
                                                                    root), i2)
                                                                    else None)
                                                                    | _ ->
                                                                    if 
                                                                    term_ok
                                                                    tm i2
                                                                    then 
                                                                    Some
                                                                    ((LTree
                                                                    root), i2)
                                                                    else None))))
                                                                    | Coq_xH ->
                                                                    None)
                                                                    | _ ->
                                                                    None)
                                                                   | Coq_xH ->
                                                                    None)
                                                                | _ -> None)
                                                             | Coq_xH -> None))))
                                                 | Coq_xH -> None)
                                              | _ -> None)
                                           | Coq_xH -> None)
                                        | _ -> None)
                                     | Coq_xH -> None)))
                            | None -> None)
                         in
                         (match tree with
                          | Some x -> Some x
                          | None ->
                            (match i.i_s with
                             | [] -> None
                             | c0 :: r0 ->
                               (match c0 with
                                | N0 -> None
                                | Npos p5 ->
                                  (match p5 with
                                   | Coq_xO p6 ->
                                     (match p6 with
                                      | Coq_xI p7 ->
                                        (match p7 with
                                         | Coq_xO p8 ->
                                           (match p8 with
                                            | Coq_xI p9 ->
                                              (match p9 with
                                               | Coq_xO p10 ->
                                                 (match p10 with
                                                  | Coq_xH ->
                                                    let i1 =
                                                      adv1 i (Npos (Coq_xO
                                                        (Coq_xI (Coq_xO
                                                        (Coq_xI (Coq_xO
                                                        Coq_xH)))))) r0
                                                    in
                                                    if (||)
                                                         (zom_lookahead i1)
                                                         (term_ok tm i1)
                                                    then Some ((LZom false),
                                                           i1)
                                                    else None
                                                  | _ -> None)
                                               | _ -> None)
                                            | _ -> None)
                                         | _ -> None)
                                      | Coq_xO p7 ->
                                        (match p7 with
                                         | Coq_xI p8 ->
                                           (match p8 with
                                            | Coq_xO p9 ->
                                              (match p9 with
                                               | Coq_xO p10 ->
                                                 (match p10 with
                                                  | Coq_xH ->
                                                    let i1 =
                                                      adv1 i (Npos (Coq_xO
                                                        (Coq_xO (Coq_xI
                                                        (Coq_xO (Coq_xO
                                                        Coq_xH)))))) r0
                                                    in
                                                    if (||)
                                                         (zom_lookahead i1)
                                                         (term_ok tm i1)
                                                    then Some ((LZom true),
                                                           i1)
                                                    else None
                                                  | _ -> None)
                                               | _ -> None)
                                            | _ -> None)
                                         | _ -> None)
                                      | Coq_xH -> None)
                                   | _ -> None))))
                       | Coq_xH ->
                         Some (LOne,
                           (adv1 i (Npos (Coq_xI (Coq_xI (Coq_xI (Coq_xI
                             (Coq_xI Coq_xH)))))) r)))
                    | Coq_xO _ ->
                      let tree =
                        let prefix =
                          match i.i_s with
                          | [] ->
                            if N.eqb i.i_sub i.i_pos
                            then Some (false, (flags_with_state i))
                            else None
                          | c0 :: r0 ->
                            (match c0 with
                             | N0 ->
                               if N.eqb i.i_sub i.i_pos
                               then Some (false, (flags_with_state i))
                               else None
                             | Npos p4 ->
                               (match p4 with
                                | Coq_xI p5 ->
                                  (match p5 with
                                   | Coq_xI p6 ->
                                     (match p6 with
                                      | Coq_xI p7 ->
                                        (match p7 with
                                         | Coq_xI p8 ->
                                           (match p8 with
                                            | Coq_xO p9 ->
                                              (match p9 with
                                               | Coq_xH ->
                                                 Some (true,
                                                   (flags_with_state
                                                     (adv1 i (Npos (Coq_xI
                                                       (Coq_xI (Coq_xI
                                                       (Coq_xI (Coq_xO
                                                       Coq_xH)))))) r0)))
                                               | _ ->
                                                 if N.eqb i.i_sub i.i_pos
                                                 then Some (false,
                                                        (flags_with_state i))
                                                 else None)
                                            | _ ->
                                              if N.eqb i.i_sub i.i_pos
                                              then Some (false,
                                                     (flags_with_state i))
                                              else None)
                                         | _ ->
                                           if N.eqb i.i_sub i.i_pos
                                           then Some (false,
                                                  (flags_with_state i))
                                           else None)
                                      | _ ->
                                        if N.eqb i.i_sub i.i_pos
                                        then Some (false,
                                               (flags_with_state i))
                                        else None)
                                   | _ ->
                                     if N.eqb i.i_sub i.i_pos
                                     then Some (false, (flags_with_state i))
                                     else None)
                                | _ ->
                                  if N.eqb i.i_sub i.i_pos
                                  then Some (false, (flags_with_state i))
                                  else None))
                        in
                        (match prefix with
                         | Some p4 ->
                           let (root, i1) = p4 in
                           (match i1.i_s with
                            | [] -> None
                            | c0 :: l ->
                              (match c0 with
                               | N0 -> None
                               | Npos p5 ->
                                 (match p5 with
                                  | Coq_xI _ -> None
                                  | Coq_xO p6 ->
                                    (match p6 with
                                     | Coq_xI p7 ->
                                       (match p7 with
                                        | Coq_xI _ -> None
                                        | Coq_xO p8 ->
                                          (match p8 with
                                           | Coq_xI p9 ->
                                             (match p9 with
                                              | Coq_xI _ -> None
                                              | Coq_xO p10 ->
                                                (match p10 with
                                                 | Coq_xI _ -> None
                                                 | Coq_xO _ -> None
                                                 | Coq_xH ->
                                                   (match l with
                                                    | [] -> None
                                                    | c1 :: r0 ->
                                                      (match c1 with
                                                       | N0 -> None
                                                       | Npos p11 ->
                                                         (match p11 with
                                                          | Coq_xI _ -> None
                                                          | Coq_xO p12 ->
                                                            (match p12 with
                                                             | Coq_xI p13 ->
                                                               (match p13 with
                                                                | Coq_xI _ ->
                                                                  None
                                                                | Coq_xO p14 ->
                                                                  (match p14 with
                                                                   | Coq_xI p15 ->
                                                                    (match p15 with
                                                                    | Coq_xI _ ->
                                                                    None
                                                                    | Coq_xO p16 ->
                                                                    (match p16 with
                                                                    | Coq_xI _ ->
                                                                    None
                                                                    | Coq_xO _ ->
                                                                    None
                                                                    | Coq_xH ->
                                                                    let i2 =
                                                                    adv1
                                                                    (adv1 i1
                                                                    (Npos
                                                                    (Coq_xO
                                                                    (Coq_xI
                                                                    (Coq_xO
                                                                    (Coq_xI
                                                                    (Coq_xO
                                                                    Coq_xH))))))
                                                                    ((Npos
                                                                    (Coq_xO
                                                                    (Coq_xI
                                                                    (Coq_xO
                                                                    (Coq_xI
                                                                    (Coq_xO
                                                                    Coq_xH)))))) :: r0))
                                                                    (Npos
                                                                    (Coq_xO
                                                                    (Coq_xI
                                                                    (Coq_xO
                                                                    (Coq_xI
                                                                    (Coq_xO
                                                                    Coq_xH))))))
                                                                    r0
                                                                    in
                                                                    let i3 =
                                                                    flags_with_state
                                                                    i2
                                                                    in
                                                                    (
                                                                    match i3.i_s with
                                                                    | [] ->
                                                                    if 
                                                                    term_ok
                                                                    tm i2
                                                                    then 
                                                                    Some
                                                                    ((LTree
                                                                    root), i2)
                                                                    else None
                                                                    | c2 :: r3 ->
                                                                    (match c2 with
                                                                    | N0 ->
                                                                    if 
                                                                    term_ok
                                                                    tm i2
                                                                    then 
                                                                    Some
                                                                    ((LTree
                                                                    root), i2)
                                                                    else None
                                                                    | Npos p17 ->
                                                                    (match p17 with
                                                                    | Coq_xI p18 ->
                                                                    (match p18 with
                                                                    | Coq_xI p19 ->
                                                                    (match p19 with
                                                                    | Coq_xI p20 ->
                                                                    (match p20 with
                                                                    | Coq_xI p21 ->
                                                                    (match p21 with
                                                                    | Coq_xO p22 ->
                                                                    (match p22 with
                                                                    | Coq_xH ->
                                                                    Some
                                                                    ((LTree
                                                                    root),
                                                                    (adv1 i3
                                                                    (Npos
                                                                    (Coq_xI
                                                                    (Coq_xI
                                                                    (Coq_xI
                                                                    (Coq_xI
                                                                    (Coq_xO
                                                                    Coq_xH))))))
                                                                    r3))
                                                                    | _ ->
                                                                    if 
                                                                    term_ok
                                                                    tm i2
                                                                    then 
                                                                    Some
                                                                    ((LTree
                                                                    root), i2)
                                                                    else None)
                                                                    | _ ->
                                                                    if 
                                                                    term_ok
                                                                    tm i2
                                                                    then 
                                                                    Some
                                                                    ((LTree
                                                                    root), i2)
                                                                    else None)
                                                                    | _ ->
                                                                    if 
                                                                    term_ok
                                                                    tm i2
                                                                    then 
                                                                    Some
                                                                    ((LTree
                                                                    root), i2)
                                                                    else None)
                                                                    | _ ->
                                                                    if 
                                                                    term_ok
                                                                    tm i2
                                                                    then 
                                                                    Some
                                                                    ((LTree
                                                                    root), i2)
                                                                    else None)
                                                                    | _ ->
                                                                    if 
                                                                    term_ok
                                                                    tm i2
                                                                    then 
                                                                    Some
                                                                    ((LTree
                                                                    root), i2)
                                                                    else None)
                                                                    | _ ->
                                                                    if 
                                                                    term_ok
                                                                    tm i2
                                                                    then 
                                                                    Some
                                                                    ((LTree
                                                                    root), i2)
                                                                    else None))))
                                                                    | Coq_xH ->
                                                                    None)
                                                                   | _ -> None)
                                                                | Coq_xH ->
                                                                  None)
                                                             | _ -> None)
                                                          | Coq_xH -> None))))
                                              | Coq_xH -> None)
                                           | _ -> None)
                                        | Coq_xH -> None)
                                     | _ -> None)
                                  | Coq_xH -> None)))
                         | None -> None)
                      in
                      (match tree with
                       | Some x -> Some x
                       | None ->
                         (match i.i_s with
                          | [] -> None
                          | c0 :: r0 ->
                            (match c0 with
                             | N0 -> None
                             | Npos p4 ->
                               (match p4 with
                                | Coq_xO p5 ->
                                  (match p5 with
                                   | Coq_xI p6 ->
                                     (match p6 with
                                      | Coq_xO p7 ->
                                        (match p7 with
                                         | Coq_xI p8 ->
                                           (match p8 with
                                            | Coq_xO p9 ->
                                              (match p9 with
                                               | Coq_xH ->
                                                 let i1 =
                                                   adv1 i (Npos (Coq_xO
                                                     (Coq_xI (Coq_xO (Coq_xI
                                                     (Coq_xO Coq_xH)))))) r0
                                                 in
                                                 if (||) (zom_lookahead i1)
                                                      (term_ok tm i1)
                                                 then Some ((LZom false), i1)
                                                 else None
                                               | _ -> None)
                                            | _ -> None)
                                         | _ -> None)
                                      | _ -> None)
                                   | Coq_xO p6 ->
                                     (match p6 with
                                      | Coq_xI p7 ->
                                        (match p7 with
                                         | Coq_xO p8 ->
                                           (match p8 with
                                            | Coq_xO p9 ->
                                              (match p9 with
                                               | Coq_xH ->
                                                 let i1 =
                                                   adv1 i (Npos (Coq_xO
                                                     (Coq_xO (Coq_xI (Coq_xO
                                                     (Coq_xO Coq_xH)))))) r0
                                                 in
                                                 if (||) (zom_lookahead i1)
                                                      (term_ok tm i1)
                                                 then Some ((LZom true), i1)
                                                 else None
                                               | _ -> None)
                                            | _ -> None)
                                         | _ -> None)
                                      | _ -> None)
                                   | Coq_xH -> None)
                                | _ -> None))))
                    | Coq_xH ->
                      let tree =
                        let prefix =
                          match i.i_s with
                          | [] ->
                            if N.eqb i.i_sub i.i_pos
                            then Some (false, (flags_with_state i))
                            else None
                          | c0 :: r0 ->
                            (match c0 with
                             | N0 ->
                               if N.eqb i.i_sub i.i_pos
                               then Some (false, (flags_with_state i))
                               else None
                             | Npos p4 ->
                               (match p4 with
                                | Coq_xI p5 ->
                                  (match p5 with
                                   | Coq_xI p6 ->
                                     (match p6 with
                                      | Coq_xI p7 ->
                                        (match p7 with
                                         | Coq_xI p8 ->
                                           (match p8 with
                                            | Coq_xO p9 ->
                                              (match p9 with
                                               | Coq_xH ->
                                                 Some (true,
                                                   (flags_with_state
                                                     (adv1 i (Npos (Coq_xI
                                                       (Coq_xI (Coq_xI
                                                       (Coq_xI (Coq_xO
                                                       Coq_xH)))))) r0)))
                                               | _ ->
                                                 if N.eqb i.i_sub i.i_pos
                                                 then Some (false,
                                                        (flags_with_state i))
                                                 else None)
                                            | _ ->
                                              if N.eqb i.i_sub i.i_pos
                                              then Some (false,
                                                     (flags_with_state i))
                                              else None)
                                         | _ ->
                                           if N.eqb i.i_sub i.i_pos
                                           then Some (false,
                                                  (flags_with_state i))
                                           else None)
                                      | _ ->
                                        if N.eqb i.i_sub i.i_pos
                                        then Some (false,
                                               (flags_with_state i))
                                        else None)
                                   | _ ->
                                     if N.eqb i.i_sub i.i_pos
                                     then Some (false, (flags_with_state i))
                                     else None)
                                | _ ->
                                  if N.eqb i.i_sub i.i_pos
                                  then Some (false, (flags_with_state i))
                                  else None))
                        in
                        (match prefix with
                         | Some p4 ->
                           let (root, i1) = p4 in
                           (match i1.i_s with
                            | [] -> None
                            | c0 :: l ->
                              (match c0 with
                               | N0 -> None
                               | Npos p5 ->
                                 (match p5 with
                                  | Coq_xI _ -> None
                                  | Coq_xO p6 ->
                                    (match p6 with
                                     | Coq_xI p7 ->
                                       (match p7 with
                                        | Coq_xI _ -> None
                                        | Coq_xO p8 ->
                                          (match p8 with
                                           | Coq_xI p9 ->
                                             (match p9 with
                                              | Coq_xI _ -> None
                                              | Coq_xO p10 ->
                                                (match p10 with
                                                 | Coq_xI _ -> None
                                                 | Coq_xO _ -> None
                                                 | Coq_xH ->
                                                   (match l with
                                                    | [] -> None
                                                    | c1 :: r0 ->
                                                      (match c1 with
                                                       | N0 -> None
                                                       | Npos p11 ->
                                                         (match p11 with
                                                          | Coq_xI _ -> None
                                                          | Coq_xO p12 ->
                                                            (match p12 with
                                                             | Coq_xI p13 ->
                                                               (match p13 with
                                                                | Coq_xI _ ->
                                                                  None
                                                                | Coq_xO p14 ->
                                                                  (match p14 with
                                                                   | Coq_xI p15 ->
                                                                    (match p15 with
                                                                    | Coq_xI _ ->
                                                                    None
                                                                    | Coq_xO p16 ->
                                                                    (match p16 with
                                                                    | Coq_xI _ ->
                                                                    None
                                                                    | Coq_xO _ ->
                                                                    None
                                                                    | Coq_xH ->
                                                                    let i2 =
                                                                    adv1
                                                                    (adv1 i1
                                                                    (Npos
                                                                    (Coq_xO
                                                                    (Coq_xI
                                                                    (Coq_xO
                                                                    (Coq_xI
                                                                    (Coq_xO
                                                                    Coq_xH))))))
                                                                    ((Npos
                                                                    (Coq_xO
                                                                    (Coq_xI
                                                                    (Coq_xO
                                                                    (Coq_xI
                                                                    (Coq_xO
                                                                    Coq_xH)))))) :: r0))
                                                                    (Npos
                                                                    (Coq_xO
                                                                    (Coq_xI
                                                                    (Coq_xO
                                                                    (Coq_xI
                                                                    (Coq_xO
                                                                    Coq_xH))))))
                                                                    r0
                                                                    in
                                                                    let i3 =
                                                                    flags_with_state
                                                                    i2
                                                                    in
                                                                    (
                                                                    match i3.i_s with
                                                                    | [] ->
                                                                    if 
                                                                    term_ok
                                                                    tm i2
                                                                    then 
                                                                    Some
                                                                    ((LTree
                                                                    root), i2)
                                                                    else None
                                                                    | c2 :: r3 ->
                                                                    (match c2 with
                                                                    | N0 ->
                                                                    if 
                                                                    term_ok
                                                                    tm i2
                                                                    then 
                                                                    Some
                                                                    ((LTree
                                                                    root), i2)
                                                                    else None
                                                                    | Npos p17 ->
                                                                    (match p17 with
                                                                    | Coq_xI p18 ->
                                                                    (match p18 with
                                                                    | Coq_xI p19 ->
                                                                    (match p19 with
                                                                    | Coq_xI p20 ->
                                                                    (match p20 with
                                                                    | Coq_xI p21 ->
                                                                    (match p21 with
                                                                    | Coq_xO p22 ->
                                                                    (match p22 with
                                                                    | Coq_xH ->
                                                                    Some
                                                                    ((LTree
                                                                    root),
                                                                    (adv1 i3
                                                                    (Npos
                                                                    (Coq_xI
                                                                    (Coq_xI
                                                                    (Coq_xI
                                                                    (Coq_xI
                                                                    (Coq_xO
                                                                    Coq_xH))))))
                                                                    r3))
                                                                    | _ ->
                                                                    if 
                                                                    term_ok
                                                                    tm i2
                                                                    then 
                                                                    Some
                                                                    ((LTree
                                                                    root), i2)
                                                                    else None)
                                                                    | _ ->
                                                                    if 
                                                                    term_ok
                                                                    tm i2
                                                                    then 
                                                                    Some
                                                                    ((LTree
                                                                    root), i2)
                                                                    else None)
                                                                    | _ ->
                                                                    if 
                                                                    term_ok
                                                                    tm i2
                                                                    then 
                                                                    Some
                                                                    ((LTree
                                                                    root), i2)
                                                                    else None)
                                                                    | _ ->
                                                                    if 
                                                                    term_ok
                                                                    tm i2
                                                                    then 
                                                                    Some
                                                                    ((LTree
                                                                    root), i2)
                                                                    else None)
                                                                    | _ ->
                                                                    if 
                                                                    term_ok
                                                                    tm i2
                                                                    then 
                                                                    Some
                                                                    ((LTree
                                                                    root), i2)
                                                                    else None)
                                                                    | _ ->
                                                                    if 
                                                                    term_ok
                                                                    tm i2
                                                                    then 
                                                                    Some
                                                                    ((LTree
                                                                    root), i2)
                                                                    else None))))
                                                                    | Coq_xH ->
                                                                    None)
                                                                   | _ -> None)
                                                                | Coq_xH ->
                                                                  None)
                                                             | _ -> None)
                                                          | Coq_xH -> None))))
                                              | Coq_xH -> None)
                                           | _ -> None)
                                        | Coq_xH -> None)
                                     | _ -> None)
                                  | Coq_xH -> None)))
                         | None -> None)
                      in
                      (match tree with
                       | Some x -> Some x
                       | None ->
                         (match i.i_s with
                          | [] -> None
                          | c0 :: r0 ->
                            (match c0 with
                             | N0 -> None
                             | Npos p4 ->
                               (match p4 with
                                | Coq_xO p5 ->
                                  (match p5 with
                                   | Coq_xI p6 ->
                                     (match p6 with
                                      | Coq_xO p7 ->
                                        (match p7 with
                                         | Coq_xI p8 ->
                                           (match p8 with
                                            | Coq_xO p9 ->
                                              (match p9 with
                                               | Coq_xH ->
                                                 let i1 =
                                                   adv1 i (Npos (Coq_xO
                                                     (Coq_xI (Coq_xO (Coq_xI
                                                     (Coq_xO Coq_xH)))))) r0
                                                 in
                                                 if (||) (zom_lookahead i1)
                                                      (term_ok tm i1)
                                                 then Some ((LZom false), i1)
                                                 else None
                                               | _ -> None)
                                            | _ -> None)
                                         | _ -> None)
                                      | _ -> None)
                                   | Coq_xO p6 ->
                                     (match p6 with
                                      | Coq_xI p7 ->
                                        (match p7 with
                                         | Coq_xO p8 ->
                                           (match p8 with
                                            | Coq_xO p9 ->
                                              (match p9 with
                                               | Coq_xH ->
                                                 let i1 =
                                                   adv1 i (Npos (Coq_xO
                                                     (Coq_xO (Coq_xI (Coq_xO
                                                     (Coq_xO Coq_xH)))))) r0
                                                 in
                                                 if (||) (zom_lookahead i1)
                                                      (term_ok tm i1)
                                                 then Some ((LZom true), i1)
                                                 else None
                                               | _ -> None)
                                            | _ -> None)
                                         | _ -> None)
                                      | _ -> None)
                                   | Coq_xH -> None)
                                | _ -> None)))))
                 | Coq_xO _ ->
                   let tree =
                     let prefix =
                       match i.i_s with
                       | [] ->
                         if N.eqb i.i_sub i.i_pos
                         then Some (false, (flags_with_state i))
                         else None
                       | c0 :: r0 ->
                         (match c0 with
                          | N0 ->
                            if N.eqb i.i_sub i.i_pos
                            then Some (false, (flags_with_state i))
                            else None
                          | Npos p3 ->
                            (match p3 with
                             | Coq_xI p4 ->
                               (match p4 with
                                | Coq_xI p5 ->
                                  (match p5 with
                                   | Coq_xI p6 ->
                                     (match p6 with
                                      | Coq_xI p7 ->
                                        (match p7 with
                                         | Coq_xO p8 ->
                                           (match p8 with
                                            | Coq_xH ->
                                              Some (true,
                                                (flags_with_state
                                                  (adv1 i (Npos (Coq_xI
                                                    (Coq_xI (Coq_xI (Coq_xI
                                                    (Coq_xO Coq_xH)))))) r0)))
                                            | _ ->
                                              if N.eqb i.i_sub i.i_pos
                                              then Some (false,
                                                     (flags_with_state i))
                                              else None)
                                         | _ ->
                                           if N.eqb i.i_sub i.i_pos
                                           then Some (false,
                                                  (flags_with_state i))
                                           else None)
                                      | _ ->
                                        if N.eqb i.i_sub i.i_pos
                                        then Some (false,
                                               (flags_with_state i))
                                        else None)
                                   | _ ->
                                     if N.eqb i.i_sub i.i_pos
                                     then Some (false, (flags_with_state i))
                                     else None)
                                | _ ->
                                  if N.eqb i.i_sub i.i_pos
                                  then Some (false, (flags_with_state i))
                                  else None)
                             | _ ->
                               if N.eqb i.i_sub i.i_pos
                               then Some (false, (flags_with_state i))
                               else None))
                     in
                     (match prefix with
                      | Some p3 ->
                        let (root, i1) = p3 in
                        (match i1.i_s with
                         | [] -> None
                         | c0 :: l ->
                           (match c0 with
                            | N0 -> None
                            | Npos p4 ->
                              (match p4 with
                               | Coq_xI _ -> None
                               | Coq_xO p5 ->
                                 (match p5 with
                                  | Coq_xI p6 ->
                                    (match p6 with
                                     | Coq_xI _ -> None
                                     | Coq_xO p7 ->
                                       (match p7 with
                                        | Coq_xI p8 ->
                                          (match p8 with
                                           | Coq_xI _ -> None
                                           | Coq_xO p9 ->
                                             (match p9 with
                                              | Coq_xI _ -> None
                                              | Coq_xO _ -> None
                                              | Coq_xH ->
                                                (match l with
                                                 | [] -> None
                                                 | c1 :: r0 ->
                                                   (match c1 with
                                                    | N0 -> None
                                                    | Npos p10 ->
                                                      (match p10 with
                                                       | Coq_xI _ -> None
                                                       | Coq_xO p11 ->
                                                         (match p11 with
                                                          | Coq_xI p12 ->
                                                            (match p12 with
                                                             | Coq_xI _ ->
                                                               None
                                                             | Coq_xO p13 ->
                                                               (match p13 with
                                                                | Coq_xI p14 ->
                                                                  (match p14 with
                                                                   | Coq_xI _ ->
                                                                    None
                                                                   | Coq_xO p15 ->
                                                                    (match p15 with
                                                                    | Coq_xI _ ->
                                                                    None
                                                                    | Coq_xO _ ->
                                                                    None
                                                                    | Coq_xH ->
                                                                    let i2 =
                                                                    adv1
                                                                    (adv1 i1
                                                                    (Npos
                                                                    (Coq_xO
                                                                    (Coq_xI
                                                                    (Coq_xO
                                                                    (Coq_xI
                                                                    (Coq_xO
                                                                    Coq_xH))))))
                                                                    ((Npos
                                                                    (Coq_xO
                                                                    (Coq_xI
                                                                    (Coq_xO
                                                                    (Coq_xI
                                                                    (Coq_xO
                                                                    Coq_xH)))))) :: r0))
                                                                    (Npos
                                                                    (Coq_xO
                                                                    (Coq_xI
                                                                    (Coq_xO
                                                                    (Coq_xI
                                                                    (Coq_xO
                                                                    Coq_xH))))))
                                                                    r0
                                                                    in
                                                                    let i3 =
                                                                    flags_with_state
                                                                    i2
                                                                    in
                                                                    (
                                                                    match i3.i_s with
                                                                    | [] ->
                                                                    if 
                                                                    term_ok
                                                                    tm i2
                                                                    then 
                                                                    Some
                                                                    ((LTree
                                                                    root), i2)
                                                                    else None
                                                                    | c2 :: r3 ->
                                                                    (match c2 with
                                                                    | N0 ->
                                                                    if 
                                                                    term_ok
                                                                    tm i2
                                                                    then 
                                                                    Some
                                                                    ((LTree
                                                                    root), i2)
                                                                    else None
                                                                    | Npos p16 ->
                                                                    (match p16 with
                                                                    | Coq_xI p17 ->
                                                                    (match p17 with
                                                                    | Coq_xI p18 ->
                                                                    (match p18 with
                                                                    | Coq_xI p19 ->
                                                                    (match p19 with
                                                                    | Coq_xI p20 ->
                                                                    (match p20 with
                                                                    | Coq_xO p21 ->
                                                                    (match p21 with
                                                                    | Coq_xH ->
                                                                    Some
                                                                    ((LTree
                                                                    root),
                                                                    (adv1 i3
                                                                    (Npos
                                                                    (Coq_xI
                                                                    (Coq_xI
                                                                    (Coq_xI
                                                                    (Coq_xI
                                                                    (Coq_xO
                                                                    Coq_xH))))))
                                                                    r3))
                                                                    | _ ->
                                                                    if 
                                                                    term_ok
                                                                    tm i2
                                                                    then 
                                                                    Some
                                                                    ((LTree
                                                                    root), i2)
                                                                    else None)
                                                                    | _ ->
                                                                    if 
                                                                    term_ok
                                                                    tm i2
                                                                    then 
                                                                    Some
                                                                    ((LTree
                                                                    root), i2)
                                                                    else None)
                                                                    | _ ->
                                                                    if 
                                                                    term_ok
                                                                    tm i2
                                                                    then 
                                                                    Some
                                                                    ((LTree
                                                                    root), i2)
                                                                    else None)
                                                                    | _ ->
                                                                    if 
                                                                    term_ok
                                                                    tm i2
                                                                    then 
                                                                    Some
                                                                    ((LTree
                                                                    root), i2)
                                                                    else None)
                                                                    | _ ->
                                                                    if 
                                                                    term_ok
                                                                    tm i2
                                                                    then 
                                                                    Some
                                                                    ((LTree
                                                                    root), i2)
                                                                    else None)
                                                                    | _ ->
                                                                    if 
                                                                    term_ok
                                                                    tm i2
                                                                    then 
                                                                    Some
                                                                    ((LTree
                                                                    root), i2)
                                                                    else None))))
                                                                   | Coq_xH ->
                                                                    None)
                                                                | _ -> None)
                                                             | Coq_xH -> None)
                                                          | _ -> None)
                                                       | Coq_xH -> None))))
                                           | Coq_xH -> None)
                                        | _ -> None)
                                     | Coq_xH -> None)
                                  | _ -> None)
                               | Coq_xH -> None)))
                      | None -> None)
                   in
                   (match tree with
                    | Some x -> Some x
                    | None ->
                      (match i.i_s with
                       | [] -> None
                       | c0 :: r0 ->
                         (match c0 with
                          | N0 -> None
                          | Npos p3 ->
                            (match p3 with
                             | Coq_xO p4 ->
                               (match p4 with
                                | Coq_xI p5 ->
                                  (match p5 with
                                   | Coq_xO p6 ->
                                     (match p6 with
                                      | Coq_xI p7 ->
                                        (match p7 with
                                         | Coq_xO p8 ->
                                           (match p8 with
                                            | Coq_xH ->
                                              let i1 =
                                                adv1 i (Npos (Coq_xO (Coq_xI
                                                  (Coq_xO (Coq_xI (Coq_xO
                                                  Coq_xH)))))) r0
                                              in
                                              if (||) (zom_lookahead i1)
                                                   (term_ok tm i1)
                                              then Some ((LZom false), i1)
                                              else None
                                            | _ -> None)
                                         | _ -> None)
                                      | _ -> None)
                                   | _ -> None)
                                | Coq_xO p5 ->
                                  (match p5 with
                                   | Coq_xI p6 ->
                                     (match p6 with
                                      | Coq_xO p7 ->
                                        (match p7 with
                                         | Coq_xO p8 ->
                                           (match p8 with
                                            | Coq_xH ->
                                              let i1 =
                                                adv1 i (Npos (Coq_xO (Coq_xO
                                                  (Coq_xI (Coq_xO (Coq_xO
                                                  Coq_xH)))))) r0
                                              in
                                              if (||) (zom_lookahead i1)
                                                   (term_ok tm i1)
                                              then Some ((LZom true), i1)
                                              else None
                                            | _ -> None)
                                         | _ -> None)
                                      | _ -> None)
                                   | _ -> None)
                                | Coq_xH -> None)
                             | _ -> None))))
                 | Coq_xH ->
                   let tree =
                     let prefix =
                       match i.i_s with
                       | [] ->
                         if N.eqb i.i_sub i.i_pos
                         then Some (false, (flags_with_state i))
                         else None
                       | c0 :: r0 ->
                         (match c0 with
                          | N0 ->
                            if N.eqb i.i_sub i.i_pos
                            then Some (false, (flags_with_state i))
                            else None
                          | Npos p3 ->
                            (match p3 with
                             | Coq_xI p4 ->
                               (match p4 with
                                | Coq_xI p5 ->
                                  (match p5 with
                                   | Coq_xI p6 ->
                                     (match p6 with
                                      | Coq_xI p7 ->
                                        (match p7 with
                                         | Coq_xO p8 ->
                                           (match p8 with
                                            | Coq_xH ->
                                              Some (true,
                                                (flags_with_state
                                                  (adv1 i (Npos (Coq_xI
                                                    (Coq_xI (Coq_xI (Coq_xI
                                                    (Coq_xO Coq_xH)))))) r0)))
                                            | _ ->
                                              if N.eqb i.i_sub i.i_pos
                                              then Some (false,
                                                     (flags_with_state i))
                                              else None)
                                         | _ ->
                                           if N.eqb i.i_sub i.i_pos
                                           then Some (false,
                                                  (flags_with_state i))
                                           else None)
                                      | _ ->
                                        if N.eqb i.i_sub i.i_pos
                                        then Some (false,
                                               (flags_with_state i))
                                        else None)
                                   | _ ->
                                     if N.eqb i.i_sub i.i_pos
                                     then Some (false, (flags_with_state i))
                                     else None)
                                | _ ->
                                  if N.eqb i.i_sub i.i_pos
                                  then Some (false, (flags_with_state i))
                                  else None)
                             | _ ->
                               if N.eqb i.i_sub i.i_pos
                               then Some (false, (flags_with_state i))
                               else None))
                     in
                     (match prefix with
                      | Some p3 ->
                        let (root, i1) = p3 in
                        (match i1.i_s with
                         | [] -> None
                         | c0 :: l ->
                           (match c0 with
                            | N0 -> None
                            | Npos p4 ->
                              (match p4 with
                               | Coq_xI _ -> None
                               | Coq_xO p5 ->
                                 (match p5 with
                                  | Coq_xI p6 ->
                                    (match p6 with
                                     | Coq_xI _ -> None
                                     | Coq_xO p7 ->
                                       (match p7 with
                                        | Coq_xI p8 ->
                                          (match p8 with
                                           | Coq_xI _ -> None
                                           | Coq_xO p9 ->
                                             (match p9 with
                                              | Coq_xI _ -> None
                                              | Coq_xO _ -> None
                                              | Coq_xH ->
                                                (match l with
                                                 | [] -> None
                                                 | c1 :: r0 ->
                                                   (match c1 with
                                                    | N0 -> None
                                                    | Npos p10 ->
                                                      (match p10 with
                                                       | Coq_xI _ -> None
                                                       | Coq_xO p11 ->
                                                         (match p11 with
                                                          | Coq_xI p12 ->
                                                            (match p12 with
                                                             | Coq_xI _ ->
                                                               None
                                                             | Coq_xO p13 ->
                                                               (match p13 with
                                                                | Coq_xI p14 ->
                                                                  (match p14 with
                                                                   | Coq_xI _ ->
                                                                    None
                                                                   | Coq_xO p15 ->
                                                                    (match p15 with
                                                                    | Coq_xI _ ->
                                                                    None
                                                                    | Coq_xO _ ->
                                                                    None
                                                                    | Coq_xH ->
                                                                    let i2 =
                                                                    adv1
                                                                    (adv1 i1
                                                                    (Npos
                                                                    (Coq_xO
                                                                    (Coq_xI
                                                                    (Coq_xO
                                                                    (Coq_xI
                                                                    (Coq_xO
                                                                    Coq_xH))))))
                                                                    ((Npos
                                                                    (Coq_xO
                                                                    (Coq_xI
                                                                    (Coq_xO
                                                                    (Coq_xI
                                                                    (Coq_xO
                                                                    Coq_xH)))))) :: r0))
                                                                    (Npos
                                                                    (Coq_xO
                                                                    (Coq_xI
                                                                    (Coq_xO
                                                                    (Coq_xI
                                                                    (Coq_xO
                                                                    Coq_xH))))))
                                                                    r0
                                                                    in
                                                                    let i3 =
                                                                    flags_with_state
                                                                    i2
                                                                    in
                                                                    (
                                                                    match i3.i_s with
                                                                    | [] ->
                                                                    if 
                                                                    term_ok
                                                                    tm i2
                                                                    then 
                                                                    Some
                                                                    ((LTree
                                                                    root), i2)
                                                                    else None
                                                                    | c2 :: r3 ->
                                                                    (match c2 with
                                                                    | N0 ->
                                                                    if 
                                                                    term_ok
                                                                    tm i2
                                                                    then 
                                                                    Some
                                                                    ((LTree
                                                                    root), i2)
                                                                    else None
                                                                    | Npos p16 ->
                                                                    (match p16 with
                                                                    | Coq_xI p17 ->
                                                                    (match p17 with
                                                                    | Coq_xI p18 ->
                                                                    (match p18 with
                                                                    | Coq_xI p19 ->
                                                                    (match p19 with
                                                                    | Coq_xI p20 ->
                                                                    (match p20 with
                                                                    | Coq_xO p21 ->
                                                                    (match p21 with
                                                                    | Coq_xH ->
                                                                    Some
                                                                    ((LTree
                                                                    root),
                                                                    (adv1 i3
                                                                    (Npos
                                                                    (Coq_xI
                                                                    (Coq_xI
                                                                    (Coq_xI
                                                                    (Coq_xI
                                                                    (Coq_xO
                                                                    Coq_xH))))))
                                                                    r3))
                                                                    | _ ->
                                                                    if 
                                                                    term_ok
                                                                    tm i2
                                                                    then 
                                                                    Some
                                                                    ((LTree
                                                                    root), i2)
                                                                    else None)
                                                                    | _ ->
                                                                    if 
                                                                    term_ok
                                                                    tm i2
                                                                    then 
                                                                    Some
                                                                    ((LTree
                                                                    root), i2)
                                                                    else None)
                                                                    | _ ->
                                                                    if 
                                                                    term_ok
                                                                    tm i2
                                                                    then 
                                                                    Some
                                                                    ((LTree
                                                                    root), i2)
                                                                    else None)
                                                                    | _ ->
                                                                    if 
                                                                    term_ok
                                                                    tm i2
                                                                    then 
                                                                    Some
                                                                    ((LTree
                                                                    root), i2)
                                                                    else None)
                                                                    | _ ->
                                                                    if 
                                                                    term_ok
                                                                    tm i2
                                                                    then 
                                                                    Some
                                                                    ((LTree
                                                                    root), i2)
                                                                    else None)
                                                                    | _ ->
                                                                    if 
                                                                    term_ok
                                                                    tm i2
                                                                    then 
                                                                    Some
                                                                    ((LTree
                                                                    root), i2)
                                                                    else None))))
                                                                   | Coq_xH ->
                                                                    None)
                                                                | _ -> None)
                                                             | Coq_xH -> None)
                                                          | _ -> None)
                                                       | Coq_xH -> None))))
                                           | Coq_xH -> None)
                                        | _ -> None)
                                     | Coq_xH -> None)
                                  | _ -> None)
                               | Coq_xH -> None)))
                      | None -> None)
                   in
                   (match tree with
                    | Some x -> Some x
                    | None ->
                      (match i.i_s with
                       | [] -> None
                       | c0 :: r0 ->
                         (match c0 with
                          | N0 -> None
                          | Npos p3 ->
                            (match p3 with
                             | Coq_xO p4 ->
                               (match p4 with
                                | Coq_xI p5 ->
                                  (match p5 with
                                   | Coq_xO p6 ->
                                     (match p6 with
                                      | Coq_xI p7 ->
                                        (match p7 with
                                         | Coq_xO p8 ->
                                           (match p8 with
                                            | Coq_xH ->
                                              let i1 =
                                                adv1 i (Npos (Coq_xO (Coq_xI
                                                  (Coq_xO (Coq_xI (Coq_xO
                                                  Coq_xH)))))) r0
                                              in
                                              if (||) (zom_lookahead i1)
                                                   (term_ok tm i1)
                                              then Some ((LZom false), i1)
                                              else None
                                            | _ -> None)
                                         | _ -> None)
                                      | _ -> None)
                                   | _ -> None)
                                | Coq_xO p5 ->
                                  (match p5 with
                                   | Coq_xI p6 ->
                                     (match p6 with
                                      | Coq_xO p7 ->
                                        (match p7 with
                                         | Coq_xO p8 ->
                                           (match p8 with
                                            | Coq_xH ->
                                              let i1 =
                                                adv1 i (Npos (Coq_xO (Coq_xO
                                                  (Coq_xI (Coq_xO (Coq_xO
                                                  Coq_xH)))))) r0
                                              in
                                              if (||) (zom_lookahead i1)
                                                   (term_ok tm i1)
                                              then Some ((LZom true), i1)
                                              else None
                                            | _ -> None)
                                         | _ -> None)
                                      | _ -> None)
                                   | _ -> None)
                                | Coq_xH -> None)
                             | _ -> None)))))
              | Coq_xO _ ->
                let tree =
                  let prefix =
                    match i.i_s with
                    | [] ->
                      if N.eqb i.i_sub i.i_pos
                      then Some (false, (flags_with_state i))
                      else None
                    | c0 :: r0 ->
                      (match c0 with
                       | N0 ->
                         if N.eqb i.i_sub i.i_pos
                         then Some (false, (flags_with_state i))
                         else None
                       | Npos p2 ->
                         (match p2 with
                          | Coq_xI p3 ->
                            (match p3 with
                             | Coq_xI p4 ->
                               (match p4 with
                                | Coq_xI p5 ->
                                  (match p5 with
                                   | Coq_xI p6 ->
                                     (match p6 with
                                      | Coq_xO p7 ->
                                        (match p7 with
                                         | Coq_xH ->
                                           Some (true,
                                             (flags_with_state
                                               (adv1 i (Npos (Coq_xI (Coq_xI
                                                 (Coq_xI (Coq_xI (Coq_xO
                                                 Coq_xH)))))) r0)))
                                         | _ ->
                                           if N.eqb i.i_sub i.i_pos
                                           then Some (false,
                                                  (flags_with_state i))
                                           else None)
                                      | _ ->
                                        if N.eqb i.i_sub i.i_pos
                                        then Some (false,
                                               (flags_with_state i))
                                        else None)
                                   | _ ->
                                     if N.eqb i.i_sub i.i_pos
                                     then Some (false, (flags_with_state i))
                                     else None)
                                | _ ->
                                  if N.eqb i.i_sub i.i_pos
                                  then Some (false, (flags_with_state i))
                                  else None)
                             | _ ->
                               if N.eqb i.i_sub i.i_pos
                               then Some (false, (flags_with_state i))
                               else None)
                          | _ ->
                            if N.eqb i.i_sub i.i_pos
                            then Some (false, (flags_with_state i))
                            else None))
                  in
                  (match prefix with
                   | Some p2 ->
                     let (root, i1) = p2 in
                     (match i1.i_s with
                      | [] -> None
                      | c0 :: l ->
                        (match c0 with
                         | N0 -> None
                         | Npos p3 ->
                           (match p3 with
                            | Coq_xI _ -> None
                            | Coq_xO p4 ->
                              (match p4 with
                               | Coq_xI p5 ->
                                 (match p5 with
                                  | Coq_xI _ -> None
                                  | Coq_xO p6 ->
                                    (match p6 with
                                     | Coq_xI p7 ->
                                       (match p7 with
                                        | Coq_xI _ -> None
                                        | Coq_xO p8 ->
                                          (match p8 with
                                           | Coq_xI _ -> None
                                           | Coq_xO _ -> None
                                           | Coq_xH ->
                                             (match l with
                                              | [] -> None
                                              | c1 :: r0 ->
                                                (match c1 with
                                                 | N0 -> None
                                                 | Npos p9 ->
                                                   (match p9 with
                                                    | Coq_xI _ -> None
                                                    | Coq_xO p10 ->
                                                      (match p10 with
                                                       | Coq_xI p11 ->
                                                         (match p11 with
                                                          | Coq_xI _ -> None
                                                          | Coq_xO p12 ->
                                                            (match p12 with
                                                             | Coq_xI p13 ->
                                                               (match p13 with
                                                                | Coq_xI _ ->
                                                                  None
                                                                | Coq_xO p14 ->
                                                                  (match p14 with
                                                                   | Coq_xI _ ->
                                                                    None
                                                                   | Coq_xO _ ->
                                                                    None
                                                                   | Coq_xH ->
                                                                    let i2 =
                                                                    adv1
                                                                    (adv1 i1
                                                                    (Npos
                                                                    (Coq_xO
                                                                    (Coq_xI
                                                                    (Coq_xO
                                                                    (Coq_xI
                                                                    (Coq_xO
                                                                    Coq_xH))))))
                                                                    ((Npos
                                                                    (Coq_xO
                                                                    (Coq_xI
                                                                    (Coq_xO
                                                                    (Coq_xI
                                                                    (Coq_xO
                                                                    Coq_xH)))))) :: r0))
                                                                    (Npos
                                                                    (Coq_xO
                                                                    (Coq_xI
                                                                    (Coq_xO
                                                                    (Coq_xI
                                                                    (Coq_xO
                                                                    Coq_xH))))))
                                                                    r0
                                                                    in
                                                                    let i3 =
                                                                    flags_with_state
                                                                    i2
                                                                    in
                                                                    (
                                                                    match i3.i_s with
                                                                    | [] ->
                                                                    if 
                                                                    term_ok
                                                                    tm i2
                                                                    then 
                                                                    Some
                                                                    ((LTree
                                                                    root), i2)
                                                                    else None
                                                                    | c2 :: r3 ->
                                                                    (match c2 with
                                                                    | N0 ->
                                                                    if 
                                                                    term_ok
                                                                    tm i2
                                                                    then 
                                                                    Some
                                                                    ((LTree
                                                                    root), i2)
                                                                    else None
                                                                    | Npos p15 ->
                                                                    (match p15 with
                                                                    | Coq_xI p16 ->
                                                                    (match p16 with
                                                                    | Coq_xI p17 ->
                                                                    (match p17 with
                                                                    | Coq_xI p18 ->
                                                                    (match p18 with
                                                                    | Coq_xI p19 ->
                                                                    (match p19 with
                                                                    | Coq_xO p20 ->
                                                                    (match p20 with
                                                                    | Coq_xH ->
                                                                    Some
                                                                    ((LTree
                                                                    root),
                                                                    (adv1 i3
                                                                    (Npos
                                                                    (Coq_xI
                                                                    (Coq_xI
                                                                    (Coq_xI
                                                                    (Coq_xI
                                                                    (Coq_xO
                                                                    Coq_xH))))))
                                                                    r3))
                                                                    | _ ->
                                                                    if 
                                                                    term_ok
                                                                    tm i2
                                                                    then 
                                                                    Some
                                                                    ((LTree
                                                                    root), i2)
                                                                    else None)
                                                                    | _ ->
                                                                    if 
                                                                    term_ok
                                                                    tm i2
                                                                    then 
                                                                    Some
                                                                    ((LTree
                                                                    root), i2)
                                                                    else None)
                                                                    | _ ->
                                                                    if 
                                                                    term_ok
                                                                    tm i2
                                                                    then 
                                                                    Some
                                                                    ((LTree
                                                                    root), i2)
                                                                    else None)
                                                                    | _ ->
                                                                    if 
                                                                    term_ok
                                                                    tm i2
                                                                    then 
                                                                    Some
                                                                    ((LTree
                                                                    root), i2)
                                                                    else None)
                                                                    | _ ->
                                                                    if 
                                                                    term_ok
                                                                    tm i2
                                                                    then 
                                                                    Some
                                                                    ((LTree
                                                                    root), i2)
                                                                    else None)
                                                                    | _ ->
                                                                    if 
                                                                    term_ok
                                                                    tm i2
                                                                    then 
                                                                    Some
                                                                    ((LTree
                                                                    root), i2)
                                                                    else None))))
                                                                | Coq_xH ->
                                                                  None)
                                                             | _ -> None)
                                                          | Coq_xH -> None)
                                                       | _ -> None)
                                                    | Coq_xH -> None))))
                                        | Coq_xH -> None)
                                     | _ -> None)
                                  | Coq_xH -> None)
                               | _ -> None)
                            | Coq_xH -> None)))
                   | None -> None)
                in
                (match tree with
                 | Some x -> Some x
                 | None ->
                   (match i.i_s with
                    | [] -> None
                    | c0 :: r0 ->
                      (match c0 with
                       | N0 -> None
                       | Npos p2 ->
                         (match p2 with
                          | Coq_xO p3 ->
                            (match p3 with
                             | Coq_xI p4 ->
                               (match p4 with
                                | Coq_xO p5 ->
                                  (match p5 with
                                   | Coq_xI p6 ->
                                     (match p6 with
                                      | Coq_xO p7 ->
                                        (match p7 with
                                         | Coq_xH ->
                                           let i1 =
                                             adv1 i (Npos (Coq_xO (Coq_xI
                                               (Coq_xO (Coq_xI (Coq_xO
                                               Coq_xH)))))) r0
                                           in
                                           if (||) (zom_lookahead i1)
                                                (term_ok tm i1)
                                           then Some ((LZom false), i1)
                                           else None
                                         | _ -> None)
                                      | _ -> None)
                                   | _ -> None)
                                | _ -> None)
                             | Coq_xO p4 ->
                               (match p4 with
                                | Coq_xI p5 ->
                                  (match p5 with
                                   | Coq_xO p6 ->
                                     (match p6 with
                                      | Coq_xO p7 ->
                                        (match p7 with
                                         | Coq_xH ->
                                           let i1 =
                                             adv1 i (Npos (Coq_xO (Coq_xO
                                               (Coq_xI (Coq_xO (Coq_xO
                                               Coq_xH)))))) r0
                                           in
                                           if (||) (zom_lookahead i1)
                                                (term_ok tm i1)
                                           then Some ((LZom true), i1)
                                           else None
                                         | _ -> None)
                                      | _ -> None)
                                   | _ -> None)
                                | _ -> None)
                             | Coq_xH -> None)
                          | _ -> None))))
              | Coq_xH ->
                let tree =
                  let prefix =
                    match i.i_s with
                    | [] ->
                      if N.eqb i.i_sub i.i_pos
                      then Some (false, (flags_with_state i))
                      else None
                    | c0 :: r0 ->
                      (match c0 with
                       | N0 ->
                         if N.eqb i.i_sub i.i_pos
                         then Some (false, (flags_with_state i))
                         else None
                       | Npos p2 ->
                         (match p2 with
                          | Coq_xI p3 ->
                            (match p3 with
                             | Coq_xI p4 ->
                               (match p4 with
                                | Coq_xI p5 ->
                                  (match p5 with
                                   | Coq_xI p6 ->
                                     (match p6 with
                                      | Coq_xO p7 ->
                                        (match p7 with
                                         | Coq_xH ->
                                           Some (true,
                                             (flags_with_state
                                               (adv1 i (Npos (Coq_xI (Coq_xI
                                                 (Coq_xI (Coq_xI (Coq_xO
                                                 Coq_xH)))))) r0)))
                                         | _ ->
                                           if N.eqb i.i_sub i.i_pos
                                           then Some (false,
                                                  (flags_with_state i))
                                           else None)
                                      | _ ->
                                        if N.eqb i.i_sub i.i_pos
                                        then Some (false,
                                               (flags_with_state i))
                                        else None)
                                   | _ ->
                                     if N.eqb i.i_sub i.i_pos
                                     then Some (false, (flags_with_state i))
                                     else None)
                                | _ ->
                                  if N.eqb i.i_sub i.i_pos
                                  then Some (false, (flags_with_state i))
                                  else None)
                             | _ ->
                               if N.eqb i.i_sub i.i_pos
                               then Some (false, (flags_with_state i))
                               else None)
                          | _ ->
                            if N.eqb i.i_sub i.i_pos
                            then Some (false, (flags_with_state i))
                            else None))
                  in
                  (match prefix with
                   | Some p2 ->
                     let (root, i1) = p2 in
                     (match i1.i_s with
                      | [] -> None
                      | c0 :: l ->
                        (match c0 with
                         | N0 -> None
                         | Npos p3 ->
                           (match p3 with
                            | Coq_xI _ -> None
                            | Coq_xO p4 ->
                              (match p4 with
                               | Coq_xI p5 ->
                                 (match p5 with
                                  | Coq_xI _ -> None
                                  | Coq_xO p6 ->
                                    (match p6 with
                                     | Coq_xI p7 ->
                                       (match p7 with
                                        | Coq_xI _ -> None
                                        | Coq_xO p8 ->
                                          (match p8 with
                                           | Coq_xI _ -> None
                                           | Coq_xO _ -> None
                                           | Coq_xH ->
                                             (match l with
                                              | [] -> None
                                              | c1 :: r0 ->
                                                (match c1 with
                                                 | N0 -> None
                                                 | Npos p9 ->
                                                   (match p9 with
                                                    | Coq_xI _ -> None
                                                    | Coq_xO p10 ->
                                                      (match p10 with
                                                       | Coq_xI p11 ->
                                                         (match p11 with
                                                          | Coq_xI _ -> None
                                                          | Coq_xO p12 ->
                                                            (match p12 with
                                                             | Coq_xI p13 ->
                                                               (match p13 with
                                                                | Coq_xI _ ->
                                                                  None
                                                                | Coq_xO p14 ->
                                                                  (match p14 with
                                                                   | Coq_xI _ ->
                                                                    None
                                                                   | Coq_xO _ ->
                                                                    None
                                                                   | Coq_xH ->
                                                                    let i2 =
                                                                    adv1
                                                                    (adv1 i1
                                                                    (Npos
                                                                    (Coq_xO
                                                                    (Coq_xI
                                                                    (Coq_xO
                                                                    (Coq_xI
                                                                    (Coq_xO
                                                                    Coq_xH))))))
                                                                    ((Npos
                                                                    (Coq_xO
                                                                    (Coq_xI
                                                                    (Coq_xO
                                                                    (Coq_xI
                                                                    (Coq_xO
                                                                    Coq_xH)))))) :: r0))
                                                                    (Npos
                                                                    (Coq_xO
                                                                    (Coq_xI
                                                                    (Coq_xO
                                                                    (Coq_xI
                                                                    (Coq_xO
                                                                    Coq_xH))))))
                                                                    r0
                                                                    in
                                                                    let i3 =
                                                                    flags_with_state
                                                                    i2
                                                                    in
                                                                    (
                                                                    match i3.i_s with
                                                                    | [] ->
                                                                    if 
                                                                    term_ok
                                                                    tm i2
                                                                    then 
                                                                    Some
                                                                    ((LTree
                                                                    root), i2)
                                                                    else None
                                                                    | c2 :: r3 ->
                                                                    (match c2 with
                                                                    | N0 ->
                                                                    if 
                                                                    term_ok
                                                                    tm i2
                                                                    then 
                                                                    Some
                                                                    ((LTree
                                                                    root), i2)
                                                                    else None
                                                                    | Npos p15 ->
                                                                    (match p15 with
                                                                    | Coq_xI p16 ->
                                                                    (match p16 with
                                                                    | Coq_xI p17 ->
                                                                    (match p17 with
                                                                    | Coq_xI p18 ->
                                                                    (match p18 with
                                                                    | Coq_xI p19 ->
                                                                    (match p19 with
                                                                    | Coq_xO p20 ->
                                                                    (match p20 with
                                                                    | Coq_xH ->
                                                                    Some
                                                                    ((LTree
                                                                    root),
                                                                    (adv1 i3
                                                                    (Npos
                                                                    (Coq_xI
                                                                    (Coq_xI
                                                                    (Coq_xI
                                                                    (Coq_xI
                                                                    (Coq_xO
                                                                    Coq_xH))))))
                                                                    r3))
                                                                    | _ ->
                                                                    if 
                                                                    term_ok
                                                                    tm i2
                                                                    then 
                                                                    Some
                                                                    ((LTree
                                                                    root), i2)
                                                                    else None)
                                                                    | _ ->
                                                                    if 
                                                                    term_ok
                                                                    tm i2
                                                                    then 
                                                                    Some
                                                                    ((LTree
                                                                    root), i2)
                                                                    else None)
                                                                    | _ ->
                                                                    if 
                                                                    term_ok
                                                                    tm i2
                                                                    then 
                                                                    Some
                                                                    ((LTree
                                                                    root), i2)
                                                                    else None)
                                                                    | _ ->
                                                                    if 
                                                                    term_ok
                                                                    tm i2
                                                                    then 
                                                                    Some
                                                                    ((LTree
                                                                    root), i2)
                                                                    else None)
                                                                    | _ ->
                                                                    if 
                                                                    term_ok
                                                                    tm i2
                                                                    then 
                                                                    Some
                                                                    ((LTree
                                                                    root), i2)
                                                                    else None)
                                                                    | _ ->
                                                                    if 
                                                                    term_ok
                                                                    tm i2
                                                                    then 
                                                                    Some
                                                                    ((LTree
                                                                    root), i2)
                                                                    else None))))
                                                                | Coq_xH ->
                                                                  None)
                                                             | _ -> None)
                                                          | Coq_xH -> None)
                                                       | _ -> None)
                                                    | Coq_xH -> None))))
                                        | Coq_xH -> None)
                                     | _ -> None)
                                  | Coq_xH -> None)
                               | _ -> None)
                            | Coq_xH -> None)))
                   | None -> None)
                in
                (match tree with
                 | Some x -> Some x
                 | None ->
                   (match i.i_s with
                    | [] -> None
                    | c0 :: r0 ->
                      (match c0 with
                       | N0 -> None
                       | Npos p2 ->
                         (match p2 with
                          | Coq_xO p3 ->
                            (match p3 with
                             | Coq_xI p4 ->
                               (match p4 with
                                | Coq_xO p5 ->
                                  (match p5 with
                                   | Coq_xI p6 ->
                                     (match p6 with
                                      | Coq_xO p7 ->
                                        (match p7 with
                                         | Coq_xH ->
                                           let i1 =
                                             adv1 i (Npos (Coq_xO (Coq_xI
                                               (Coq_xO (Coq_xI (Coq_xO
                                               Coq_xH)))))) r0
                                           in
                                           if (||) (zom_lookahead i1)
                                                (term_ok tm i1)
                                           then Some ((LZom false), i1)
                                           else None
                                         | _ -> None)
                                      | _ -> None)
                                   | _ -> None)
                                | _ -> None)
                             | Coq_xO p4 ->
                               (match p4 with
                                | Coq_xI p5 ->
                                  (match p5 with
                                   | Coq_xO p6 ->
                                     (match p6 with
                                      | Coq_xO p7 ->
                                        (match p7 with
                                         | Coq_xH ->
                                           let i1 =
                                             adv1 i (Npos (Coq_xO (Coq_xO
                                               (Coq_xI (Coq_xO (Coq_xO
                                               Coq_xH)))))) r0
                                           in
                                           if (||) (zom_lookahead i1)
                                                (term_ok tm i1)
                                           then Some ((LZom true), i1)
                                           else None
                                         | _ -> None)
                                      | _ -> None)
                                   | _ -> None)
                                | _ -> None)
                             | Coq_xH -> None)
                          | _ -> None)))))
           | Coq_xO _ ->
             let tree =
               let prefix =
                 match i.i_s with
                 | [] ->
                   if N.eqb i.i_sub i.i_pos
                   then Some (false, (flags_with_state i))
                   else None
                 | c0 :: r0 ->
                   (match c0 with
                    | N0 ->
                      if N.eqb i.i_sub i.i_pos
                      then Some (false, (flags_with_state i))
                      else None
                    | Npos p1 ->
                      (match p1 with
                       | Coq_xI p2 ->
                         (match p2 with
                          | Coq_xI p3 ->
                            (match p3 with
                             | Coq_xI p4 ->
                               (match p4 with
                                | Coq_xI p5 ->
                                  (match p5 with
                                   | Coq_xO p6 ->
                                     (match p6 with
                                      | Coq_xH ->
                                        Some (true,
                                          (flags_with_state
                                            (adv1 i (Npos (Coq_xI (Coq_xI
                                              (Coq_xI (Coq_xI (Coq_xO
                                              Coq_xH)))))) r0)))
                                      | _ ->
                                        if N.eqb i.i_sub i.i_pos
                                        then Some (false,
                                               (flags_with_state i))
                                        else None)
                                   | _ ->
                                     if N.eqb i.i_sub i.i_pos
                                     then Some (false, (flags_with_state i))
                                     else None)
                                | _ ->
                                  if N.eqb i.i_sub i.i_pos
                                  then Some (false, (flags_with_state i))
                                  else None)
                             | _ ->
                               if N.eqb i.i_sub i.i_pos
                               then Some (false, (flags_with_state i))
                               else None)
                          | _ ->
                            if N.eqb i.i_sub i.i_pos
                            then Some (false, (flags_with_state i))
                            else None)
                       | _ ->
                         if N.eqb i.i_sub i.i_pos
                         then Some (false, (flags_with_state i))
                         else None))
               in
               (match prefix with
                | Some p1 ->
                  let (root, i1) = p1 in
                  (match i1.i_s with
                   | [] -> None
                   | c0 :: l ->
                     (match c0 with
                      | N0 -> None
                      | Npos p2 ->
                        (match p2 with
                         | Coq_xI _ -> None
                         | Coq_xO p3 ->
                           (match p3 with
                            | Coq_xI p4 ->
                              (match p4 with
                               | Coq_xI _ -> None
                               | Coq_xO p5 ->
                                 (match p5 with
                                  | Coq_xI p6 ->
                                    (match p6 with
                                     | Coq_xI _ -> None
                                     | Coq_xO p7 ->
                                       (match p7 with
                                        | Coq_xI _ -> None
                                        | Coq_xO _ -> None
                                        | Coq_xH ->
                                          (match l with
                                           | [] -> None
                                           | c1 :: r0 ->
                                             (match c1 with
                                              | N0 -> None
                                              | Npos p8 ->
                                                (match p8 with
                                                 | Coq_xI _ -> None
                                                 | Coq_xO p9 ->
                                                   (match p9 with
                                                    | Coq_xI p10 ->
                                                      (match p10 with
                                                       | Coq_xI _ -> None
                                                       | Coq_xO p11 ->
                                                         (match p11 with
                                                          | Coq_xI p12 ->
                                                            (match p12 with
                                                             | Coq_xI _ ->
                                                               None
                                                             | Coq_xO p13 ->
                                                               (match p13 with
                                                                | Coq_xI _ ->
                                                                  None
                                                                | Coq_xO _ ->
                                                                  None
                                                                | Coq_xH ->
                                                                  let i2 =
                                                                    adv1
                                                                    (adv1 i1
                                                                    (Npos
                                                                    (Coq_xO
                                                                    (Coq_xI
                                                                    (Coq_xO
                                                                    (Coq_xI
                                                                    (Coq_xO
                                                                    Coq_xH))))))
                                                                    ((Npos
                                                                    (Coq_xO
                                                                    (Coq_xI
                                                                    (Coq_xO
                                                                    (Coq_xI
                                                                    (Coq_xO
                                                                    Coq_xH)))))) :: r0))
                                                                    (Npos
                                                                    (Coq_xO
                                                                    (Coq_xI
                                                                    (Coq_xO
                                                                    (Coq_xI
                                                                    (Coq_xO
                                                                    Coq_xH))))))
                                                                    r0
                                                                  in
                                                                  let i3 =
                                                                    flags_with_state
                                                                    i2
                                                                  in
                                                                  (match i3.i_s with
                                                                   | [] ->
                                                                    if 
                                                                    term_ok
                                                                    tm i2
                                                                    then 
                                                                    Some
                                                                    ((LTree
                                                                    root), i2)
                                                                    else None
                                                                   | c2 :: r3 ->
                                                                    (match c2 with
                                                                    | N0 ->
                                                                    if 
                                                                    term_ok
                                                                    tm i2
                                                                    then 
                                                                    Some
                                                                    ((LTree
                                                                    root), i2)
                                                                    else None
                                                                    | Npos p14 ->
                                                                    (match p14 with
                                                                    | Coq_xI p15 ->
                                                                    (match p15 with
                                                                    | Coq_xI p16 ->
                                                                    (match p16 with
                                                                    | Coq_xI p17 ->
                                                                    (match p17 with
                                                                    | Coq_xI p18 ->
                                                                    (match p18 with
                                                                    | Coq_xO p19 ->
                                                                    (match p19 with
                                                                    | Coq_xH ->
                                                                    Some
                                                                    ((LTree
                                                                    root),
                                                                    (adv1 i3
                                                                    (Npos
                                                                    (Coq_xI
                                                                    (Coq_xI
                                                                    (Coq_xI
                                                                    (Coq_xI
                                                                    (Coq_xO
                                                                    Coq_xH))))))
                                                                    r3))
                                                                    | _ ->
                                                                    if 
                                                                    term_ok
                                                                    tm i2
                                                                    then 
                                                                    Some
                                                                    ((LTree
                                                                    root), i2)
                                                                    else None)
                                                                    | _ ->
                                                                    if 
                                                                    term_ok
                                                                    tm i2
                                                                    then 
                                                                    Some
                                                                    ((LTree
                                                                    root), i2)
                                                                    else None)
                                                                    | _ ->
                                                                    if 
                                                                    term_ok
                                                                    tm i2
                                                                    then 
                                                                    Some
                                                                    ((LTree
                                                                    root), i2)
                                                                    else None)
                                                                    | _ ->
                                                                    if 
                                                                    term_ok
                                                                    tm i2
                                                                    then 
                                                                    Some
                                                                    ((LTree
                                                                    root), i2)
                                                                    else None)
                                                                    | _ ->
                                                                    if 
                                                                    term_ok
                                                                    tm i2
                                                                    then 
                                                                    Some
                                                                    ((LTree
                                                                    root), i2)
                                                                    else None)
                                                                    | _ ->
                                                                    if 
                                                                    term_ok
                                                                    tm i2
                                                                    then 
                                                                    Some
                                                                    ((LTree
                                                                    root), i2)
                                                                    else None))))
                                                             | Coq_xH -> None)
                                                          | _ -> None)
                                                       | Coq_xH -> None)
                                                    | _ -> None)
                                                 | Coq_xH -> None))))
                                     | Coq_xH -> None)
                                  | _ -> None)
                               | Coq_xH -> None)
                            | _ -> None)
                         | Coq_xH -> None)))
                | None -> None)
             in
             (match tree with
              | Some x -> Some x
              | None ->
                (match i.i_s with
                 | [] -> None
                 | c0 :: r0 ->
                   (match c0 with
                    | N0 -> None
                    | Npos p1 ->
                      (match p1 with
                       | Coq_xO p2 ->
                         (match p2 with
                          | Coq_xI p3 ->
                            (match p3 with
                             | Coq_xO p4 ->
                               (match p4 with
                                | Coq_xI p5 ->
                                  (match p5 with
                                   | Coq_xO p6 ->
                                     (match p6 with
                                      | Coq_xH ->
                                        let i1 =
                                          adv1 i (Npos (Coq_xO (Coq_xI
                                            (Coq_xO (Coq_xI (Coq_xO
                                            Coq_xH)))))) r0
                                        in
                                        if (||) (zom_lookahead i1)
                                             (term_ok tm i1)
                                        then Some ((LZom false), i1)
                                        else None
                                      | _ -> None)
                                   | _ -> None)
                                | _ -> None)
                             | _ -> None)
                          | Coq_xO p3 ->
                            (match p3 with
                             | Coq_xI p4 ->
                               (match p4 with
                                | Coq_xO p5 ->
                                  (match p5 with
                                   | Coq_xO p6 ->
                                     (match p6 with
                                      | Coq_xH ->
                                        let i1 =
                                          adv1 i (Npos (Coq_xO (Coq_xO
                                            (Coq_xI (Coq_xO (Coq_xO
                                            Coq_xH)))))) r0
                                        in
                                        if (||) (zom_lookahead i1)
                                             (term_ok tm i1)
                                        then Some ((LZom true), i1)
                                        else None
                                      | _ -> None)
                                   | _ -> None)
                                | _ -> None)
                             | _ -> None)
                          | Coq_xH -> None)
                       | _ -> None))))
           | Coq_xH ->
             let tree =
               let prefix =
                 match i.i_s with
                 | [] ->
                   if N.eqb i.i_sub i.i_pos
                   then Some (false, (flags_with_state i))
                   else None
                 | c0 :: r0 ->
                   (match c0 with
                    | N0 ->
                      if N.eqb i.i_sub i.i_pos
                      then Some (false, (flags_with_state i))
                      else None
                    | Npos p1 ->
                      (match p1 with
                       | Coq_xI p2 ->
                         (match p2 with
                          | Coq_xI p3 ->
                            (match p3 with
                             | Coq_xI p4 ->
                               (match p4 with
                                | Coq_xI p5 ->
                                  (match p5 with
                                   | Coq_xO p6 ->
                                     (match p6 with
                                      | Coq_xH ->
                                        Some (true,
                                          (flags_with_state
                                            (adv1 i (Npos (Coq_xI (Coq_xI
                                              (Coq_xI (Coq_xI (Coq_xO
                                              Coq_xH)))))) r0)))
                                      | _ ->
                                        if N.eqb i.i_sub i.i_pos
                                        then Some (false,
                                               (flags_with_state i))
                                        else None)
                                   | _ ->
                                     if N.eqb i.i_sub i.i_pos
                                     then Some (false, (flags_with_state i))
                                     else None)
                                | _ ->
                                  if N.eqb i.i_sub i.i_pos
                                  then Some (false, (flags_with_state i))
                                  else None)
                             | _ ->
                               if N.eqb i.i_sub i.i_pos
                               then Some (false, (flags_with_state i))
                               else None)
                          | _ ->
                            if N.eqb i.i_sub i.i_pos
                            then Some (false, (flags_with_state i))
                            else None)
                       | _ ->
                         if N.eqb i.i_sub i.i_pos
                         then Some (false, (flags_with_state i))
                         else None))
               in
               (match prefix with
                | Some p1 ->
                  let (root, i1) = p1 in
                  (match i1.i_s with
                   | [] -> None
                   | c0 :: l ->
                     (match c0 with
                      | N0 -> None
                      | Npos p2 ->
                        (match p2 with
                         | Coq_xI _ -> None
                         | Coq_xO p3 ->
                           (match p3 with
                            | Coq_xI p4 ->
                              (match p4 with
                               | Coq_xI _ -> None
                               | Coq_xO p5 ->
                                 (match p5 with
                                  | Coq_xI p6 ->
                                    (match p6 with
                                     | Coq_xI _ -> None
                                     | Coq_xO p7 ->
                                       (match p7 with
                                        | Coq_xI _ -> None
                                        | Coq_xO _ -> None
                                        | Coq_xH ->
                                          (match l with
                                           | [] -> None
                                           | c1 :: r0 ->
                                             (match c1 with
                                              | N0 -> None
                                              | Npos p8 ->
                                                (match p8 with
                                                 | Coq_xI _ -> None
                                                 | Coq_xO p9 ->
                                                   (match p9 with
                                                    | Coq_xI p10 ->
                                                      (match p10 with
                                                       | Coq_xI _ -> None
                                                       | Coq_xO p11 ->
                                                         (match p11 with
                                                          | Coq_xI p12 ->
                                                            (match p12 with
                                                             | Coq_xI _ ->
                                                               None
                                                             | Coq_xO p13 ->
                                                               (match p13 with
                                                                | Coq_xI _ ->
                                                                  None
                                                                | Coq_xO _ ->
                                                                  None
                                                                | Coq_xH ->
                                                                  let i2 =
                                                                    adv1
                                                                    (adv1 i1
                                                                    (Npos
                                                                    (Coq_xO
                                                                    (Coq_xI
                                                                    (Coq_xO
                                                                    (Coq_xI
                                                                    (Coq_xO
                                                                    Coq_xH))))))
                                                                    ((Npos
                                                                    (Coq_xO
                                                                    (Coq_xI
                                                                    (Coq_xO
                                                                    (Coq_xI
                                                                    (Coq_xO
                                                                    Coq_xH)))))) :: r0))
                                                                    (Npos
                                                                    (Coq_xO
                                                                    (Coq_xI
                                                                    (Coq_xO
                                                                    (Coq_xI
                                                                    (Coq_xO
                                                                    Coq_xH))))))
                                                                    r0
                                                                  in
                                                                  let i3 =
                                                                    flags_with_state
                                                                    i2
                                                                  in
                                                                  (match i3.i_s with
                                                                   | [] ->
                                                                    if 
                                                                    term_ok
                                                                    tm i2
                                                                    then 
                                                                    Some
                                                                    ((LTree
                                                                    root), i2)
                                                                    else None
                                                                   | c2 :: r3 ->
                                                                    (match c2 with
                                                                    | N0 ->
                                                                    if 
                                                                    term_ok
                                                                    tm i2
                                                                    then 
                                                                    Some
                                                                    ((LTree
                                                                    root), i2)
                                                                    else None
                                                                    | Npos p14 ->
                                                                    (match p14 with
                                                                    | Coq_xI p15 ->
                                                                    (match p15 with
                                                                    | Coq_xI p16 ->
                                                                    (match p16 with
                                                                    | Coq_xI p17 ->
                                                                    (match p17 with
                                                                    | Coq_xI p18 ->
                                                                    (match p18 with
                                                                    | Coq_xO p19 ->
                                                                    (match p19 with
                                                                    | Coq_xH ->
                                                                    Some
                                                                    ((LTree
                                                                    root),
                                                                    (adv1 i3
                                                                    (Npos
                                                                    (Coq_xI
                                                                    (Coq_xI
                                                                    (Coq_xI
                                                                    (Coq_xI
                                                                    (Coq_xO
                                                                    Coq_xH))))))
                                                                    r3))
                                                                    | _ ->
                                                                    if 
                                                                    term_ok
                                                                    tm i2
                                                                    then 
                                                                    Some
                                                                    ((LTree
                                                                    root), i2)
                                                                    else None)
                                                                    | _ ->
                                                                    if 
                                                                    term_ok
                                                                    tm i2
                                                                    then 
                                                                    Some
                                                                    ((LTree
                                                                    root), i2)
                                                                    else None)
                                                                    | _ ->
                                                                    if 
                                                                    term_ok
                                                                    tm i2
                                                                    then 
                                                                    Some
                                                                    ((LTree
                                                                    root), i2)
                                                                    else None)
                                                                    | _ ->
                                                                    if 
                                                                    term_ok
                                                                    tm i2
                                                                    then 
                                                                    Some
                                                                    ((LTree
                                                                    root), i2)
                                                                    else None)
                                                                    | _ ->
                                                                    if 
                                                                    term_ok
                                                                    tm i2
                                                                    then 
                                                                    Some
                                                                    ((LTree
                                                                    root), i2)
                                                                    else None)
                                                                    | _ ->
                                                                    if 
                                                                    term_ok
                                                                    tm i2
                                                                    then 
                                                                    Some
                                                                    ((LTree
                                                                    root), i2)
                                                                    else None))))
                                                             | Coq_xH -> None)
                                                          | _ -> None)
                                                       | Coq_xH -> None)
                                                    | _ -> None)
                                                 | Coq_xH -> None))))
                                     | Coq_xH -> None)
                                  | _ -> None)
                               | Coq_xH -> None)
                            | _ -> None)
                         | Coq_xH -> None)))
                | None -> None)
             in
             (match tree with
              | Some x -> Some x
              | None ->
                (match i.i_s with
                 | [] -> None
                 | c0 :: r0 ->
                   (match c0 with
                    | N0 -> None
                    | Npos p1 ->
                      (match p1 with
                       | Coq_xO p2 ->
                         (match p2 with
                          | Coq_xI p3 ->
                            (match p3 with
                             | Coq_xO p4 ->
                               (match p4 with
                                | Coq_xI p5 ->
                                  (match p5 with
                                   | Coq_xO p6 ->
                                     (match p6 with
                                      | Coq_xH ->
                                        let i1 =
                                          adv1 i (Npos (Coq_xO (Coq_xI
                                            (Coq_xO (Coq_xI (Coq_xO
                                            Coq_xH)))))) r0
                                        in
                                        if (||) (zom_lookahead i1)
                                             (term_ok tm i1)
                                        then Some ((LZom false), i1)
                                        else None
                                      | _ -> None)
                                   | _ -> None)
                                | _ -> None)
                             | _ -> None)
                          | Coq_xO p3 ->
                            (match p3 with
                             | Coq_xI p4 ->
                               (match p4 with
                                | Coq_xO p5 ->
                                  (match p5 with
                                   | Coq_xO p6 ->
                                     (match p6 with
                                      | Coq_xH ->
                                        let i1 =
                                          adv1 i (Npos (Coq_xO (Coq_xO
                                            (Coq_xI (Coq_xO (Coq_xO
                                            Coq_xH)))))) r0
                                        in
                                        if (||) (zom_lookahead i1)
                                             (term_ok tm i1)
                                        then Some ((LZom true), i1)
                                        else None
                                      | _ -> None)
                                   | _ -> None)
                                | _ -> None)
                             | _ -> None)
                          | Coq_xH -> None)
                       | _ -> None)))))
        | Coq_xO _ ->
          let tree =
            let prefix =
              match i.i_s with
              | [] ->
                if N.eqb i.i_sub i.i_pos
                then Some (false, (flags_with_state i))
                else None
              | c0 :: r0 ->
                (match c0 with
                 | N0 ->
                   if N.eqb i.i_sub i.i_pos
                   then Some (false, (flags_with_state i))
                   else None
                 | Npos p0 ->
                   (match p0 with
                    | Coq_xI p1 ->
                      (match p1 with
                       | Coq_xI p2 ->
                         (match p2 with
                          | Coq_xI p3 ->
                            (match p3 with
                             | Coq_xI p4 ->
                               (match p4 with
                                | Coq_xO p5 ->
                                  (match p5 with
                                   | Coq_xH ->
                                     Some (true,
                                       (flags_with_state
                                         (adv1 i (Npos (Coq_xI (Coq_xI
                                           (Coq_xI (Coq_xI (Coq_xO
                                           Coq_xH)))))) r0)))
                                   | _ ->
                                     if N.eqb i.i_sub i.i_pos
                                     then Some (false, (flags_with_state i))
                                     else None)
                                | _ ->
                                  if N.eqb i.i_sub i.i_pos
                                  then Some (false, (flags_with_state i))
                                  else None)
                             | _ ->
                               if N.eqb i.i_sub i.i_pos
                               then Some (false, (flags_with_state i))
                               else None)
                          | _ ->
                            if N.eqb i.i_sub i.i_pos
                            then Some (false, (flags_with_state i))
                            else None)
                       | _ ->
                         if N.eqb i.i_sub i.i_pos
                         then Some (false, (flags_with_state i))
                         else None)
                    | _ ->
                      if N.eqb i.i_sub i.i_pos
                      then Some (false, (flags_with_state i))
                      else None))
            in
            (match prefix with
             | Some p0 ->
               let (root, i1) = p0 in
               (match i1.i_s with
                | [] -> None
                | c0 :: l ->
                  (match c0 with
                   | N0 -> None
                   | Npos p1 ->
                     (match p1 with
                      | Coq_xI _ -> None
                      | Coq_xO p2 ->
                        (match p2 with
                         | Coq_xI p3 ->
                           (match p3 with
                            | Coq_xI _ -> None
                            | Coq_xO p4 ->
                              (match p4 with
                               | Coq_xI p5 ->
                                 (match p5 with
                                  | Coq_xI _ -> None
                                  | Coq_xO p6 ->
                                    (match p6 with
                                     | Coq_xI _ -> None
                                     | Coq_xO _ -> None
                                     | Coq_xH ->
                                       (match l with
                                        | [] -> None
                                        | c1 :: r0 ->
                                          (match c1 with
                                           | N0 -> None
                                           | Npos p7 ->
                                             (match p7 with
                                              | Coq_xI _ -> None
                                              | Coq_xO p8 ->
                                                (match p8 with
                                                 | Coq_xI p9 ->
                                                   (match p9 with
                                                    | Coq_xI _ -> None
                                                    | Coq_xO p10 ->
                                                      (match p10 with
                                                       | Coq_xI p11 ->
                                                         (match p11 with
                                                          | Coq_xI _ -> None
                                                          | Coq_xO p12 ->
                                                            (match p12 with
                                                             | Coq_xI _ ->
                                                               None
                                                             | Coq_xO _ ->
                                                               None
                                                             | Coq_xH ->
                                                               let i2 =
                                                                 adv1
                                                                   (adv1 i1
                                                                    (Npos
                                                                    (Coq_xO
                                                                    (Coq_xI
                                                                    (Coq_xO
                                                                    (Coq_xI
                                                                    (Coq_xO
                                                                    Coq_xH))))))
                                                                    ((Npos
                                                                    (Coq_xO
                                                                    (Coq_xI
                                                                    (Coq_xO
                                                                    (Coq_xI
                                                                    (Coq_xO
                                                                    Coq_xH)))))) :: r0))
                                                                   (Npos
                                                                   (Coq_xO
                                                                   (Coq_xI
                                                                   (Coq_xO
                                                                   (Coq_xI
                                                                   (Coq_xO
                                                                   Coq_xH))))))
                                                                   r0
                                                               in
                                                               let i3 =
                                                                 flags_with_state
                                                                   i2
                                                               in
                                                               (match i3.i_s with
                                                                | [] ->
                                                                  if 
                                                                    term_ok
                                                                    tm i2
                                                                  then 
                                                                    Some
                                                                    ((LTree
                                                                    root), i2)
                                                                  else None
                                                                | c2 :: r3 ->
                                                                  (match c2 with
                                                                   | N0 ->
                                                                    if 
                                                                    term_ok
                                                                    tm i2
                                                                    then 
                                                                    Some
                                                                    ((LTree
                                                                    root), i2)
                                                                    else None
                                                                   | Npos p13 ->
                                                                    (match p13 with
                                                                    | Coq_xI p14 ->
                                                                    (match p14 with
                                                                    | Coq_xI p15 ->
                                                                    (match p15 with
                                                                    | Coq_xI p16 ->
                                                                    (match p16 with
                                                                    | Coq_xI p17 ->
                                                                    (match p17 with
                                                                    | Coq_xO p18 ->
                                                                    (match p18 with
                                                                    | Coq_xH ->
                                                                    Some
                                                                    ((LTree
                                                                    root),
                                                                    (adv1 i3
                                                                    (Npos
                                                                    (Coq_xI
                                                                    (Coq_xI
                                                                    (Coq_xI
                                                                    (Coq_xI
                                                                    (Coq_xO
                                                                    Coq_xH))))))
                                                                    r3))
                                                                    | _ ->
                                                                    if 
                                                                    term_ok
                                                                    tm i2
                                                                    then 
                                                                    Some
                                                                    ((LTree
                                                                    root), i2)
                                                                    else None)
                                                                    | _ ->
                                                                    if 
                                                                    term_ok
                                                                    tm i2
                                                                    then 
                                                                    Some
                                                                    ((LTree
                                                                    root), i2)
                                                                    else None)
                                                                    | _ ->
                                                                    if 
                                                                    term_ok
                                                                    tm i2
                                                                    then 
                                                                    Some
                                                                    ((LTree
                                                                    root), i2)
                                                                    else None)
                                                                    | _ ->
                                                                    if 
                                                                    term_ok
                                                                    tm i2
                                                                    then 
                                                                    Some
                                                                    ((LTree
                                                                    root), i2)
                                                                    else None)
                                                                    | _ ->
                                                                    if 
                                                                    term_ok
                                                                    tm i2
                                                                    then 
                                                                    Some
                                                                    ((LTree
                                                                    root), i2)
                                                                    else None)
                                                                    | _ ->
                                                                    if 
                                                                    term_ok
                                                                    tm i2
                                                                    then 
                                                                    Some
                                                                    ((LTree
                                                                    root), i2)
                                                                    else None))))
                                                          | Coq_xH -> None)
                                                       | _ -> None)
                                                    | Coq_xH -> None)
                                                 | _ -> None)
                                              | Coq_xH -> None))))
                                  | Coq_xH -> None)
                               | _ -> None)
                            | Coq_xH -> None)
                         | _ -> None)
                      | Coq_xH -> None)))
             | None -> None)
          in
          (match tree with
           | Some x -> Some x
           | None ->
             (match i.i_s with
              | [] -> None
              | c0 :: r0 ->
                (match c0 with
                 | N0 -> None
                 | Npos p0 ->
                   (match p0 with
                    | Coq_xO p1 ->
                      (match p1 with
                       | Coq_xI p2 ->
                         (match p2 with
                          | Coq_xO p3 ->
                            (match p3 with
                             | Coq_xI p4 ->
                               (match p4 with
                                | Coq_xO p5 ->
                                  (match p5 with
                                   | Coq_xH ->
                                     let i1 =
                                       adv1 i (Npos (Coq_xO (Coq_xI (Coq_xO
                                         (Coq_xI (Coq_xO Coq_xH)))))) r0
                                     in
                                     if (||) (zom_lookahead i1)
                                          (term_ok tm i1)
                                     then Some ((LZom false), i1)
                                     else None
                                   | _ -> None)
                                | _ -> None)
                             | _ -> None)
                          | _ -> None)
                       | Coq_xO p2 ->
                         (match p2 with
                          | Coq_xI p3 ->
                            (match p3 with
                             | Coq_xO p4 ->
                               (match p4 with
                                | Coq_xO p5 ->
                                  (match p5 with
                                   | Coq_xH ->
                                     let i1 =
                                       adv1 i (Npos (Coq_xO (Coq_xO (Coq_xI
                                         (Coq_xO (Coq_xO Coq_xH)))))) r0
                                     in
                                     if (||) (zom_lookahead i1)
                                          (term_ok tm i1)
                                     then Some ((LZom true), i1)
                                     else None
                                   | _ -> None)
                                | _ -> None)
                             | _ -> None)
                          | _ -> None)
                       | Coq_xH -> None)
                    | _ -> None))))
        | Coq_xH ->
          let tree =
            let prefix =
              match i.i_s with
              | [] ->
                if N.eqb i.i_sub i.i_pos
                then Some (false, (flags_with_state i))
                else None
              | c0 :: r0 ->
                (match c0 with
                 | N0 ->
                   if N.eqb i.i_sub i.i_pos
                   then Some (false, (flags_with_state i))
                   else None
                 | Npos p0 ->
                   (match p0 with
                    | Coq_xI p1 ->
                      (match p1 with
                       | Coq_xI p2 ->
                         (match p2 with
                          | Coq_xI p3 ->
                            (match p3 with
                             | Coq_xI p4 ->
                               (match p4 with
                                | Coq_xO p5 ->
                                  (match p5 with
                                   | Coq_xH ->
                                     Some (true,
                                       (flags_with_state
                                         (adv1 i (Npos (Coq_xI (Coq_xI
                                           (Coq_xI (Coq_xI (Coq_xO
                                           Coq_xH)))))) r0)))
                                   | _ ->
                                     if N.eqb i.i_sub i.i_pos
                                     then Some (false, (flags_with_state i))
                                     else None)
                                | _ ->
                                  if N.eqb i.i_sub i.i_pos
                                  then Some (false, (flags_with_state i))
                                  else None)
                             | _ ->
                               if N.eqb i.i_sub i.i_pos
                               then Some (false, (flags_with_state i))
                               else None)
                          | _ ->
                            if N.eqb i.i_sub i.i_pos
                            then Some (false, (flags_with_state i))
                            else None)
                       | _ ->
                         if N.eqb i.i_sub i.i_pos
                         then Some (false, (flags_with_state i))
                         else None)
                    | _ ->
                      if N.eqb i.i_sub i.i_pos
                      then Some (false, (flags_with_state i))
                      else None))
            in
            (match prefix with
             | Some p0 ->
               let (root, i1) = p0 in
               (match i1.i_s with
                | [] -> None
                | c0 :: l ->
                  (match c0 with
                   | N0 -> None
                   | Npos p1 ->
                     (match p1 with
                      | Coq_xI _ -> None
                      | Coq_xO p2 ->
                        (match p2 with
                         | Coq_xI p3 ->
                           (match p3 with
                            | Coq_xI _ -> None
                            | Coq_xO p4 ->
                              (match p4 with
                               | Coq_xI p5 ->
                                 (match p5 with
                                  | Coq_xI _ -> None
                                  | Coq_xO p6 ->
                                    (match p6 with
                                     | Coq_xI _ -> None
                                     | Coq_xO _ -> None
                                     | Coq_xH ->
                                       (match l with
                                        | [] -> None
                                        | c1 :: r0 ->
                                          (match c1 with
                                           | N0 -> None
                                           | Npos p7 ->
                                             (match p7 with
                                              | Coq_xI _ -> None
                                              | Coq_xO p8 ->
                                                (match p8 with
                                                 | Coq_xI p9 ->
                                                   (match p9 with
                                                    | Coq_xI _ -> None
                                                    | Coq_xO p10 ->
                                                      (match p10 with
                                                       | Coq_xI p11 ->
                                                         (match p11 with
                                                          | Coq_xI _ -> None
                                                          | Coq_xO p12 ->
                                                            (match p12 with
                                                             | Coq_xI _ ->
                                                               None
                                                             | Coq_xO _ ->
                                                               None
                                                             | Coq_xH ->
                                                               let i2 =
                                                                 adv1
                                                                   (adv1 i1
                                                                    (Npos
                                                                    (Coq_xO
                                                                    (Coq_xI
                                                                    (Coq_xO
                                                                    (Coq_xI
                                                                    (Coq_xO
                                                                    Coq_xH))))))
                                                                    ((Npos
                                                                    (Coq_xO
                                                                    (Coq_xI
                                                                    (Coq_xO
                                                                    (Coq_xI
                                                                    (Coq_xO
                                                                    Coq_xH)))))) :: r0))
                                                                   (Npos
                                                                   (Coq_xO
                                                                   (Coq_xI
                                                                   (Coq_xO
                                                                   (Coq_xI
                                                                   (Coq_xO
                                                                   Coq_xH))))))
                                                                   r0
                                                               in
                                                               let i3 =
                                                                 flags_with_state
                                                                   i2
                                                               in
                                                               (match i3.i_s with
                                                                | [] ->
                                                                  if 
                                                                    term_ok
                                                                    tm i2
                                                                  then 
                                                                    Some
                                                                    ((LTree
                                                                    root), i2)
                                                                  else None
                                                                | c2 :: r3 ->
                                                                  (match c2 with
                                                                   | N0 ->
                                                                    if 
                                                                    term_ok
                                                                    tm i2
                                                                    then 
                                                                    Some
                                                                    ((LTree
                                                                    root), i2)
                                                                    else None
                                                                   | Npos p13 ->
                                                                    (match p13 with
                                                                    | Coq_xI p14 ->
                                                                    (match p14 with
                                                                    | Coq_xI p15 ->
                                                                    (match p15 with
                                                                    | Coq_xI p16 ->
                                                                    (match p16 with
                                                                    | Coq_xI p17 ->
                                                                    (match p17 with
                                                                    | Coq_xO p18 ->
                                                                    (match p18 with
                                                                    | Coq_xH ->
                                                                    Some
                                                                    ((LTree
                                                                    root),
                                                                    (adv1 i3
                                                                    (Npos
                                                                    (Coq_xI
                                                                    (Coq_xI
                                                                    (Coq_xI
                                                                    (Coq_xI
                                                                    (Coq_xO
                                                                    Coq_xH))))))
                                                                    r3))
                                                                    | _ ->
                                                                    if 
                                                                    term_ok
                                                                    tm i2
                                                                    then 
                                                                    Some
                                                                    ((LTree
                                                                    root), i2)
                                                                    else None)
                                                                    | _ ->
                                                                    if 
                                                                    term_ok
                                                                    tm i2
                                                                    then 
                                                                    Some
                                                                    ((LTree
                                                                    root), i2)
                                                                    else None)
                                                                    | _ ->
                                                                    if 
                                                                    term_ok
                                                                    tm i2
                                                                    then 
                                                                    Some
                                                                    ((LTree
                                                                    root), i2)
                                                                    else None)
                                                                    | _ ->
                                                                    if 
                                                                    term_ok
                                                                    tm i2
                                                                    then 
                                                                    Some
                                                                    ((LTree
                                                                    root), i2)
                                                                    else None)
                                                                    | _ ->
                                                                    if 
                                                                    term_ok
                                                                    tm i2
                                                                    then 
                                                                    Some
                                                                    ((LTree
                                                                    root), i2)
                                                                    else None)
                                                                    | _ ->
                                                                    if 
                                                                    term_ok
                                                                    tm i2
                                                                    then 
                                                                    Some
                                                                    ((LTree
                                                                    root), i2)
                                                                    else None))))
                                                          | Coq_xH -> None)
                                                       | _ -> None)
                                                    | Coq_xH -> None)
                                                 | _ -> None)
                                              | Coq_xH -> None))))
                                  | Coq_xH -> None)
                               | _ -> None)
                            | Coq_xH -> None)
                         | _ -> None)
                      | Coq_xH -> None)))
             | None -> None)
          in
          (match tree with
           | Some x -> Some x
           | None ->
             (match i.i_s with
              | [] -> None
              | c0 :: r0 ->
                (match c0 with
                 | N0 -> None
                 | Npos p0 ->
                   (match p0 with
                    | Coq_xO p1 ->
                      (match p1 with
                       | Coq_xI p2 ->
                         (match p2 with
                          | Coq_xO p3 ->
                            (match p3 with
                             | Coq_xI p4 ->
                               (match p4 with
                                | Coq_xO p5 ->
                                  (match p5 with
                                   | Coq_xH ->
                                     let i1 =
                                       adv1 i (Npos (Coq_xO (Coq_xI (Coq_xO
                                         (Coq_xI (Coq_xO Coq_xH)))))) r0
                                     in
                                     if (||) (zom_lookahead i1)
                                          (term_ok tm i1)
                                     then Some ((LZom false), i1)
                                     else None
                                   | _ -> None)
                                | _ -> None)
                             | _ -> None)
                          | _ -> None)
                       | Coq_xO p2 ->
                         (match p2 with
                          | Coq_xI p3 ->
                            (match p3 with
                             | Coq_xO p4 ->
                               (match p4 with
                                | Coq_xO p5 ->
                                  (match p5 with
                                   | Coq_xH ->
                                     let i1 =
                                       adv1 i (Npos (Coq_xO (Coq_xO (Coq_xI
                                         (Coq_xO (Coq_xO Coq_xH)))))) r0
                                     in
                                     if (||) (zom_lookahead i1)
                                          (term_ok tm i1)
                                     then Some ((LZom true), i1)
                                     else None
                                   | _ -> None)
                                | _ -> None)
                             | _ -> None)
                          | _ -> None)
                       | Coq_xH -> None)
                    | _ -> None))))))

(** val is_digit : char -> bool **)

let is_digit c =
  (&&) (N.leb (Npos (Coq_xO (Coq_xO (Coq_xO (Coq_xO (Coq_xI Coq_xH)))))) c)
    (N.leb c (Npos (Coq_xI (Coq_xO (Coq_xO (Coq_xI (Coq_xI Coq_xH)))))))

(** val digits : str -> str * str **)

let rec digits s = match s with
| [] -> ([], [])
| c :: r ->
  if is_digit c then let (d, r') = digits r in ((c :: d), r') else ([], s)

(** val parse_usize : str -> coq_N option **)

let parse_usize d =
  let v =
    fold_left (fun acc c ->
      if N.ltb acc usize_max1
      then N.add (N.mul acc (Npos (Coq_xO (Coq_xI (Coq_xO Coq_xH)))))
             (N.sub c (Npos (Coq_xO (Coq_xO (Coq_xO (Coq_xO (Coq_xI
               Coq_xH)))))))
      else acc) d N0
  in
  if N.ltb v usize_max1 then Some v else None

(** val p_bounds : input -> (coq_N * coq_N option) * input **)

let p_bounds i =
  match i.i_s with
  | [] -> ((N0, None), i)
  | c :: r ->
    (match c with
     | N0 -> ((N0, None), i)
     | Npos p ->
       (match p with
        | Coq_xO p0 ->
          (match p0 with
           | Coq_xI p1 ->
             (match p1 with
              | Coq_xO p2 ->
                (match p2 with
                 | Coq_xI p3 ->
                   (match p3 with
                    | Coq_xI p4 ->
                      (match p4 with
                       | Coq_xH ->
                         let i1 =
                           adv1 i (Npos (Coq_xO (Coq_xI (Coq_xO (Coq_xI
                             (Coq_xI Coq_xH)))))) r
                         in
                         let (d1, r1) = digits r in
                         let converged =
                           if is_nil d1
                           then (((Npos Coq_xH), None), i1)
                           else (match parse_usize d1 with
                                 | Some n -> ((n, (Some n)), (adv i1 d1 r1))
                                 | None -> (((Npos Coq_xH), None), i1))
                         in
                         if is_nil d1
                         then (((Npos Coq_xH), None), i1)
                         else (match r1 with
                               | [] -> converged
                               | c0 :: r2 ->
                                 (match c0 with
                                  | N0 -> converged
                                  | Npos p5 ->
                                    (match p5 with
                                     | Coq_xO p6 ->
                                       (match p6 with
                                        | Coq_xO p7 ->
                                          (match p7 with
                                           | Coq_xI p8 ->
                                             (match p8 with
                                              | Coq_xI p9 ->
                                                (match p9 with
                                                 | Coq_xO p10 ->
                                                   (match p10 with
                                                    | Coq_xH ->
                                                      let (d2, r3) = digits r2
                                                      in
                                                      let consumed =
                                                        app d1
                                                          (app
                                                            (c_comma :: [])
                                                            d2)
                                                      in
                                                      (match parse_usize d1 with
                                                       | Some lo ->
                                                         (match if is_nil d2
                                                                then Some None
                                                                else 
                                                                  option_map
                                                                    (fun x ->
                                                                    Some x)
                                                                    (parse_usize
                                                                    d2) with
                                                          | Some hi ->
                                                            ((lo, hi),
                                                              (adv i1
                                                                consumed r3))
                                                          | None -> converged)
                                                       | None -> converged)
                                                    | _ -> converged)
                                                 | _ -> converged)
                                              | _ -> converged)
                                           | _ -> converged)
                                        | _ -> converged)
                                     | _ -> converged)))
                       | _ -> ((N0, None), i))
                    | _ -> ((N0, None), i))
                 | _ -> ((N0, None), i))
              | _ -> ((N0, None), i))
           | _ -> ((N0, None), i))
        | _ -> ((N0, None), i)))

type 'a pres =
| POk of 'a
| PErr
| PFuel

(** val mk_span : input -> input -> span **)

let mk_span i0 i1 =
  (i0.i_pos, (N.sub i1.i_pos i0.i_pos))

(** val leaf_tok : input -> (leaf * input) option -> (tok * input) option **)

let leaf_tok i0 = function
| Some p -> let (l, i1) = p in Some ((TLeaf ((mk_span i0 i1), l)), i1)
| None -> None

(** val p_tokens : nat -> terminator -> input -> (tok list * input) pres **)

let rec p_tokens fuel tm i =
  match fuel with
  | O -> PFuel
  | S f ->
    (match p_token f tm i with
     | POk a ->
       let (t, i') = a in
       (match p_tokens f tm i' with
        | POk a0 -> let (ts, i'') = a0 in POk ((t :: ts), i'')
        | x -> x)
     | PErr -> POk ([], i)
     | PFuel -> PFuel)

(** val p_token : nat -> terminator -> input -> (tok * input) pres **)

and p_token fuel tm i =
  match fuel with
  | O -> PFuel
  | S f ->
    let iF = flags_with_state i in
    (match leaf_tok i (p_literal iF) with
     | Some x -> POk x
     | None ->
       let rep =
         match iF.i_s with
         | [] -> POk None
         | c :: r ->
           (match c with
            | N0 -> POk None
            | Npos p ->
              (match p with
               | Coq_xI _ -> POk None
               | Coq_xO p0 ->
                 (match p0 with
                  | Coq_xI _ -> POk None
                  | Coq_xO p1 ->
                    (match p1 with
                     | Coq_xI p2 ->
                       (match p2 with
                        | Coq_xI p3 ->
                          (match p3 with
                           | Coq_xI p4 ->
                             (match p4 with
                              | Coq_xI _ -> POk None
                              | Coq_xO _ -> POk None
                              | Coq_xH ->
                                (match p_glob f TermRep
                                         (adv1 iF (Npos (Coq_xO (Coq_xO
                                           (Coq_xI (Coq_xI (Coq_xI
                                           Coq_xH)))))) r) with
                                 | POk a ->
                                   let (body, i1) = a in
                                   let (p5, i2) = p_bounds i1 in
                                   let (lo, hi) = p5 in
                                   (match tag1 c_gt i2 with
                                    | Some i3 ->
                                      POk (Some ((TRep ((mk_span i i3), body,
                                        lo, hi)), i3))
                                    | None -> POk None)
                                 | PErr -> POk None
                                 | PFuel -> PFuel))
                           | _ -> POk None)
                        | _ -> POk None)
                     | _ -> POk None)
                  | Coq_xH -> POk None)
               | Coq_xH -> POk None))
       in
       (match rep with
        | POk a ->
          (match a with
           | Some x -> POk x
           | None ->
             let alt =
               match iF.i_s with
               | [] -> POk None
               | c :: r ->
                 (match c with
                  | N0 -> POk None
                  | Npos p ->
                    (match p with
                     | Coq_xI p0 ->
                       (match p0 with
                        | Coq_xI p1 ->
                          (match p1 with
                           | Coq_xI _ -> POk None
                           | Coq_xO p2 ->
                             (match p2 with
                              | Coq_xI p3 ->
                                (match p3 with
                                 | Coq_xI p4 ->
                                   (match p4 with
                                    | Coq_xI p5 ->
                                      (match p5 with
                                       | Coq_xI _ -> POk None
                                       | Coq_xO _ -> POk None
                                       | Coq_xH ->
                                         (match p_branches f
                                                  (adv1 iF (Npos (Coq_xI
                                                    (Coq_xI (Coq_xO (Coq_xI
                                                    (Coq_xI (Coq_xI
                                                    Coq_xH))))))) r) with
                                          | POk a0 ->
                                            let (bs, i1) = a0 in
                                            (match tag1 c_rbrace i1 with
                                             | Some i2 ->
                                               POk (Some ((TAlt
                                                 ((mk_span i i2), bs)), i2))
                                             | None -> POk None)
                                          | PErr -> POk None
                                          | PFuel -> PFuel))
                                    | _ -> POk None)
                                 | _ -> POk None)
                              | _ -> POk None)
                           | Coq_xH -> POk None)
                        | _ -> POk None)
                     | _ -> POk None))
             in
             (match alt with
              | POk a0 ->
                (match a0 with
                 | Some x -> POk x
                 | None ->
                   (match leaf_tok i (p_wildcard tm iF) with
                    | Some x -> POk x
                    | None ->
                      (match leaf_tok i (p_class iF) with
                       | Some x -> POk x
                       | None ->
                         (match iF.i_s with
                          | [] -> PErr
                          | c :: r ->
                            (match c with
                             | N0 -> PErr
                             | Npos p ->
                               (match p with
                                | Coq_xI p0 ->
                                  (match p0 with
                                   | Coq_xI p1 ->
                                     (match p1 with
                                      | Coq_xI p2 ->
                                        (match p2 with
                                         | Coq_xI p3 ->
                                           (match p3 with
                                            | Coq_xO p4 ->
                                              (match p4 with
                                               | Coq_xH ->
                                                 POk ((TLeaf
                                                   ((mk_span i
                                                      (adv1 iF (Npos (Coq_xI
                                                        (Coq_xI (Coq_xI
                                                        (Coq_xI (Coq_xO
                                                        Coq_xH)))))) r)),
                                                   LSep)),
                                                   (adv1 iF (Npos (Coq_xI
                                                     (Coq_xI (Coq_xI (Coq_xI
                                                     (Coq_xO Coq_xH)))))) r))
                                               | _ -> PErr)
                                            | _ -> PErr)
                                         | _ -> PErr)
                                      | _ -> PErr)
                                   | _ -> PErr)
                                | _ -> PErr))))))
              | PErr -> PErr
              | PFuel -> PFuel))
        | PErr -> PErr
        | PFuel -> PFuel))

(** val p_branches : nat -> input -> (tok list * input) pres **)

and p_branches fuel i =
  match fuel with
  | O -> PFuel
  | S f ->
    (match p_glob f TermAlt i with
     | POk a ->
       let (b, i1) = a in
       (match i1.i_s with
        | [] -> POk ((b :: []), i1)
        | c :: r ->
          (match c with
           | N0 -> POk ((b :: []), i1)
           | Npos p ->
             (match p with
              | Coq_xO p0 ->
                (match p0 with
                 | Coq_xO p1 ->
                   (match p1 with
                    | Coq_xI p2 ->
                      (match p2 with
                       | Coq_xI p3 ->
                         (match p3 with
                          | Coq_xO p4 ->
                            (match p4 with
                             | Coq_xH ->
                               (match p_branches f
                                        (adv1 i1 (Npos (Coq_xO (Coq_xO
                                          (Coq_xI (Coq_xI (Coq_xO
                                          Coq_xH)))))) r) with
                                | POk a0 ->
                                  let (bs, i2) = a0 in POk ((b :: bs), i2)
                                | PErr -> POk ((b :: []), i1)
                                | PFuel -> PFuel)
                             | _ -> POk ((b :: []), i1))
                          | _ -> POk ((b :: []), i1))
                       | _ -> POk ((b :: []), i1))
                    | _ -> POk ((b :: []), i1))
                 | _ -> POk ((b :: []), i1))
              | _ -> POk ((b :: []), i1))))
     | PErr -> PErr
     | PFuel -> PFuel)

(** val p_glob : nat -> terminator -> input -> (tok * input) pres **)

and p_glob fuel tm i =
  match fuel with
  | O -> PFuel
  | S f ->
    let i0 = set_sub i in
    (match p_tokens f tm i0 with
     | POk a ->
       let (ts, i1) = a in
       (match ts with
        | [] -> PErr
        | _ :: _ ->
          if term_ok tm i1
          then POk ((TCat ((mk_span i0 i1), ts)), i1)
          else PErr)
     | PErr -> PErr
     | PFuel -> PFuel)

(** val parse_fuel : str -> nat **)

let parse_fuel e =
  add (mul (S (S (S (S O)))) (length e)) (S (S (S (S (S (S (S (S O))))))))

(** val init_input : str -> input **)

let init_input e =
  { i_s = e; i_pos = N0; i_ci = false; i_sub = N0 }

(** val err_span : coq_N -> str -> span **)

let err_span pos = function
| [] -> (pos, N0)
| c :: _ -> (pos, (utf8_len c))

type parse_result =
| ParseOk of tok
| ParseErr of span list
| ParseFuel

(** val parse : str -> parse_result **)

let parse e = match e with
| [] -> ParseOk tok_empty
| _ :: _ ->
  let i = init_input e in
  let f = parse_fuel e in
  (match p_tokens f TermTop (set_sub i) with
   | POk a ->
     let (ts, i1) = a in
     (match ts with
      | [] ->
        let iF = flags_with_state i in
        ParseErr
        ((err_span iF.i_pos iF.i_s) :: ((err_span N0 e) :: ((err_span N0 e) :: (
        (err_span N0 e) :: []))))
      | _ :: _ ->
        (match i1.i_s with
         | [] -> ParseOk (TCat ((N0, i1.i_pos), ts))
         | _ :: _ -> ParseErr ((err_span i1.i_pos i1.i_s) :: [])))
   | PErr -> ParseErr []
   | PFuel -> ParseFuel)
